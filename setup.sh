#!/bin/bash
# Offline setup: nothing to build or install (pure stdlib + the repository's own interpreter).
# Verifies that the interpreter, the repository tree and the framework import.
cd "$(dirname "$0")" || exit 1
export PYTHONPATH="$PWD:/repo" PYTHONDONTWRITEBYTECODE=1
/venv/bin/python - <<'PY' || exit 1
import sys, importlib, os, json
from bvm import core
core.use_repo()
n = 0
for f in sorted(os.listdir("bvm/props")):
    if f.startswith("c") and f.endswith(".py"):
        importlib.import_module("bvm.props." + f[:-3]); n += 1
json.load(open("MANIFEST.json"))
print("setup ok: python %s, behave from %s, %d property modules" % (sys.version.split()[0], core.REPO, n))
PY
