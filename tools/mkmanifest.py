#!/venv/bin/python
"""Regenerate MANIFEST.json from the property modules that exist (bvm/props/cXX.py)."""
import importlib
import json
import os
import sys

VERIF = os.path.dirname(os.path.dirname(os.path.abspath(__file__)))
sys.path.insert(0, VERIF)

props = [json.loads(l) for l in open(os.path.join(VERIF, "properties.jsonl"))]
checks, na = [], []
for p in props:
    pid = p["id"]
    path = os.path.join(VERIF, "bvm", "props", pid.lower() + ".py")
    if not os.path.exists(path):
        na.append({"property_id": pid, "reason": "check not built yet in this round (planned in DESIGN.md section 2, %s); nothing is claimed" % pid})
        continue
    m = importlib.import_module("bvm.props." + pid.lower())
    if getattr(m, "NOT_CLAIMED", None):
        na.append({"property_id": pid, "reason": m.NOT_CLAIMED})
        continue
    checks.append({
        "property_id": pid,
        "quick_cmd": "./check %s --tier quick" % pid,
        "thorough_cmd": "./check %s --tier thorough" % pid,
        "evidence_file": "evidence/%s.json" % pid,
        "replay_cmd_template": "./check %s --replay {path}" % pid,
        "engine": "bvm",
        "level_claimed": {"category": m.LEVEL, "text": m.LEVEL_TEXT, "design_ref": "DESIGN.md section 2, %s" % pid},
        "level_note": m.LEVEL_NOTE,
        "technique": m.TECHNIQUE,
    })
manifest = {
    "version": 1,
    "setup_cmd": "./setup.sh",
    "hooks": {
        "guard": "BEHAVE_VERIF",
        "enable": "no source hooks are needed: every observation point is a public extension point (step functions, hooks, cleanups, formatters, reporters) or a method wrapped from the harness at import time; checks import /repo's working tree directly (PYTHONPATH=/repo, verified per worker)",
        "baseline_off_cmd": "cd /repo && /venv/bin/python -m pytest -ra -q -p no:cacheprovider --timeout=900 --continue-on-collection-errors",
        "source_commits": [],
        "add_only": True,
    },
    "engines": [{"name": "bvm", "path": "bvm/", "serves_properties": [c["property_id"] for c in checks],
                 "kind_free_text": "runtime monitoring: generated hostile workloads executed on the real code under recording step functions/hooks/formatters, harness-installed post-condition wrappers, reference-model and trace checkers (pure Python, /venv interpreter)"}],
    "checks": checks,
    "not_applicable": na,
    "notes": "All checks run /repo's current working tree in-process or via `python -m behave` subprocesses; exit 0 held / 1 violation / 2 inconclusive. Known findings: known_findings.json. Sanitizers/race detectors do not apply (pure single-threaded Python), see DESIGN.md section 0.",
}
if not na:
    manifest["not_applicable"] = []
with open(os.path.join(VERIF, "MANIFEST.json"), "w") as f:
    json.dump(manifest, f, indent=1)
print("checks:", [c["property_id"] for c in checks], "not claimed:", [x["property_id"] for x in na])
