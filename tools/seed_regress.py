#!/venv/bin/python
"""Regression over the kept seeded changes: every change against the quick check of ITS OWN property (or the neighbouring
check recorded as catching it), on scratch copies of /repo's HEAD (never on /repo itself).

After a check was widened for a later round, the earlier changes must still be caught.  Prints one line per change and a
summary; exits 1 when a change that was caught before is not caught any more.

usage: tools/seed_regress.py [--only C05-a,C07-f] [--jobs 4]
"""
from __future__ import annotations

import argparse
import glob
import json
import os
import shutil
import subprocess
import sys
import tempfile
from concurrent.futures import ThreadPoolExecutor

VERIF = os.path.dirname(os.path.dirname(os.path.abspath(__file__)))


def catching_checks(name):
    """Own property first; when the record says only a neighbour catches it, that neighbour."""
    own = name.split("-")[0]
    meta = json.load(open(os.path.join(VERIF, "seeded", name, "meta.json")))
    det = meta.get("detected_by") or {}
    if (det.get(own + "/quick") or {}).get("caught"):
        return [own]
    others = sorted(k.split("/")[0] for k, v in det.items() if v.get("caught"))
    return others or [own]          # (tried in turn until one fires)


def one(name):
    d = os.path.join(VERIF, "seeded", name)
    patch = os.path.join(d, "patch_head.diff")
    if not os.path.exists(patch):
        patch = os.path.join(d, "patch.diff")
    root = tempfile.mkdtemp(prefix="bvm-regress-")
    try:
        p = subprocess.run("git -C /repo archive HEAD | tar -x -C %s" % root, shell=True, capture_output=True, text=True)
        if p.returncode != 0:
            return name, None, "archive failed"
        p = subprocess.run(["patch", "-p1", "-s", "-i", patch], cwd=root, capture_output=True, text=True)
        if p.returncode != 0:
            return name, None, "patch does not apply to HEAD"
        res = []
        for pid in catching_checks(name):
            r = subprocess.run([os.path.join(VERIF, "check"), pid, "--tier", "quick", "--no-evidence"], capture_output=True, text=True,
                               env=dict(os.environ, BVM_REPO=root, VERIF_JOBS="4"), timeout=3600)
            slugs = [l.strip().split(" ")[0] for l in r.stdout.splitlines() if l.startswith("  slug=")]
            res.append((pid, r.returncode == 1 and "VIOLATION" in r.stdout, r.returncode, slugs[:3]))
            if res[-1][1]:
                break
        return name, res, None
    finally:
        shutil.rmtree(root, ignore_errors=True)


def main():
    ap = argparse.ArgumentParser()
    ap.add_argument("--only")
    ap.add_argument("--jobs", type=int, default=4)
    args = ap.parse_args()
    names = sorted(os.path.basename(os.path.dirname(p)) for p in glob.glob(os.path.join(VERIF, "seeded", "*", "meta.json")))
    if args.only:
        names = [n for n in names if n in args.only.split(",")]
    lost = []
    with ThreadPoolExecutor(max_workers=args.jobs) as ex:
        for name, res, err in ex.map(one, names):
            if err:
                print("%-7s %s" % (name, err), flush=True)
                lost.append(name)
                continue
            ok = any(c for (_p, c, _rc, _s) in res)
            print("%-7s %s  %s" % (name, "caught" if ok else "NOT CAUGHT", "; ".join("%s rc=%d %s" % (p, rc, " ".join(s)) for (p, _c, rc, s) in res)), flush=True)
            if not ok:
                lost.append(name)
    print("changes: %d, not caught any more: %d %s" % (len(names), len(lost), " ".join(lost)))
    return 1 if lost else 0


if __name__ == "__main__":
    sys.exit(main())
