#!/venv/bin/python
"""Confirm a seeded change delivered by a sub-agent and try the checks against it.

usage: tools/seed_verify.py C19 a [--src /tmp/seed-out/C19/a] [--props C19,C09] [--tier quick] [--keep]

1. scratch worktree (/tmp/wt-<id>, created if missing): demo passes on the clean tree; patch applies;
   the repository's own test-suite still has 1655 passes / 13 pre-existing failures; demo fails with the patch.
2. /repo: git apply <patch>; run the listed checks; git checkout -- .  (always undone, also on error)
3. with --keep: copy patch.diff, demo.py, notes.md and a meta.json to /verif/seeded/<id>-<variant>/
"""
from __future__ import annotations

import argparse
import json
import os
import shutil
import subprocess
import sys

VERIF = os.path.dirname(os.path.dirname(os.path.abspath(__file__)))
PY = "/venv/bin/python"


def sh(cmd, cwd=None, env=None, timeout=1800):
    p = subprocess.run(cmd, cwd=cwd, env=env, capture_output=True, text=True, timeout=timeout, shell=isinstance(cmd, str))
    return p.returncode, p.stdout + p.stderr


def suite(wt):
    rc, out = sh([PY, "-m", "pytest", "-q", "-p", "no:cacheprovider", "--timeout=900",
                  "--continue-on-collection-errors", "tests"], cwd=wt, env=dict(os.environ, PYTHONPATH=wt))
    last = [l for l in out.strip().splitlines() if " passed" in l or " failed" in l][-1:]
    failed = sorted(l.split(" ")[1] for l in out.splitlines() if l.startswith("FAILED "))
    return (last[0] if last else "rc=%d" % rc), failed


def main():
    ap = argparse.ArgumentParser()
    ap.add_argument("pid")
    ap.add_argument("variant")
    ap.add_argument("--src")
    ap.add_argument("--props")
    ap.add_argument("--tier", default="quick")
    ap.add_argument("--keep", action="store_true")
    ap.add_argument("--skip-confirm", action="store_true")
    ap.add_argument("--base", help="commit the patch was written against (default: 764040e for variants a/b = round 1, "
                                   "/repo HEAD for later rounds)")
    args = ap.parse_args()
    pid = args.pid.upper()
    src = args.src or "/tmp/seed-out/%s/%s" % (pid, args.variant)
    if not os.path.exists(os.path.join(src, "patch.diff")):
        src = os.path.join(VERIF, "seeded", "%s-%s" % (pid, args.variant))
    patch = os.path.join(src, "patch.diff")
    demo = os.path.join(src, "demo.py")
    wt = "/tmp/wt-%s" % pid
    report = {"property": pid, "variant": args.variant}
    if not args.skip_confirm:
        base = args.base or ("764040e" if args.variant in ("a", "b") else sh(["git", "-C", "/repo", "rev-parse", "HEAD"])[1].strip())
        report["base"] = base
        if not os.path.isdir(wt):
            sh(["git", "-C", "/repo", "worktree", "add", "--detach", wt, base, "-q"])
        sh(["git", "-C", wt, "checkout", "--", "."])
        sh(["git", "-C", wt, "clean", "-fdq"])
        sh(["git", "-C", wt, "checkout", "-q", "--detach", base])
        env = dict(os.environ, PYTHONPATH=wt)
        rc0, out0 = sh([PY, demo], cwd=wt, env=env)
        report["demo_clean_rc"] = rc0
        rc, out = sh(["git", "-C", wt, "apply", patch])
        report["patch_applies_to_baseline"] = rc == 0
        if rc != 0:
            print(out)
        line, failed = suite(wt)
        report["suite_with_patch"] = line
        report["suite_same_13_failures"] = (len(failed) == 13 and all("test_tag_expression_protocol" in f for f in failed))
        rc1, out1 = sh([PY, demo], cwd=wt, env=env)
        report["demo_patched_rc"] = rc1
        report["demo_patched_tail"] = out1.strip().splitlines()[-3:]
        sh(["git", "-C", wt, "checkout", "--", "."])
        sh(["git", "-C", wt, "clean", "-fdq"])
        report["confirmed"] = bool(rc0 == 0 and rc == 0 and rc1 != 0 and "1655 passed" in line and report["suite_same_13_failures"])
    # ---- checks against /repo ------------------------------------------------------------
    props = (args.props or pid).split(",")
    rc, out = sh(["git", "-C", "/repo", "status", "--porcelain", "--untracked-files=no"])
    if out.strip():
        print("REFUSING: /repo has uncommitted changes:\n" + out)
        return 2
    if os.path.exists(os.path.join(src, "patch_head.diff")):
        # the same change ported to /repo's HEAD (needed where a later fix: commit touched the same lines)
        patch = os.path.join(src, "patch_head.diff")
    rc, out = sh(["git", "-C", "/repo", "apply", "--check", patch])
    report["applies_to_repo_head"] = rc == 0
    results = {}
    if rc == 0:
        try:
            rc, out = sh(["git", "-C", "/repo", "apply", patch])
            assert rc == 0, out
            for p in props:
                rc, out = sh([os.path.join(VERIF, "check"), p, "--tier", args.tier, "--no-evidence"],
                             env=dict(os.environ, VERIF_JOBS="8"), timeout=7200)
                slugs = [l.strip()[:300] for l in out.splitlines() if l.startswith("  slug=")]
                results[p] = {"rc": rc, "caught": rc == 1 and "VIOLATION" in out, "slugs": slugs[:4],
                              "tail": out.strip().splitlines()[-1:][0][:300] if out.strip() else ""}
        finally:
            sh(["git", "-C", "/repo", "checkout", "--", "."])
    else:
        print("patch does not apply to /repo HEAD:", out[:500])
    report["checks"] = results
    print(json.dumps(report, indent=1))
    if args.keep:
        dst = os.path.join(VERIF, "seeded", "%s-%s" % (pid, args.variant))
        if os.path.abspath(src) != dst:
            os.makedirs(dst, exist_ok=True)
            for f in ("patch.diff", "patch_head.diff", "demo.py", "notes.md"):
                if os.path.exists(os.path.join(src, f)):
                    shutil.copy(os.path.join(src, f), os.path.join(dst, f))
        meta_path = os.path.join(dst, "meta.json")
        meta = json.load(open(meta_path)) if os.path.exists(meta_path) else {}
        meta.update({"breaks_property": pid, "variant": args.variant,
                     "needs_to_manifest": meta.get("needs_to_manifest", "see notes.md"),
                     "confirmed": {k: report.get(k) for k in ("demo_clean_rc", "demo_patched_rc", "suite_with_patch",
                                                              "suite_same_13_failures", "patch_applies_to_baseline", "confirmed", "base")
                                   if k in report} or meta.get("confirmed"),
                     "what_was_run": ["demo.py on clean and patched scratch worktree", "repository test-suite on patched worktree",
                                      "git -C /repo apply patch.diff; ./check <prop> --tier %s; git -C /repo checkout -- ." % args.tier]})
        meta.setdefault("detected_by", {})
        for p, r in results.items():
            meta["detected_by"]["%s/%s" % (p, args.tier)] = {"caught": r["caught"], "slugs": [s.split(" ")[0] for s in r["slugs"]]}
        with open(meta_path, "w") as f:
            json.dump(meta, f, indent=1)
    return 0


if __name__ == "__main__":
    sys.exit(main())
