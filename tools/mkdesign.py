#!/venv/bin/python
"""Regenerate the generated block of DESIGN.md (between the BEGIN/END GENERATED markers) from what exists:
property modules, evidence/*.json (last quick run), selftest/results.json (last mutant run), seeded/*/meta.json.
Hand-written text outside the markers is left alone."""
from __future__ import annotations

import glob
import importlib
import json
import os
import sys

VERIF = os.path.dirname(os.path.dirname(os.path.abspath(__file__)))
sys.path.insert(0, VERIF)
BEGIN, END = "<!-- BEGIN GENERATED (tools/mkdesign.py) -->", "<!-- END GENERATED -->"


def load(path, default=None):
    try:
        with open(path) as f:
            return json.load(f)
    except (OSError, ValueError):
        return default


def main():
    props = {}
    with open(os.path.join(VERIF, "properties.jsonl")) as f:
        for line in f:
            if line.strip():
                p = json.loads(line)
                props[p["id"]] = p
    mut = load(os.path.join(VERIF, "selftest", "results.json"), {"mutants": []})
    by_prop = {}
    for m in mut["mutants"]:
        by_prop.setdefault(m["property"], []).append(m)
    seeded = {}
    for d in sorted(glob.glob(os.path.join(VERIF, "seeded", "*", "meta.json"))):
        meta = load(d, {})
        seeded.setdefault(meta.get("breaks_property"), []).append((os.path.basename(os.path.dirname(d)), meta))
    summaries = load(os.path.join(VERIF, "seeded", "SUMMARY.json"), {})
    out = [BEGIN, ""]
    # ---- per property -------------------------------------------------------------------------------------
    for pid in sorted(props):
        try:
            mod = importlib.import_module("bvm.props.%s" % pid.lower())
        except ImportError:
            out.append("### %s — no check built\n" % pid)
            continue
        ev = load(os.path.join(VERIF, "evidence", "%s.json" % pid), {})
        cov = ev.get("coverage", {})
        out.append("### %s — %s" % (pid, props[pid]["title"]))
        out.append("")
        out.append("* level claimed: `%s`; technique: %s" % (mod.LEVEL, mod.TECHNIQUE))
        out.append("* what runs: %s" % mod.LEVEL_TEXT)
        if getattr(mod, "LEVEL_NOTE", ""):
            out.append("* trusted / bounds: %s" % mod.LEVEL_NOTE)
        if getattr(mod, "EXHAUSTIVE", None):
            out.append("* exhaustive part: %s" % getattr(mod, "EXHAUSTIVE_SCOPE", ""))
        mons = cov.get("monitor_evaluations", {})
        if mons:
            out.append("* monitors and how often each was evaluated in the last committed %s run (seed %s, %s evaluations, %s distinct "
                       "non-trivial cases, %.0f s): %s" % (ev.get("tier"), ev.get("seed"), cov.get("evaluations"),
                                                            cov.get("distinct_nontrivial"), ev.get("wall_s", 0),
                                                            ", ".join("`%s` %d" % kv for kv in sorted(mons.items()))))
        req = getattr(mod, "REQUIRED", {})
        if req:
            out.append("* a run is **inconclusive** (exit 2) unless these monitors were evaluated at least (quick/thorough): %s%s"
                       % (", ".join("`%s` %s" % (k, ("%s/%s" % (v["quick"], v["thorough"])) if isinstance(v, dict) else v)
                                    for k, v in sorted(req.items())),
                          ("; and these values were observed: %s" % json.dumps(getattr(mod, "REQUIRED_SEEN"))
                           if getattr(mod, "REQUIRED_SEEN", None) else "")))
        ar = cov.get("anchor_reach")
        if ar:
            out.append("* reach monitor: %d anchored functions entered, %d of %d of their lines executed; anchored but never entered "
                       "(in-process): %s" % (ar["functions_entered"], ar["lines_hit"], ar["lines_in_entered_functions"],
                                             ", ".join("`%s`" % x.split(":", 1)[1] for x in ar["functions_never_entered"]) or "none"))
        ms = by_prop.get(pid, [])
        if ms:
            caught = [m for m in ms if m["caught"]]
            silent = [m for m in ms if (m.get("suite") or "").startswith("silent")]
            out.append("* sensitivity mutants (scratch copy, quick tier): %d of %d caught; %d of them leave the repository's own "
                       "test-suite green (the others are noticed by some test too). %s"
                       % (len(caught), len(ms), len(silent),
                          "; ".join("`%s`%s → %s" % (m["id"], "" if (m.get("suite") or "").startswith("silent") else " (suite notices)",
                                                     ("`%s`" % m["slugs"][0]) if m["caught"] and m["slugs"] else ("caught" if m["caught"] else "**MISSED**"))
                                    for m in ms)))
        for name, meta in seeded.get(pid, []):
            det = meta.get("detected_by", {})
            hits = sorted(k for k, v in det.items() if v.get("caught"))
            miss = sorted(k for k, v in det.items() if not v.get("caught"))
            own = det.get("%s/quick" % pid, {})
            out.append("* seeded change `%s` (%s): own check %s%s; also caught by: %s; %s"
                       % (name, (summaries.get(name) or "see seeded/%s/notes.md" % name),
                          "**catches it**" if own.get("caught") else "MISSES it",
                          (" (`%s`)" % ", ".join(s.replace("slug=", "") for s in own.get("slugs", [])[:3])) if own.get("slugs") else "",
                          ", ".join(k.split("/")[0] for k in hits if not k.startswith(pid)) or "—",
                          ("%d other checks tried, silent" % len([k for k in miss if not k.startswith(pid)])) if det else "no other check tried yet"))
        out.append("")
    out.append(END)
    text = "\n".join(out)
    path = os.path.join(VERIF, "DESIGN.md")
    s = open(path).read()
    if BEGIN in s and END in s:
        s = s[: s.index(BEGIN)] + text + s[s.index(END) + len(END):]
    else:
        s = s.rstrip("\n") + "\n\n" + text + "\n"
    with open(path, "w") as f:
        f.write(s)
    print("DESIGN.md generated block: %d lines" % len(out))


if __name__ == "__main__":
    main()
