#!/venv/bin/python
"""Cross matrix: every registered check against every kept seeded change.

The own-property result of each seeded change comes from tools/seed_verify.py (patch applied to /repo itself, undone straight
afterwards).  For the other 19 checks this tool works on a scratch copy of /repo's HEAD under /tmp (git archive | tar, the patch
applied with patch(1), the checks pointed at it with BVM_REPO), several copies in parallel, each removed as soon as its checks
are done.  Results go to seeded/<id>/meta.json -> detected_by["<Cxx>/quick"] with "how": "scratch copy".

usage: tools/seed_matrix.py [--only C05-a,C07-f] [--jobs 4] [--props C01,C02]
"""
from __future__ import annotations

import argparse
import glob
import json
import os
import shutil
import subprocess
import sys
import tempfile
from concurrent.futures import ThreadPoolExecutor

VERIF = os.path.dirname(os.path.dirname(os.path.abspath(__file__)))
ALL = ["C%02d" % i for i in range(1, 21)]


def one(name, props):
    d = os.path.join(VERIF, "seeded", name)
    patch = os.path.join(d, "patch_head.diff")
    if not os.path.exists(patch):
        patch = os.path.join(d, "patch.diff")
    root = tempfile.mkdtemp(prefix="bvm-seed-")
    out = {}
    try:
        p = subprocess.run("git -C /repo archive HEAD | tar -x -C %s" % root, shell=True, capture_output=True, text=True)
        if p.returncode != 0:
            return name, {"error": p.stderr[-300:]}
        p = subprocess.run(["patch", "-p1", "-s", "-i", patch], cwd=root, capture_output=True, text=True)
        if p.returncode != 0:
            return name, {"error": "patch does not apply to HEAD: " + (p.stdout + p.stderr)[-300:]}
        own = name.split("-")[0]
        for pid in props:
            if pid == own:
                continue
            r = subprocess.run([os.path.join(VERIF, "check"), pid, "--tier", "quick", "--no-evidence"], capture_output=True, text=True,
                               env=dict(os.environ, BVM_REPO=root, VERIF_JOBS="4"), timeout=3600)
            slugs = [l.strip().split(" ")[0] for l in r.stdout.splitlines() if l.startswith("  slug=")]
            out[pid] = {"caught": r.returncode == 1 and "VIOLATION" in r.stdout, "rc": r.returncode, "slugs": slugs[:4]}
    finally:
        shutil.rmtree(root, ignore_errors=True)
    return name, out


def main():
    ap = argparse.ArgumentParser()
    ap.add_argument("--only")
    ap.add_argument("--props")
    ap.add_argument("--jobs", type=int, default=4)
    args = ap.parse_args()
    names = sorted(os.path.basename(os.path.dirname(p)) for p in glob.glob(os.path.join(VERIF, "seeded", "*", "meta.json")))
    if args.only:
        names = [n for n in names if n in args.only.split(",")]
    props = args.props.split(",") if args.props else ALL
    with ThreadPoolExecutor(args.jobs) as ex:
        for name, res in ex.map(lambda n: one(n, props), names):
            if "error" in res:
                print(name, "ERROR", res["error"])
                continue
            mp = os.path.join(VERIF, "seeded", name, "meta.json")
            meta = json.load(open(mp))
            det = meta.setdefault("detected_by", {})
            for pid, r in res.items():
                det["%s/quick" % pid] = {"caught": r["caught"], "slugs": r["slugs"], "how": "scratch copy of /repo HEAD + patch (BVM_REPO)"}
                if r["rc"] not in (0, 1):
                    det["%s/quick" % pid]["note"] = "check exit code %d (inconclusive on the changed tree)" % r["rc"]
            with open(mp, "w") as f:
                json.dump(meta, f, indent=1)
            print(name, "also caught by:", ",".join(p for p, r in sorted(res.items()) if r["caught"]) or "-")
            sys.stdout.flush()


if __name__ == "__main__":
    main()
