#!/bin/bash
# usage: tools/sweep.sh <tier> <seed>...   -- runs every registered check without touching evidence/, prints one line per run
cd "$(dirname "$0")/.."
tier=$1; shift
for seed in "$@"; do
  for i in 01 02 03 04 05 06 07 08 09 10 11 12 13 14 15 16 17 18 19 20; do
    out=$(./check C$i --tier $tier --seed $seed --no-evidence 2>&1); rc=$?
    echo "C$i tier=$tier seed=$seed rc=$rc $(echo "$out" | grep -E '^check ' | cut -c1-110)"
    [ $rc -ne 0 ] && echo "$out" | grep -E 'VIOLATION|INCONCLUSIVE' | cut -c1-600
  done
done
exit 0
