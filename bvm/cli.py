"""Driver:  ./check <Cxx> [--tier quick|thorough] [--seed N] [--replay FILE] [--inline]

Fans the property's shard plan out to worker subprocesses, merges what their monitors
observed, decides the three-valued verdict, writes evidence/<id>.json and replay files.

exit 0  held on everything explored (KNOWN-FINDING lines possible)
exit 1  at least one violation that known_findings.json does not list (VIOLATION lines)
exit 2  inconclusive (a deciding monitor was never evaluated, a shard died or timed out)
"""
from __future__ import annotations

import argparse
import importlib
import json
import os
import shutil
import subprocess
import sys
import tempfile
import time

from . import core
from .core import Monitor, VERIF


def load_prop(pid):
    return importlib.import_module("bvm.props.%s" % pid.lower())


def load_findings():
    path = os.path.join(VERIF, "known_findings.json")
    if not os.path.exists(path):
        return {}
    with open(path) as f:
        data = json.load(f)
    return {(e["property"], e["slug"]): e for e in data.get("findings", [])}


def run_workers(pid, specs, jobs, workdir, default_timeout):
    env = dict(os.environ)
    env["PYTHONPATH"] = VERIF + os.pathsep + core.REPO
    env.setdefault("PYTHONHASHSEED", "0")
    env["PYTHONDONTWRITEBYTECODE"] = "1"
    for k in list(env):
        if k.startswith("BEHAVE_") and k != "BEHAVE_VERIF":
            del env[k]
    pending = list(enumerate(specs))
    running = {}
    results = [None] * len(specs)
    problems = []
    while pending or running:
        while pending and len(running) < jobs:
            i, spec = pending.pop(0)
            sp = os.path.join(workdir, "spec%d.json" % i)
            op = os.path.join(workdir, "out%d.json" % i)
            with open(sp, "w") as f:
                json.dump(spec, f)
            logf = open(os.path.join(workdir, "log%d.txt" % i), "w")
            p = subprocess.Popen([sys.executable, "-m", "bvm.worker", pid, sp, op],
                                 cwd=workdir, env=env, stdout=logf, stderr=subprocess.STDOUT,
                                 stdin=subprocess.DEVNULL)
            running[i] = (p, time.time(), spec.get("timeout", default_timeout), op, logf)
        time.sleep(0.05)
        for i in list(running):
            p, t0, tmo, op, logf = running[i]
            rc = p.poll()
            if rc is None:
                if time.time() - t0 > tmo:
                    p.kill()
                    p.wait()
                    logf.close()
                    problems.append("shard %d timed out after %ds (watchdog; inconclusive)" % (i, tmo))
                    del running[i]
                continue
            logf.close()
            del running[i]
            if rc != 0 or not os.path.exists(op):
                tail = ""
                try:
                    with open(os.path.join(workdir, "log%d.txt" % i)) as f:
                        tail = f.read()[-1500:]
                except Exception:
                    pass
                problems.append("shard %d died rc=%s: %s" % (i, rc, tail))
                continue
            with open(op) as f:
                results[i] = json.load(f)
    return results, problems


def main(argv=None):
    ap = argparse.ArgumentParser(prog="check")
    ap.add_argument("prop")
    ap.add_argument("--tier", default=os.environ.get("VERIF_TIER", "quick"), choices=["quick", "thorough"])
    ap.add_argument("--seed", type=int, default=int(os.environ.get("VERIF_SEED", "0") or 0))
    ap.add_argument("--replay")
    ap.add_argument("--inline", action="store_true", help="run shards in this process (debugging)")
    ap.add_argument("--jobs", type=int, default=int(os.environ.get("VERIF_JOBS", "0") or 0))
    ap.add_argument("--no-evidence", action="store_true")
    args = ap.parse_args(argv)
    pid = args.prop.upper()
    prop = load_prop(pid)
    t0 = time.time()
    jobs = args.jobs or min(16, os.cpu_count() or 4)

    mon = Monitor(pid, getattr(prop, "classify", None))
    problems = []
    reach_dumps = []
    if args.replay:
        core.use_repo()
        with open(args.replay) as f:
            rep = json.load(f)
        case = rep.get("witness", {}).get("case", rep.get("case"))
        prop.replay(case, mon)
        specs = []
    else:
        specs = prop.plan(args.tier, args.seed)
        for s in specs:
            s.setdefault("tier", args.tier)
        if args.inline:
            core.use_repo()
            from . import reach as reach_mod
            reach = reach_mod.Reach(pid)
            reach.start()
            try:
                for s in specs:
                    prop.run(s, mon)
            finally:
                reach.stop()
            reach_dumps.append(reach.dump())
        else:
            os.makedirs(os.path.join(VERIF, ".work"), exist_ok=True)
            workdir = tempfile.mkdtemp(prefix="%s-" % pid, dir=os.path.join(VERIF, ".work"))
            try:
                default_timeout = 1500 if args.tier == "quick" else 6 * 3600
                results, problems = run_workers(pid, specs, jobs, workdir, default_timeout)
                for r in results:
                    if r is not None:
                        mon.merge(r)
                        reach_dumps.append(r.get("reach"))
            finally:
                shutil.rmtree(workdir, ignore_errors=True)

    # ---- verdict ------------------------------------------------------
    known = load_findings()
    new_slugs, known_slugs = [], []
    for slug, n in sorted(mon.viol_counts.items()):
        (known_slugs if (pid, slug) in known else new_slugs).append((slug, n))

    inconclusive = list(problems)
    if not args.replay:
        for name, minimum in getattr(prop, "REQUIRED", {}).items():
            need = minimum[args.tier] if isinstance(minimum, dict) else minimum
            if mon.counters.get(name, 0) < need:
                inconclusive.append("monitor %r evaluated %d times (< %d)" % (name, mon.counters.get(name, 0), need))
        for cat, minimum in getattr(prop, "REQUIRED_SEEN", {}).items():
            need = minimum[args.tier] if isinstance(minimum, dict) else minimum
            have = mon.seen_sets.get(cat, ())
            if isinstance(need, int):
                if len(have) < need:
                    inconclusive.append("only %d distinct %r observed (< %d)" % (len(have), cat, need))
            else:
                missing = sorted(set(need) - set(have))
                if missing:
                    inconclusive.append("%r never observed: %s" % (cat, missing))
        if mon.evaluations == 0:
            inconclusive.append("no case was evaluated")
        from . import reach as reach_mod
        reach_summary = reach_mod.summary(pid, reach_dumps)
        if reach_summary["anchor_patterns"] and not reach_summary["functions_entered"]:
            inconclusive.append("the workload entered none of the functions the property is anchored in")
        for need in getattr(prop, "REQUIRED_REACH", []):
            if not any(k.endswith(":" + need) or k == need for k in reach_summary["per_function"]):
                inconclusive.append("anchored function %r was never entered by the workload" % need)
    else:
        reach_summary = None

    replay_dir = os.path.join(VERIF, "replay")
    lines = []
    for slug, n in known_slugs:
        e = known[(pid, slug)]
        lines.append("KNOWN-FINDING: property=%s %s: %s (seen %d times in this run)" % (pid, slug, e["what"], n))
    for slug, n in new_slugs:
        os.makedirs(replay_dir, exist_ok=True)
        safe = "".join(c if c.isalnum() or c in "-_." else "_" for c in slug)[:80]
        path = os.path.join(replay_dir, "%s-%s.json" % (pid, safe))
        w = mon.witnesses[slug][0] if mon.witnesses.get(slug) else {"slug": slug}
        with open(path, "w") as f:
            json.dump({"property": pid, "slug": slug, "count": n, "tier": args.tier, "seed": args.seed,
                       "monitor": w.get("monitor"), "witness": w.get("witness"),
                       "more": mon.witnesses.get(slug, [])[1:]}, f, indent=1, default=core.jdefault)
        lines.append("VIOLATION property=%s replay=%s" % (pid, path))
        lines.append("  slug=%s count=%d witness=%s" % (slug, n, core.short(w.get("witness"), 900)))

    wall = time.time() - t0
    if not args.replay and not args.no_evidence:
        write_evidence(prop, pid, args, mon, wall, known_slugs, new_slugs, inconclusive, reach_summary)

    for ln in lines:
        print(ln)
    status = "held"
    rc = 0
    if new_slugs:
        status, rc = "violated", 1
    elif inconclusive:
        status, rc = "inconclusive", 2
        for r in inconclusive:
            print("INCONCLUSIVE property=%s %s" % (pid, r))
    top = ", ".join("%s=%d" % kv for kv in sorted(mon.counters.items())[:12])
    print("%s %s tier=%s seed=%d: %s on %d evaluations (%d distinct non-trivial), %d shard(s), %.1fs; monitors: %s"
          % ("check", pid, args.tier, args.seed, status, mon.evaluations, len(mon.distinct), len(specs), wall, top))
    return rc


def write_evidence(prop, pid, args, mon, wall, known_slugs, new_slugs, inconclusive, reach_summary):
    os.makedirs(os.path.join(VERIF, "evidence"), exist_ok=True)
    seen = {}
    for k, v in mon.seen_sets.items():
        lst = sorted(v)
        seen[k] = {"distinct": len(lst), "values": lst[: core.MAX_SEEN]}
    samples = mon.samples or [{"note": "no sample recorded"}]
    cov = {
        "evaluations": mon.evaluations,
        "distinct_nontrivial": len(mon.distinct),
        "rule": prop.RULE,
        "samples": samples,
        "monitor_evaluations": dict(sorted(mon.counters.items())),
        "observed": seen,
        "known_findings_seen": {s: n for s, n in known_slugs},
        "new_violations": {s: n for s, n in new_slugs},
        "inconclusive_reasons": inconclusive,
        "repo": core.repo_state(),
        "notes": mon.notes,
    }
    if reach_summary:
        cov["anchor_reach"] = reach_summary
    if getattr(prop, "EXHAUSTIVE", None):
        ex = prop.EXHAUSTIVE
        cov["exhaustive"] = bool(ex.get(args.tier)) if isinstance(ex, dict) else bool(ex)
        cov["exhaustive_scope"] = getattr(prop, "EXHAUSTIVE_SCOPE", "")
    ev = {
        "property_id": pid,
        "tier": args.tier,
        "seed": args.seed,
        "level": prop.LEVEL,
        "coverage": cov,
        "assumptions": list(getattr(prop, "ASSUMPTIONS", [])),
        "wall_s": round(wall, 2),
        "violations": sum(n for _, n in new_slugs),
    }
    path = os.path.join(VERIF, "evidence", "%s.json" % pid)
    tmp = path + ".tmp"
    with open(tmp, "w") as f:
        json.dump(ev, f, indent=1, default=core.jdefault, ensure_ascii=True)
    os.replace(tmp, path)


if __name__ == "__main__":
    sys.exit(main())
