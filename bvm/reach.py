"""Reach monitor: which of the functions a property is anchored in did the workload really execute, and how many of their lines.

The functions come from the property's ``anchors.mechanism[].where`` / ``anchors.state[].where`` texts in properties.jsonl
("behave/model.py: Step.run, Scenario.run; behave/runner.py: ModelRunner.run_hook").  ``sys.monitoring`` (3.12) is used with PY_START
for every code object (answering DISABLE at once, so each function start costs one callback for the whole process) and, for the
anchored code objects only, local LINE events that also answer DISABLE after the first hit of each line.  Overhead is a few
thousand callbacks per worker.

The result is descriptive (evidence: anchor functions entered / never entered, lines hit of lines present); the only verdict it
feeds is "inconclusive" when a check's workload entered none of its anchored functions, or misses a function the property module
lists in REQUIRED_REACH.
"""
from __future__ import annotations

import ast
import fnmatch
import json
import os
import re
import sys

from . import core

TOOL = 3        # sys.monitoring tool id (0-5; 3 and 4 have no conventional owner)
_SEG = re.compile(r"((?:behave|docs)/[\w/.]+?\.(?:py|rst))\s*(?::\s*([^;]*))?")
_TOK = re.compile(r"^[A-Za-z_][\w.]*\*?$")


def anchors_of(prop_id):
    """-> {relfile: [pattern, ...]}; pattern '*' = whole file."""
    out = {}
    with open(os.path.join(core.VERIF, "properties.jsonl")) as fh:
        for line in fh:
            line = line.strip()
            if not line:
                continue
            p = json.loads(line)
            if p["id"] != prop_id:
                continue
            a = p.get("anchors", {})
            texts = [e.get("where", "") for e in a.get("mechanism", [])] + [e.get("where", "") for e in a.get("state", [])]
            for text in texts:
                for m in _SEG.finditer(text):
                    rel, names = m.group(1), m.group(2)
                    if not rel.endswith(".py"):
                        continue
                    pats = out.setdefault(rel, [])
                    toks = []
                    for part in re.split(r",|\s/\s|\sand\s", names or ""):
                        part = re.sub(r"\(.*?\)", "", part).strip().rstrip(".")
                        part = part.split(" ")[0] if part else part
                        if part and _TOK.match(part):
                            toks.append(part)
                    if not toks and not (names or "").strip():
                        toks = ["*"]
                    for t in toks:
                        if t not in pats:
                            pats.append(t)
            for rel in a.get("files", []):
                if rel.endswith(".py"):
                    out.setdefault(rel, [])
    return {k: v for k, v in out.items() if v}


def _matches(qual, pats):
    for p in pats:
        if p == "*" or qual == p or qual.startswith(p + ".") or fnmatch.fnmatchcase(qual, p) or qual.endswith("." + p):
            return True
    return False


def static_functions(repo, anchors):
    """All (relfile, qualname) -> line count of the functions in the anchored files that match the patterns."""
    found = {}
    for rel, pats in anchors.items():
        path = os.path.join(repo, rel)
        try:
            tree = ast.parse(open(path, encoding="utf-8").read())
        except (OSError, SyntaxError):
            continue

        def walk(node, prefix):
            for ch in ast.iter_child_nodes(node):
                if isinstance(ch, ast.ClassDef):
                    walk(ch, prefix + ch.name + ".")
                elif isinstance(ch, (ast.FunctionDef, ast.AsyncFunctionDef)):
                    qual = prefix + ch.name
                    if _matches(qual, pats):
                        found["%s:%s" % (rel, qual)] = True
                    walk(ch, prefix + ch.name + ".<locals>.")
        walk(tree, "")
    return found


class Reach(object):
    def __init__(self, prop_id, repo=None):
        self.repo = os.path.realpath(repo or core.REPO)
        self.anchors = anchors_of(prop_id)
        self.lines = {}         # "rel:qual" -> set(lines hit)
        self.total = {}         # "rel:qual" -> number of lines with code
        self._codes = {}
        self.active = False

    def start(self):
        mon = getattr(sys, "monitoring", None)
        if mon is None or not self.anchors:
            return False
        try:
            mon.use_tool_id(TOOL, "bvm-reach")
        except ValueError:
            return False
        E = mon.events
        mon.register_callback(TOOL, E.PY_START, self._on_start)
        mon.register_callback(TOOL, E.LINE, self._on_line)
        mon.set_events(TOOL, E.PY_START)
        self.active = True
        return True

    def stop(self):
        if self.active:
            mon = sys.monitoring
            mon.set_events(TOOL, 0)
            for code in self._codes:
                try:
                    mon.set_local_events(TOOL, code, 0)
                except Exception:
                    pass
            mon.free_tool_id(TOOL)
            self.active = False

    def _on_start(self, code, offset):
        mon = sys.monitoring
        fn = code.co_filename
        if fn.startswith(self.repo):
            rel = os.path.relpath(fn, self.repo)
            pats = self.anchors.get(rel)
            if pats and code not in self._codes and _matches(code.co_qualname, pats):
                key = "%s:%s" % (rel, code.co_qualname)
                self._codes[code] = key
                self.lines.setdefault(key, set())
                self.total[key] = len({l for (_s, _e, l) in code.co_lines() if l})
                mon.set_local_events(TOOL, code, mon.events.LINE)
        return mon.DISABLE

    def _on_line(self, code, line):
        key = self._codes.get(code)
        if key is not None:
            self.lines[key].add(line)
        return sys.monitoring.DISABLE

    def dump(self):
        return {"lines": {k: sorted(v) for k, v in self.lines.items()}, "total": dict(self.total)}


def merge(dumps):
    lines, total = {}, {}
    for d in dumps:
        if not d:
            continue
        for k, v in d.get("lines", {}).items():
            lines.setdefault(k, set()).update(v)
        total.update(d.get("total", {}))
    return lines, total


def summary(prop_id, dumps, repo=None):
    """Evidence fragment."""
    anchors = anchors_of(prop_id)
    lines, total = merge(dumps)
    static = static_functions(repo or core.REPO, anchors)
    entered = sorted(lines)
    never = sorted(k for k in static if k not in lines)
    hit = sum(len(v) for v in lines.values())
    tot = sum(total.get(k, 0) for k in lines)
    return {
        "what": "functions named in this property's anchors (mechanism/state 'where' texts) that the workload executed inside the "
                "check's own worker processes, observed with sys.monitoring (PY_START + per-function LINE events)",
        "anchor_patterns": anchors,
        "functions_entered": len(entered),
        "functions_never_entered": never,
        "lines_hit": hit,
        "lines_in_entered_functions": tot,
        "per_function": {k: "%d/%d" % (len(lines[k]), total.get(k, 0)) for k in entered},
    }
