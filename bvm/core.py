"""Monitor bookkeeping shared by all property modules.

A *Monitor* object is handed to a property's workload.  The workload reports

* ``case(key, nontrivial)``    one generated case (execution / input / history)
* ``check(name, ok, witness)``  one evaluation of a named oracle; a failing one is a violation
* ``seen(category, value)``     something the monitors observed (distinct shapes, states ...)
* ``sample(obj)``               an actual case written out for the evidence file

Nothing here raises into the code under observation: monitors record and count.
The object is serialised to JSON by the worker and merged by the driver.
"""
from __future__ import annotations

import hashlib
import json
import os
import sys
import time
import traceback
from collections import Counter, defaultdict

REPO = os.environ.get("BVM_REPO", "/repo")
VERIF = os.path.dirname(os.path.dirname(os.path.abspath(__file__)))

MAX_WITNESS_PER_SLUG = 3
MAX_SAMPLES = 6
MAX_SEEN = 400


def use_repo():
    """Make ``import behave`` resolve to the tree under test and verify it."""
    if REPO not in sys.path or sys.path[0] != REPO:
        sys.path.insert(0, REPO)
    import behave  # noqa
    here = os.path.realpath(os.path.dirname(behave.__file__))
    want = os.path.realpath(os.path.join(REPO, "behave"))
    if here != want:
        raise RuntimeError("behave imported from %s, expected %s" % (here, want))
    return behave


def jdefault(o):
    if isinstance(o, (set, frozenset)):
        return sorted(o, key=repr)
    if isinstance(o, bytes):
        return o.decode("latin-1")
    if isinstance(o, tuple):
        return list(o)
    return repr(o)


def canon(obj):
    return json.dumps(obj, sort_keys=True, default=jdefault, ensure_ascii=True)


def digest(obj):
    if not isinstance(obj, (str, bytes)):
        obj = canon(obj)
    if isinstance(obj, str):
        obj = obj.encode("utf-8", "surrogatepass")
    return hashlib.blake2b(obj, digest_size=8).hexdigest()


def short(obj, n=600):
    """Shorten a witness payload for printing / storing."""
    s = obj if isinstance(obj, str) else canon(obj)
    return s if len(s) <= n else s[:n] + "...(%d more)" % (len(s) - n)


class Monitor(object):
    def __init__(self, prop_id, classify=None):
        self.prop_id = prop_id
        self.classify = classify
        self.evaluations = 0
        self.distinct = set()
        self.counters = Counter()
        self.seen_sets = defaultdict(set)
        self.samples = []
        self.viol_counts = Counter()
        self.witnesses = defaultdict(list)
        self.notes = []
        self.t0 = time.time()

    # -- cases ---------------------------------------------------------
    def case(self, key, nontrivial=True):
        self.evaluations += 1
        if nontrivial:
            self.distinct.add(digest(key))

    def count(self, name, n=1):
        self.counters[name] += n

    def seen(self, category, value):
        s = self.seen_sets[category]
        if len(s) < 5000:
            s.add(value if isinstance(value, str) else canon(value))

    def sample(self, obj, force=False):
        if len(self.samples) < MAX_SAMPLES or force:
            self.samples.append(obj)

    # -- oracles -------------------------------------------------------
    def check(self, name, ok, witness=None):
        """Evaluate oracle *name*.  witness may be a callable (lazy)."""
        self.counters[name] += 1
        if ok:
            return True
        self.violation(name, witness)
        return False

    def violation(self, name, witness=None):
        if callable(witness):
            try:
                witness = witness()
            except Exception:  # pragma: no cover - witness builders must not kill a run
                witness = {"witness_error": traceback.format_exc()}
        if witness is None:
            witness = {}
        slug = name
        if self.classify is not None:
            try:
                slug = self.classify(name, witness) or name
            except Exception:
                slug = name
                witness = dict(witness, classify_error=traceback.format_exc())
        self.viol_counts[slug] += 1
        lst = self.witnesses[slug]
        if len(lst) < MAX_WITNESS_PER_SLUG:
            lst.append({"monitor": name, "slug": slug, "witness": witness})

    def note(self, text):
        if len(self.notes) < 50:
            self.notes.append(text)

    # -- (de)serialisation --------------------------------------------
    def dump(self):
        return {
            "prop_id": self.prop_id,
            "evaluations": self.evaluations,
            "distinct": sorted(self.distinct),
            "counters": dict(self.counters),
            "seen": {k: sorted(v) for k, v in self.seen_sets.items()},
            "samples": self.samples,
            "viol_counts": dict(self.viol_counts),
            "witnesses": {k: v for k, v in self.witnesses.items()},
            "notes": self.notes,
            "wall_s": time.time() - self.t0,
        }

    def merge(self, d):
        self.evaluations += d["evaluations"]
        self.distinct.update(d["distinct"])
        self.counters.update(d["counters"])
        for k, v in d["seen"].items():
            self.seen_sets[k].update(v)
        for s in d["samples"]:
            if len(self.samples) < MAX_SAMPLES:
                self.samples.append(s)
        self.viol_counts.update(d["viol_counts"])
        for k, v in d["witnesses"].items():
            lst = self.witnesses[k]
            for w in v:
                if len(lst) < MAX_WITNESS_PER_SLUG:
                    lst.append(w)
        self.notes.extend(d.get("notes", [])[: max(0, 50 - len(self.notes))])


def repo_state():
    import subprocess
    try:
        head = subprocess.run(["git", "-C", REPO, "rev-parse", "HEAD"], capture_output=True,
                              text=True, timeout=20).stdout.strip()
        dirty = bool(subprocess.run(["git", "-C", REPO, "status", "--porcelain", "--", "behave"],
                                    capture_output=True, text=True, timeout=20).stdout.strip())
    except Exception:
        head, dirty = "unknown", False
    return {"repo": REPO, "head": head, "dirty": dirty}
