"""Worker entry: python -m bvm.worker <Cxx> <spec.json> <out.json>"""
import importlib
import json
import sys

from . import core


def main():
    pid, specpath, outpath = sys.argv[1:4]
    core.use_repo()
    prop = importlib.import_module("bvm.props.%s" % pid.lower())
    with open(specpath) as f:
        spec = json.load(f)
    mon = core.Monitor(pid, getattr(prop, "classify", None))
    from . import reach as reach_mod
    reach = reach_mod.Reach(pid)
    reach.start()
    try:
        prop.run(spec, mon)
    finally:
        reach.stop()
    out = mon.dump()
    out["reach"] = reach.dump()
    with open(outpath + ".tmp", "w") as f:
        json.dump(out, f, default=core.jdefault)
    import os
    os.replace(outpath + ".tmp", outpath)


if __name__ == "__main__":
    main()
