"""Probes armed inside every behave process of a "wild" run (see site/sitecustomize.py).

Oracle-free invariants over whatever runs: behave's own acceptance features spawn hundreds of `behave` processes with
projects, options and environment files nobody generated here.  Each probe wraps a public seam from outside, records what it
sees, and at the end of ModelRunner.run_model() writes one JSON line per monitor to $BVM_WILD_LOG:
{"kind": "monitor", "monitor": ..., "n": evaluations, "bad": [witness, ...], "argv": ..., "cwd": ...}.
The probes never raise into the process they observe."""
from __future__ import annotations

import functools
import json
import os
import sys

LOG = os.environ.get("BVM_WILD_LOG")
_installed = [False]


def emit(rec):
    try:
        rec.setdefault("argv", sys.argv[1:])
        rec.setdefault("cwd", os.getcwd())
        rec.setdefault("pid", os.getpid())
        data = (json.dumps(rec, default=repr) + "\n").encode("utf-8")
        fd = os.open(LOG, os.O_WRONLY | os.O_APPEND | os.O_CREAT, 0o644)
        try:
            os.write(fd, data)
        finally:
            os.close(fd)
    except Exception:
        pass


class RunState(object):
    def __init__(self):
        self.hooks = []          # (name, kind, id-of-element or tag)
        self.cleanups = []       # [label, times_called]
        self.recorders = []
        self.summary = None
        self.cleanup_raised = 0
        self.cleanup_failed_owners = set()
        self.skip_calls = 0


def state_of(runner):
    st = runner.__dict__.get("_bvm_wild")
    if st is None:
        st = runner.__dict__["_bvm_wild"] = RunState()
    return st


CURRENT = []      # stack of (runner, state) of the runs in progress in this process


def install():
    if _installed[0] or not LOG:
        return
    _installed[0] = True
    import behave.runner as R
    import behave.model as M
    from behave.formatter import _registry as FR
    from behave.reporter import summary as S

    # ---- hooks: every call of run_hook, defined in environment.py or not ----------------------------------------------------
    orig_run_hook = R.ModelRunner.run_hook

    @functools.wraps(orig_run_hook)
    def run_hook(self, hook_name, *args, **kwargs):
        try:
            st = state_of(self)
            arg = args[-1] if args else None
            # (Context is passed first by some call sites, the element / tag last)
            st.hooks.append((hook_name, str(arg) if hook_name.endswith("_tag") else id(arg), getattr(arg, "name", None)))
        except Exception:
            pass
        return orig_run_hook(self, hook_name, *args, **kwargs)
    R.ModelRunner.run_hook = run_hook

    # ---- cleanups: every registered function is called exactly once ------------------------------------------------------------
    orig_add_cleanup = R.Context.add_cleanup

    @functools.wraps(orig_add_cleanup)
    def add_cleanup(self, cleanup_func, *args, **kwargs):
        entry = None
        try:
            if CURRENT and callable(cleanup_func):
                entry = [getattr(cleanup_func, "__name__", repr(cleanup_func)), 0, False]
                inner = cleanup_func

                ctx = self

                @functools.wraps(inner)
                def counted(*a, **k):
                    entry[1] += 1
                    try:
                        return inner(*a, **k)
                    except Exception:
                        # whose scope is ending: the innermost element the context still shows (inner layers are gone already)
                        try:
                            for attr in ("scenario", "rule", "feature"):
                                obj = ctx.__dict__.get("_stack") and next((f[attr] for f in ctx._stack if attr in f), None)
                                if obj is not None:
                                    CURRENT[-1][1].cleanup_failed_owners.add(id(obj))
                                    break
                            CURRENT[-1][1].cleanup_raised += 1
                        except Exception:
                            pass
                        raise
                cleanup_func = counted
        except Exception:
            entry = None
        result = orig_add_cleanup(self, cleanup_func, *args, **kwargs)
        if entry is not None:
            CURRENT[-1][1].cleanups.append(entry)      # (only when the registration was accepted)
        return result
    R.Context.add_cleanup = add_cleanup

    # ---- summary reporter: what it printed / counted at end() -----------------------------------------------------------------------
    for cls in (S.SummaryReporterV1, S.SummaryReporterV2):
        def wrap_end(cls=cls):
            orig_end = cls.end

            @functools.wraps(orig_end)
            def end(self):
                result = orig_end(self)
                try:
                    if CURRENT:
                        CURRENT[-1][1].summary = self
                except Exception:
                    pass
                return result
            cls.end = end
        wrap_end()

    # ---- the run itself ---------------------------------------------------------------------------------------------------------------
    orig_run_model = R.ModelRunner.run_model

    @functools.wraps(orig_run_model)
    def run_model(self, features=None):
        st = state_of(self)
        out0, err0 = sys.stdout, sys.stderr
        # formatter protocol: one more formatter that only records, for the time of this run (added here, behind the
        # configuration checks, so that nothing the user sees depends on it)
        rec = None
        try:
            from bvm.props.c15 import Recorder
            rec = Recorder("wild")
            self.formatters = list(self.formatters or []) + [rec]
            st.recorders = [rec]
        except Exception as ex:
            emit({"kind": "probe-error", "where": "recorder", "error": repr(ex)})
        CURRENT.append((self, st))
        outcome = {"returned": None, "escaped": None}
        try:
            outcome["returned"] = orig_run_model(self, features)
            return outcome["returned"]
        except BaseException as ex:
            outcome["escaped"] = repr(ex)
            raise
        finally:
            CURRENT.pop()
            try:
                if rec is not None:
                    self.formatters = [f for f in self.formatters if f is not rec]
            except Exception:
                pass
            try:
                judge(self, st, outcome, out0, err0, M)
            except Exception as ex:
                import traceback
                emit({"kind": "probe-error", "where": "judge", "error": repr(ex), "trace": traceback.format_exc()[-800:]})
    R.ModelRunner.run_model = run_model


PENDING_RECORDERS = []


def judge(runner, st, outcome, out0, err0, M):
    from behave.model_core import Status
    features = list(runner.features or [])
    cfg = runner.config
    info = {"dry_run": bool(getattr(cfg, "dry_run", False)), "stop": bool(getattr(cfg, "stop", False)),
            "aborted": bool(getattr(runner, "aborted", False)), "features": len(features)}
    emit({"kind": "run", "outcome": outcome, "info": info})

    def monitor(name, n, bad, **extra):
        emit(dict({"kind": "monitor", "monitor": name, "n": n, "bad": bad[:3], "info": info}, **extra))

    # ---- C18: the process streams are back ---------------------------------------------------------------------------------------
    monitor("wild.streams_restored_after_the_run", 1,
            [] if (sys.stdout is out0 and sys.stderr is err0) else [{"stdout_restored": sys.stdout is out0, "stderr_restored": sys.stderr is err0}])

    # ---- C12: hook calls nest and pair ------------------------------------------------------------------------------------------------
    bad, stack, n = [], [], 0
    for (name, ident, ename) in st.hooks:
        phase, _, kind = name.partition("_")
        if kind == "tag":
            continue
        n += 1
        if phase == "before":
            stack.append((kind, ident, ename))
        elif phase == "after":
            if not stack or stack[-1][:2] != (kind, ident):
                bad.append({"hook": name, "element": ename, "open": [(k, e) for k, _i, e in stack[-4:]]})
                # resynchronise: drop down to the matching entry if there is one
                for j in range(len(stack) - 1, -1, -1):
                    if stack[j][:2] == (kind, ident):
                        del stack[j:]
                        break
            else:
                stack.pop()
    if stack and outcome["escaped"] is None:
        bad.append({"never_closed": [(k, e) for k, _i, e in stack[-4:]]})
    if not info["aborted"]:
        # (what is still called after the user aborted the run -- KeyboardInterrupt, context.abort() -- is abort semantics: C01)
        monitor("wild.hook_calls_nest_and_pair", n, bad)

    # ---- C13: every accepted cleanup ran exactly once by the end of the run ---------------------------------------------------------
    if outcome["escaped"] is None:
        wrong = [{"cleanup": c[0], "times_called": c[1]} for c in st.cleanups if c[1] != 1]
        monitor("wild.every_cleanup_ran_exactly_once", len(st.cleanups), wrong)

    # ---- C03: status roll-up over the actual children ------------------------------------------------------------------------------------
    from bvm.props.runbase import rollup_checks
    bad, n = [], 0
    census = {"feature": {}, "rule": {}, "scenario": {}, "step": {}}

    def sname(x):
        try:
            return x.status.name
        except Exception as ex:
            return "EXCEPTION %s" % type(ex).__name__

    def count(kind, st_):
        census[kind][st_] = census[kind].get(st_, 0) + 1

    def container(c, kind, children, own_hook_failed):
        nonlocal n
        s_, ks = sname(c), [sname(x) for x in children]
        api_skipped = kind == "scenario" and bool(getattr(c, "should_skip", False)) and any(k not in ("skipped", "untested") for k in ks)
        for cname, ok in rollup_checks(kind, s_, ks, bool(own_hook_failed), id(c) in st.cleanup_failed_owners, api_skipped,
                                       skip_called=bool(getattr(c, "should_skip", False))):
            n += 1
            if not ok:
                bad.append({"check": cname, "container": getattr(c, "name", None), "kind": kind, "status": s_, "children": ks[:12],
                            "hook_failed": bool(own_hook_failed), "file": str(getattr(c, "location", ""))})

    def scen(s):
        steps = list(s.all_steps)
        for x in steps:
            count("step", sname(x))
        count("scenario", sname(s))
        container(s, "scenario", steps, getattr(s, "hook_failed", False))

    def walk(c, kind):
        for it in c.run_items:
            if isinstance(it, M.Rule):
                walk(it, "rule")
                count("rule", sname(it))
            elif isinstance(it, M.ScenarioOutline):
                rows = list(it.scenarios)
                for s in rows:
                    scen(s)
                container(it, "outline", rows, False)
            else:
                scen(it)
        container(c, kind, list(c.run_items), getattr(c, "hook_failed", False))
    for f in features:
        walk(f, "feature")
        count("feature", sname(f))
    monitor("wild.status_rollup_over_actual_children", n, bad, cleanups_that_raised=st.cleanup_raised)

    # ---- C14: the summary reporter counted every element once under its final status --------------------------------------------------
    rep = st.summary
    if rep is not None:
        bad = []
        tables = None
        if hasattr(rep, "feature_summary"):
            tables = {"feature": rep.feature_summary, "rule": rep.rule_summary, "scenario": rep.scenario_summary, "step": rep.step_summary}
            got = {k: {s: v for s, v in t.items() if s != "all" and v} for k, t in tables.items()}
        else:
            sc = rep.summary_counts
            got = {k: {s.name: v for s, v in obj.items() if v} for k, obj in
                   (("feature", sc.features), ("rule", sc.rules), ("scenario", sc.scenarios), ("step", sc.steps))}
        for kind in ("feature", "rule", "scenario", "step"):
            if got[kind] != census[kind]:
                bad.append({"kind": kind, "summary": got[kind], "census": census[kind]})
        monitor("wild.summary_counts_match_census", 4, bad, reporter=type(rep).__name__)

    # ---- C15: the formatter event stream is well formed ---------------------------------------------------------------------------------
    from bvm.props.c15 import check_grammar
    for rec in st.recorders:
        if outcome["escaped"] is None and not info["aborted"]:
            try:
                from behave.model import Scenario
                cafs = bool(getattr(Scenario, "continue_after_failed_step", False))
            except Exception:
                cafs = False
            errors, _ = check_grammar(rec.events, cafs=True)
            # (close is sent by the Runner after run_model(): not part of what is judged here)
            errors = [e for e in errors if not e.startswith("close called")]
            monitor("wild.formatter_events_grammar", len(rec.events), [{"errors": errors[:5], "events_tail": [list(map(str, e[:2])) for e in rec.events[-6:]]}] if errors else [])

    # ---- C01: the verdict agrees with what the model shows ----------------------------------------------------------------------------------
    if outcome["escaped"] is None:
        problem_statuses = ("failed", "error", "hook_error", "cleanup_error")
        problems = sum(v for k, v in census["scenario"].items() if k in problem_statuses) + \
            sum(v for k, v in census["feature"].items() if k in problem_statuses) + sum(v for k, v in census["rule"].items() if k in problem_statuses)
        returned = bool(outcome["returned"])
        bad = []
        if problems and not returned:
            bad.append({"returned": returned, "scenario_statuses": census["scenario"], "feature_statuses": census["feature"]})
        monitor("wild.no_success_verdict_with_failed_elements", 1, bad)
