# Loaded by every Python child process of a "wild" run (PYTHONPATH points here): arms the probes of bvm.wild.probe inside the
# behave processes that behave's own acceptance features spawn.  Does nothing without BVM_WILD_LOG.
import os
import sys

if os.environ.get("BVM_WILD_LOG"):
    try:
        _verif = os.environ.get("BVM_WILD_VERIF")
        if _verif and _verif not in sys.path:
            sys.path.append(_verif)
        from bvm.wild import probe as _probe
        _probe.install()
    except Exception as _ex:      # the probe must never change what the process under observation does
        try:
            import json
            with open(os.environ["BVM_WILD_LOG"], "a") as _fh:
                _fh.write(json.dumps({"kind": "probe-error", "error": repr(_ex), "argv": sys.argv}) + "\n")
        except Exception:
            pass
