"""Driver of a "wild" run: behave's own acceptance features (features/, issue.features/ of the repository under test) are run
from a scratch copy of the tree with the probes of bvm.wild.probe armed in every Python child process; the probe log is folded
into the monitors of the property that asked."""
from __future__ import annotations

import glob
import json
import os
import shutil
import subprocess
import sys
import tempfile

from .. import core

HERE = os.path.dirname(os.path.abspath(__file__))
VERIF = os.path.dirname(os.path.dirname(HERE))

# which probe monitor decides (a part of) which property, and the acceptance features that drive it in the quick tier
PLAN = {
    "C01": (["wild.no_success_verdict_with_failed_elements"],
            ["runner.stop_after_failure", "runner.abort_by_user", "runner.hook_errors", "runner.continue_after_failed_step", "step.pending_steps"]),
    "C03": (["wild.status_rollup_over_actual_children"],
            ["runner.hook_errors", "scenario.exclude_from_run", "feature.exclude_from_run", "runner.stop_after_failure", "scenario_outline.basics"]),
    "C12": (["wild.hook_calls_nest_and_pair"], ["runner.hook_errors", "runner.abort_by_user", "fixture", "runner.stop_after_failure"]),
    "C13": (["wild.every_cleanup_ran_exactly_once"], ["runner.context_cleanup", "fixture", "fixture.use_async_resource", "context.local_params"]),
    "C14": (["wild.summary_counts_match_census"], ["summary.undefined_steps", "runner.dry_run", "step.undefined_steps", "runner.hook_errors", "scenario_outline.tagged_examples"]),
    "C15": (["wild.formatter_events_grammar"], ["runner.multiple_formatters", "formatter.json", "formatter.progress3", "step.execute_steps", "runner.continue_after_failed_step", "runner.dry_run"]),
    "C18": (["wild.streams_restored_after_the_run"], ["capture_stdout", "capture_stderr", "logcapture", "logging.no_capture", "runner.hook_errors", "runner.abort_by_user"]),
}


def scratch_tree():
    """A scratch copy of what the acceptance features need from the tree under test (its current working tree)."""
    root = tempfile.mkdtemp(prefix="bvm-wild-")
    for name in ("behave", "behave4cmd0", "bin", "features", "issue.features", "behave.ini", "setup.cfg", "pyproject.toml", "tools"):
        src = os.path.join(core.REPO, name)
        if os.path.isdir(src):
            shutil.copytree(src, os.path.join(root, name), ignore=shutil.ignore_patterns("__pycache__", "__WORKDIR__", "*.pyc", "reports", "build"))
        elif os.path.exists(src):
            shutil.copy(src, os.path.join(root, name))
    return root


def run_features(root, files, timeout=1500):
    log = os.path.join(root, "wild-probe.jsonl")
    env = {"PATH": os.environ.get("PATH", "/usr/bin:/bin"), "HOME": root, "LANG": "C.UTF-8", "PYTHONIOENCODING": "utf-8",
           "PYTHONDONTWRITEBYTECODE": "1", "PYTHONHASHSEED": "0", "NO_COLOR": "1",
           "PYTHONPATH": os.pathsep.join([os.path.join(HERE, "site"), root]),
           "BVM_WILD_LOG": log, "BVM_WILD_VERIF": VERIF}
    by_dir = {}
    for f in files:
        by_dir.setdefault(f.split("/")[0], []).append(f)
    outs = []
    for d, fs in sorted(by_dir.items()):
        # (issue.features has its own environment.py / steps: a run of its own)
        try:
            p = subprocess.run([sys.executable, "-m", "behave", "-f", "progress", "--no-color"] + fs, cwd=root, env=env,
                               capture_output=True, timeout=timeout, stdin=subprocess.DEVNULL)
            outs.append({"dir": d, "rc": p.returncode, "tail": p.stdout.decode("utf-8", "replace")[-600:]})
        except subprocess.TimeoutExpired:
            outs.append({"dir": d, "timeout": True})
    records = []
    if os.path.exists(log):
        with open(log, encoding="utf-8") as fh:
            for line in fh:
                try:
                    records.append(json.loads(line))
                except ValueError:
                    pass
    return records, outs


def feed(mon, prop, tier, prefix=None):
    """Runs the acceptance features chosen for *prop* and feeds what the probes saw into *mon*."""
    monitors, quick_files = PLAN[prop]
    root = scratch_tree()
    try:
        if tier == "thorough":
            files = sorted("features/" + os.path.basename(p) for p in glob.glob(os.path.join(root, "features", "*.feature"))) + \
                sorted("issue.features/" + os.path.basename(p) for p in glob.glob(os.path.join(root, "issue.features", "*.feature")))
        else:
            files = ["features/%s.feature" % n for n in quick_files if os.path.exists(os.path.join(root, "features", "%s.feature" % n))]
        records, outs = run_features(root, files)
    finally:
        shutil.rmtree(root, ignore_errors=True)
    if any(o.get("timeout") for o in outs):
        mon.note("wild run: watchdog fired (inconclusive)")
    runs = sum(1 for r in records if r.get("kind") == "run")
    mon.count("wild.behave_runs_observed", runs)
    mon.count("wild.acceptance_feature_files", len(files))
    for r in records:
        if r.get("kind") == "probe-error":
            mon.note("wild probe error: %s %s" % (r.get("where"), r.get("error")))
        if r.get("kind") != "monitor" or r["monitor"] not in monitors:
            continue
        name = r["monitor"]
        n = int(r.get("n") or 0)
        if n == 0 and not r.get("bad"):
            continue
        mon.case(("wild", name, r.get("pid"), r.get("cwd"), tuple(r.get("argv") or ())), n > 1)
        ok = not r.get("bad")
        mon.check(name, ok, lambda r=r: {"argv": r.get("argv"), "cwd": r.get("cwd"), "violations": r.get("bad"), "info": r.get("info"),
                                        "note": "a behave process spawned by the repository's own acceptance features"})
        if n > 1:
            mon.count(name + ".observations", n - 1)
    return runs
