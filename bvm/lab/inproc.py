"""In-process lab: run generated programs through the real ModelRunner under recorders.

Everything is observed at behave's public boundary: generated step functions, hooks, cleanups,
formatters, reporters.  A fresh StepRegistry / Configuration / ModelRunner per case; process-wide
state that behave mutates is saved before and restored + checked after every case.
"""
from __future__ import annotations

import io
import logging
import sys
import zlib

import parse

from ..gen.render import render_feature

HOOK_NAMES = ["before_all", "after_all", "before_feature", "after_feature", "before_rule", "after_rule",
              "before_scenario", "after_scenario", "before_step", "after_step", "before_tag", "after_tag"]


class CustomAssertion(AssertionError):
    pass


class CustomError(Exception):
    pass


# what an "other exception" may be: none of these has a special meaning for behave (a plain NotImplementedError is NOT a pending step)
ERROR_CLASSES = [RuntimeError, ValueError, KeyError, NotImplementedError, OSError, LookupError, TypeError, ZeroDivisionError,
                 CustomError, AttributeError]


class InjectedHookError(Exception):
    pass


class Sink(io.StringIO):
    """Stands in for the process's real stdout/stderr during a case."""
    def __init__(self, name):
        super().__init__()
        self.name_ = name
        self.on_write = None

    def write(self, s):
        if self.on_write is not None:
            self.on_write(self.name_, s)
        return super().write(s)


@parse.with_pattern(r"k\d+")
def _parse_sid(text):
    return text


@parse.with_pattern(r"k\d*[02468]")
def _parse_sid_even(text):
    return text


@parse.with_pattern(r"k\d*0")
def _parse_sid_ten(text):
    return text


@parse.with_pattern(r"a\d+")
def _parse_asid(text):
    return text.upper()      # a converter whose result is a string DIFFERENT from the matched text ("a12" -> "A12")


@parse.with_pattern(r"b\d+")
def _parse_bad(text):
    # a user-defined type converter may fail with any exception, not only ValueError (lookup table -> KeyError, ...)
    exc = (ValueError, KeyError, ZeroDivisionError, TypeError, RuntimeError, LookupError)[int(text[1:]) % 6]
    raise exc("converter refuses %r" % text)


class Obs(object):
    pass


class RunLab(object):
    def __init__(self):
        from behave.configuration import Configuration
        from behave.runner import ModelRunner, Context
        from behave.step_registry import StepRegistry
        from behave.matchers import ParseMatcher
        from behave.parser import parse_feature
        from behave.model import Scenario, ScenarioOutline, Rule, Feature
        from behave.model_core import Status
        from behave.api.pending_step import StepNotImplementedError
        from behave.api.async_step import async_run_until_complete
        from behave.tag_expression import TagExpressionProtocol
        self.Configuration, self.ModelRunner, self.Context = Configuration, ModelRunner, Context
        self.StepRegistry, self.ParseMatcher = StepRegistry, ParseMatcher
        self.parse_feature = parse_feature
        self.Scenario, self.ScenarioOutline, self.Rule, self.Feature = Scenario, ScenarioOutline, Rule, Feature
        self.Status = Status
        self.StepNotImplementedError = StepNotImplementedError
        self.async_run_until_complete = async_run_until_complete
        self.TagExpressionProtocol = TagExpressionProtocol
        self.types = {"Sid": _parse_sid, "SidTen": _parse_sid_ten, "SidEven": _parse_sid_even, "ASid": _parse_asid, "Bad": _parse_bad}
        self.parse_cache = {}

    # ------------------------------------------------------------------
    def make_registry(self, state):
        reg = self.StepRegistry()
        lab = self

        def step_sync(context, sid, rest):
            lab.on_step(state, context, sid + " " + rest)

        @self.async_run_until_complete
        async def async_plain(context, sid, rest):
            lab.on_step(state, context, sid + " " + rest)

        @self.async_run_until_complete(timeout=60)
        async def async_with_timeout(context, sid, rest):
            # the parametrised form of the decorator takes another code path (asyncio.wait + re-raise of the task's exception)
            state.in_async_with_timeout = True
            try:
                lab.on_step(state, context, sid + " " + rest)
            finally:
                state.in_async_with_timeout = False

        def step_async(context, sid, rest):
            sid = sid.lower()
            (async_with_timeout if int(sid[1:]) % 2 else async_plain)(context, sid, rest)

        def step_bad(context, sid, rest):      # never reached: the converter raises first
            state.calls.append(("<bad-called>", sid + " " + rest))

        def step_optional_part(context, sid, mark, rest):
            # a definition with an optional part that is absent from the step text: the parameter arrives as None (the function
            # has no default for it)
            if mark is not None:
                state.calls.append(("<optional-part-not-None>", repr(mark)))
            lab.on_step(state, context, sid + " " + rest)

        # texts whose id ends in 0 have one definition PER STEP TYPE (@given / @when / @then with the same pattern): each records
        # when it is called for a step of another type (the step in hand is the one the before_step hook saw last)
        def typed(kind):
            def step_typed(context, sid, rest):
                cur = getattr(state, "current_step_type", None)
                if cur is not None and cur != kind:
                    state.calls.append(("<definition of another step type>", "@%s definition called for a %s step: %s %s" % (kind, cur, sid, rest)))
                state.typed_definition_calls = getattr(state, "typed_definition_calls", 0) + 1
                lab.on_step(state, context, sid + " " + rest)
            step_typed.__name__ = "step_typed_%s" % kind
            return step_typed
        for kind in ("given", "when", "then"):
            reg.steps[kind].append(self.ParseMatcher(typed(kind), "{sid:SidTen} {rest}", kind, custom_types=self.types))
        from behave.matchers import RegexMatcher
        for fn, pat in ((step_sync, "{sid:SidEven} {rest}"), (step_async, "{sid:ASid} {rest}"), (step_bad, "{sid:Bad} {rest}")):
            reg.steps["step"].append(self.ParseMatcher(fn, pat, "step", custom_types=self.types))
        reg.steps["step"].append(RegexMatcher(step_optional_part, r"(?P<sid>k\d*[13579])(?P<mark>\?)? (?P<rest>.+)", "step"))
        cuke_texts = [t for t in state.outcomes if t[:1] == "c"]
        if cuke_texts:
            from behave.cucumber_expression import StepMatcher4CucumberExpressions

            def make(text):
                def step_cuke(context):
                    lab.on_step(state, context, text)
                return step_cuke
            for t in cuke_texts:
                reg.steps["step"].append(StepMatcher4CucumberExpressions(make(t), t, "step"))
        return reg

    def on_step(self, state, context, text):
        scenario = getattr(context, "scenario", None)
        sname = scenario.name if scenario is not None else None
        state.calls.append((sname, text))
        state.events.append(("step", sname, text))
        state.in_user_code += 1
        try:
            for plug in state.step_plugins:
                plug(state, context, text)
            oc = state.outcomes.get(text, "pass")
            if oc == "pass":
                return
            if oc == "fail":
                if zlib.crc32(text.encode("utf-8")) % 4 == 0:
                    raise CustomAssertion(state.messages.get(text, "assertion subclass raised in %s" % text))
                if text not in state.messages and zlib.crc32(text.encode("utf-8")) % 7 in (3, 5):
                    # an assertion whose payload is not text: `assert got == want, (got, want)` / `assert code == 200, code`
                    assert False, ((3, 4) if zlib.crc32(text.encode("utf-8")) % 7 == 3 else 404)
                assert False, state.messages.get(text, "assertion failed in %s" % text)
            if oc == "error":
                # "raises any other exception": the class varies with the step text (deterministic, replayable)
                exc = ERROR_CLASSES[zlib.crc32(text.encode("utf-8")) % len(ERROR_CLASSES)]
                if getattr(state, "in_async_with_timeout", False) and zlib.crc32(text.encode("utf-8")) % 2 == 0:
                    exc = TimeoutError          # the step's OWN TimeoutError is an ordinary exception (error), not the decorator's timeout
                elif "wip" in (getattr(context, "tags", None) or ()) and zlib.crc32(text.encode("utf-8")) % 2 == 1:
                    # code under test that raises the BUILTIN NotImplementedError (an abstract method, ...) in a @wip scenario: an
                    # ordinary exception -- only behave's own StepNotImplementedError / PendingStepError mean "pending"
                    exc = NotImplementedError
                    state.seen_error_classes.add("NotImplementedError@wip")
                state.seen_error_classes.add(exc.__name__)
                raise exc(state.messages.get(text, "boom in %s" % text))
            if oc == "pending":
                if zlib.crc32(text.encode("utf-8")) % 3 == 0:
                    from behave.exception import PendingStepError
                    raise PendingStepError("pending %s" % text)
                raise self.StepNotImplementedError("pending %s" % text)
            if oc == "skip":
                context.scenario.skip()
                return
            if oc in ("skip_feature", "skip_rule"):
                # documented runtime skipping of "the remaining parts" of the enclosing feature / rule from inside a step
                target = context.feature
                if oc == "skip_rule" and getattr(context, "rule", None) is not None:
                    target = context.rule
                target.skip(reason="the rest is skipped by %s" % text)
                return
            if oc == "ki":
                raise KeyboardInterrupt()
            if oc == "abort":
                context.abort()
                return
            raise RuntimeError("unknown outcome %r" % oc)
        finally:
            state.in_user_code -= 1

    def make_hooks(self, state):
        def make(name):
            def hook(context, *args):
                elem = None
                tag = None
                if name.endswith("_tag"):
                    tag = str(args[0])
                elif args:
                    elem = args[0]
                ename = getattr(elem, "name", None)
                if name.endswith("_step") and elem is not None:
                    sc = getattr(context, "scenario", None)
                    ename = (sc.name if sc is not None else None, elem.name)
                k = state.hook_count
                state.hook_count += 1
                rec = (name, ename, tag)
                state.hooks.append(rec)
                state.events.append(("hook",) + rec)
                state.in_user_code += 1
                try:
                    if name == "before_step":
                        state.current_step_type = getattr(elem, "step_type", None)
                    if name == "before_scenario":
                        state.ran_objects[(getattr(elem, "filename", None), elem.name, elem.line)] = elem
                    if state.user_skip and name in ("before_feature", "before_rule") and getattr(elem, "name", None) in state.user_skip:
                        elem.skip(reason="skipped by environment.py")
                    for plug in state.hook_plugins:
                        plug(state, context, name, elem, tag)
                    fault = state.hook_fault
                    if fault is not None:
                        hit = (fault.get("k") == k) or (fault.get("match") is not None and list(fault["match"]) == [name, ename if not isinstance(ename, tuple) else list(ename), tag]) \
                            or (fault.get("ks") is not None and k in fault["ks"])
                        if hit:
                            state.faults_fired.append((k,) + rec)
                            # whose hook is it?  (the harness's own answer, independent of behave's hook_failed flags)
                            owner = None
                            if name.endswith("_tag"):
                                for attr in ("scenario", "rule", "feature"):
                                    obj = getattr(context, attr, None)
                                    if obj is not None:
                                        owner = obj.name
                                        break
                            elif name.split("_", 1)[1] in ("feature", "rule", "scenario"):
                                owner = ename
                            state.fault_owners.append(owner)
                            msg = "injected hook failure #%d" % k
                            if fault.get("message"):
                                msg += " " + fault["message"]
                            if fault.get("exc") == "AssertionError":
                                raise AssertionError(msg)
                            if fault.get("exc") == "KeyboardInterrupt":
                                raise KeyboardInterrupt()
                            raise InjectedHookError(msg)
                finally:
                    state.in_user_code -= 1
            hook.__name__ = name
            return hook
        return {n: make(n) for n in HOOK_NAMES}

    # ------------------------------------------------------------------
    def parse_program(self, program, rng=None, layout=False):
        feats = []
        for f in program["features"]:
            text = f.get("_text")
            if text is None:
                text, _ = render_feature(f, rng, layout)
                f["_text"] = text
            feats.append(self.parse_feature(text, filename=f.get("file", "x.feature")))
        return feats

    def run(self, program, args=(), hook_fault=None, step_plugins=(), hook_plugins=(), formatters=None,
            reporters=None, continue_after_failed_step=False, features=None, pre_run=None, messages=None,
            keep_sys_streams=False, second_run=None, config_kwargs=None):
        """Run *program*.  Returns an Obs."""
        st = Obs()
        st.outcomes = program["outcomes"]
        st.messages = messages or {}
        st.calls, st.hooks, st.events = [], [], []
        st.seen_error_classes = set()
        st.ran_objects = {}
        st.replaced_after_run = []
        st.hook_count = 0
        st.hook_fault = hook_fault
        st.faults_fired = []
        st.fault_owners = []
        st.step_plugins, st.hook_plugins = list(step_plugins), list(hook_plugins) + list(getattr(self, "extra_hook_plugins", None) or ())
        st.user_skip = set(program.get("user_skip") or ()) if isinstance(program, dict) else set()
        st.in_user_code = 0

        # -- process-wide state snapshot
        TEP = self.TagExpressionProtocol
        saved = {
            "tep": getattr(TEP, "_current", None),
            "schema": self.ScenarioOutline.annotation_schema,
            "cafs": self.Scenario.continue_after_failed_step,
            "stdout": sys.stdout, "stderr": sys.stderr,
            "handlers": list(logging.getLogger().handlers), "level": logging.getLogger().level,
        }
        st.real_out, st.real_err = Sink("stdout"), Sink("stderr")
        if not keep_sys_streams:
            sys.stdout, sys.stderr = st.real_out, st.real_err
        st.escaped = None
        st.verdict = None
        st.features, st.runner, st.config, st.stream_after = (features or []), None, None, (sys.stdout, sys.stderr)
        try:
            try:
                config = self.Configuration(list(args), load_config=False, **(config_kwargs or {}))
            except Exception as ex:
                # a legal command line must give a Configuration: reported through the same channel as an exception that
                # escapes the run (every property module checks obs.escaped first)
                st.escaped = ex
                st.setup_failed = True
                return_early = True
            else:
                return_early = False
            if return_early:
                st.elem_status, st.step_status, st.step_names, st.elem_kind, st.order = {}, {}, {}, {}, []
                st.step_types = {}
                return st
            config.reporters = list(reporters(config)) if reporters else []
            st.config = config
            if features is None:
                try:
                    features = self.parse_program(program)
                except Exception as ex:
                    # the generated programs are legal Gherkin: a parser that rejects one is an observation, reported through the
                    # same channel as an exception that escapes the run -- not a reason for the shard to die
                    st.escaped = ex
                    st.setup_failed = True
                    st.elem_status, st.step_status, st.step_names, st.elem_kind, st.order = {}, {}, {}, {}, []
                    st.step_types = {}
                    st.features = []
                    return st
            st.features = features
            reg = self.make_registry(st)
            runner = self.ModelRunner(config, features=features, step_registry=reg)
            runner.hooks = self.make_hooks(st)
            if getattr(self, "capture_hooks", None):
                # environment.py functions decorated with behave's documented @capture / @capture(level=...) decorator
                import logging as _logging
                from behave.log_capture import capture as _capture
                for j, hname in enumerate(sorted(self.capture_hooks)):
                    if hname in runner.hooks:
                        runner.hooks[hname] = (_capture if j % 2 == 0 else _capture(level=_logging.ERROR))(runner.hooks[hname])
            runner.formatters = list(formatters(config, st)) if formatters else []
            st.runner = runner
            self.Scenario.continue_after_failed_step = bool(continue_after_failed_step)
            if pre_run:
                pre_run(st)
            try:
                st.verdict = runner.run()
            except BaseException as ex:      # nothing may escape ModelRunner.run()
                st.escaped = ex
            if second_run is not None and st.escaped is None:
                second_run(st)
            st.stream_after = (sys.stdout, sys.stderr)
        finally:
            sys.stdout, sys.stderr = saved["stdout"], saved["stderr"]
            self.Scenario.continue_after_failed_step = saved["cafs"]
            self.ScenarioOutline.annotation_schema = saved["schema"]
            if saved["tep"] is None:
                if "_current" in TEP.__dict__:
                    try:
                        type.__delattr__(TEP, "_current")
                    except Exception:
                        TEP.use(TEP.DEFAULT)
            else:
                TEP.use(saved["tep"])
            root = logging.getLogger()
            st.logging_after = (list(root.handlers), root.level)
            root.handlers[:] = saved["handlers"]
            root.setLevel(saved["level"])
        self.snapshot(st)
        return st

    # ------------------------------------------------------------------
    def snapshot(self, st):
        """Flat dictionaries of what the model looks like after the run."""
        st.elem_status = {}
        st.step_status = {}
        st.step_names = {}
        st.step_types = {}
        st.elem_kind = {}
        st.order = []

        def sname(x):
            # an internal exception while reading a status is an observation, not a reason to stop monitoring
            try:
                return x.status.name
            except Exception as ex:
                return "EXCEPTION %s" % type(ex).__name__

        st.replaced_after_run = []

        def scen(s):
            ran = st.ran_objects.get((getattr(s, "filename", None), s.name, s.line))
            if ran is not None and ran is not s:
                # the scenario object found in the model after the run is not the object that was executed (rows rebuilt?)
                st.replaced_after_run.append((s.name, s.line))
            st.elem_status[s.name] = sname(s)
            st.elem_kind[s.name] = "scenario"
            steps = list(s.all_steps)
            st.step_status[s.name] = [sname(x) for x in steps]
            st.step_names[s.name] = [x.name for x in steps]
            st.step_types[s.name] = [x.step_type for x in steps]
            st.order.append(s.name)

        def walk(c):
            for it in c.run_items:
                if isinstance(it, self.Rule):
                    st.elem_kind[it.name] = "rule"
                    walk(it)
                    st.elem_status[it.name] = sname(it)
                elif isinstance(it, self.ScenarioOutline):
                    st.elem_kind[it.name] = "outline"
                    try:
                        rows = list(it.scenarios)
                    except Exception as ex:
                        # building the rows of an outline failed with an internal exception: an observation (reported through the
                        # same channel as an exception that escapes the run), not a reason to stop monitoring
                        if st.escaped is None:
                            st.escaped = ex
                        rows = []
                    for s in rows:
                        scen(s)
                    st.elem_status[it.name] = sname(it)
                else:
                    scen(it)
        for f in st.features or []:
            st.elem_kind[f.name] = "feature"
            walk(f)
            st.elem_status[f.name] = sname(f)
