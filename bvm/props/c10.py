"""C10 -- file-location and name selection pick exactly the addressed scenarios."""
from __future__ import annotations

import os
import random
import re
import shutil
import tempfile

from ..gen.docgen import DocGen
from ..gen.render import render_feature

ID = "C10"
LEVEL = "exploration"
RULE = ("rendered feature documents (rules, outlines with several examples tables, backgrounds, doc-strings, tables, "
        "@setup/@teardown scenarios, random layout); for EVERY line number from 0 to last+2 of every document the "
        "scenarios selected by parse_features([file:line]) are compared with the entity map of the renderer; all "
        "multisets of 1..3 locations for small documents (sampled otherwise), location lists over 2-3 files (bare file "
        "names and file:0 mixed with file:LINE, grouped per file), list files (@file) with comments, blank lines and "
        "relative paths, FileLocationParser on textual locations, and name selection (--name patterns drawn from "
        "scenario names and regex fragments) in real runs. A case = one location list / name pattern set on one "
        "document set; non-trivial = selects a proper non-empty subset; distinct by hash of (texts, locations).")
ASSUMPTIONS = [
    "entities are: feature, rule, scenario outline, a single examples row, scenario (as in the statement); any other "
    "line belongs to the nearest entity starting above it; lines above the feature line select the feature",
    "a file that is addressed again after other files forms a further group: each group is a feature of its own in the run, "
    "selected by the locations of that group",
    "list-file lines have no leading blanks (outside the statement)",
]
REQUIRED = {"line.selects_entity_scenarios": {"quick": 8000, "thorough": 500000},
            "multi.union_of_selections": {"quick": 1500, "thorough": 80000},
            "files.per_file_selection": {"quick": 250, "thorough": 12000}, "listfile.same_as_direct": {"quick": 100, "thorough": 5000},
            "listfile.mixed_with_direct_locations": {"quick": 100, "thorough": 5000},
            "locparser.roundtrip": {"quick": 500, "thorough": 20000}, "name.selects_matching": {"quick": 150, "thorough": 6000}, "line.selection_kept_under_the_autoretry_recipe": {"quick": 60, "thorough": 3000},
            "setup_teardown.never_skipped": {"quick": 40, "thorough": 2000}}
REQUIRED_SEEN = {"entity_kind_addressed": ["feature", "rule", "outline", "row", "scenario", "line0", "other_line", "beyond_end"],
                 "argument_list_shape": ["DL", "LD", "LL", "DLD"], "wildcard_listfile_place": ["working_directory", "sub_directory"],
                 "name_selection_shape": ["pattern_matches_the_empty_name_of_an_untitled_scenario", "together_with_a_file_location", "in_a_dry_run", "row_titles_rendered_from_placeholders", "row_added_in_before_feature"], "locations_together_with": ["include_exclude_patterns"]}
EXHAUSTIVE = True
EXHAUSTIVE_SCOPE = "every line number 0..last+2 of every generated document"
NSHARDS = {"quick": 16, "thorough": 16}


def plan(tier, seed):
    n = NSHARDS[tier]
    return [{"shard": i, "of": n, "seed": seed * 1000 + i} for i in range(n)]


def classify(name, w):
    return name


# ---------------------------------------------------------------------------
class Doc(object):
    """One rendered document + the renderer's own entity map."""
    def __init__(self, rng, i18n, fname, lang="en"):
        kws = i18n.languages[lang]
        gen = DocGen(rng, lang, kws, p_empty_name=0.0, max_rules=2, max_items=3)
        a = gen.feature()
        # unique scenario names; some @setup/@teardown scenarios
        n = [0]

        def fix(c):
            for it in c["items"]:
                if it["kind"] == "rule":
                    fix(it)
                else:
                    n[0] += 1
                    it["name"] = "%s%d %s" % ("O" if it["kind"] == "outline" else "S", n[0], it["name"])
                    it["tags"] = [t for t in it["tags"] if "<" not in t]
                    if rng.random() < 0.3 and it["kind"] == "scenario":
                        it["tags"] = it["tags"] + [rng.choice(["setup", "teardown"])]
                    if it["kind"] == "outline":
                        for ex in it["examples"]:
                            if ex.get("header") is None:
                                ex["header"], ex["rows"] = ["c"], [["1"]]
                            simple = [h for h in ex["header"] if "|" not in h]
                            if simple and rng.random() < 0.35:
                                # an Examples title with a placeholder: the row titles carry the cell of that row ("Region-US")
                                ex["name"] = "Region-<%s>" % rng.choice(simple)
        fix(a)
        if rng.random() < 0.3:
            # copy/paste twins: scenarios with the same keyword and the same title (at different lines) are different scenarios
            plain = []

            def collect(c):
                for it in c["items"]:
                    if it["kind"] == "rule":
                        collect(it)
                    elif it["kind"] == "scenario":
                        plain.append(it)
            collect(a)
            if len(plain) >= 2:
                twins = rng.sample(plain, rng.choice([2, 2, 3]) if len(plain) >= 3 else 2)
                for it in twins:
                    it["name"] = "Stwin same title"
        self.has_unnamed = False
        if rng.random() < 0.3:
            # scenarios without a title ("Scenario:"): their name is the empty string
            plain = []

            def collect2(c):
                for it in c["items"]:
                    if it["kind"] == "rule":
                        collect2(it)
                    elif it["kind"] == "scenario" and it["name"] != "Stwin same title":
                        plain.append(it)
            collect2(a)
            for it in rng.sample(plain, min(len(plain), rng.choice([1, 2]))):
                it["name"] = ""
                self.has_unnamed = True
        self.abstract = a
        self.fname = fname
        self.text, self.lines = render_feature(a, rng, layout=rng.random() < 0.6, language_header=(lang if lang != "en" else None))
        self.nlines = len(self.text.splitlines())
        # entity map: line -> (kind, [scenario ids]) ; scenario id = line of the scenario / row
        self.entities = {}
        self.all_ids = []
        self.protected = set()

        def scen_ids(it, key):
            if it["kind"] == "scenario":
                return [self.lines[key]]
            ids = []
            for ei, ex in enumerate(it["examples"]):
                for ri in range(len(ex["rows"])):
                    ids.append(self.lines[key + ("examples", ei, "table", "row", ri + 1)])
            return ids

        def walk(c, key):
            ids_all = []
            for i, it in enumerate(c["items"]):
                k = key + ("item", i)
                if it["kind"] == "rule":
                    ids = walk(it, k)
                    self.entities[self.lines[k]] = ("rule", ids)
                else:
                    ids = scen_ids(it, k)
                    if it["kind"] == "scenario":
                        self.entities[self.lines[k]] = ("scenario", ids)
                        if "setup" in it["tags"] or "teardown" in it["tags"]:
                            self.protected.add(self.lines[k])
                    else:
                        self.entities[self.lines[k]] = ("outline", ids)
                        for rid in ids:
                            self.entities[rid] = ("row", [rid])
                ids_all.extend(ids)
            return ids_all
        self.all_ids = walk(a, ())
        self.entities[self.lines[()]] = ("feature", list(self.all_ids))
        self.entity_lines = sorted(self.entities)

    def expected(self, line):
        """(kind addressed, scenario ids selected) for a location line."""
        if not line:
            return "line0", list(self.all_ids)
        if line in self.entities:
            return self.entities[line]
        prev = [l for l in self.entity_lines if l < line]
        if not prev:
            return "other_line", list(self.all_ids)     # above the feature line: the feature
        kind, ids = self.entities[prev[-1]]
        return ("beyond_end" if line > self.nlines else "other_line"), ids


def selected_ids(feature):
    return sorted(s.line for s in feature.walk_scenarios() if not s.should_skip)


def run(spec, mon):
    from behave import i18n
    from behave.model_core import FileLocation
    from behave.runner_util import parse_features, FileLocationParser, FeatureListParser, collect_feature_locations
    from ..lab.inproc import RunLab
    tier = spec.get("tier", "quick")
    rng = random.Random(spec["seed"])
    ndocs = 16 if tier == "quick" else 900
    root = tempfile.mkdtemp(prefix="bvm-loc-")
    cwd = os.getcwd()
    lab = RunLab()
    try:
        os.chdir(root)
        os.makedirs("features/sub")
        for d in range(ndocs):
            docs = []
            for j in range(rng.choice([1, 2, 3])):
                fname = "features/%sdoc%d_%d.feature" % ("sub/" if j == 2 else "", d, j)
                doc = Doc(rng, i18n, fname, "en" if j != 1 else rng.choice(["de", "fr", "en"]))
                with open(fname, "w", encoding="utf-8") as fh:
                    fh.write(doc.text)
                docs.append(doc)
            doc = docs[0]
            W = lambda **kw: dict(text=doc.text, file=doc.fname, **kw)
            # ---- every line of the document --------------------------------------------------------
            for line in range(0, doc.nlines + 3):
                kind, want = doc.expected(line)
                loc = FileLocation(doc.fname, line) if line else FileLocation(doc.fname)
                mon.case((doc.text, line), 0 < len(want) < len(doc.all_ids))
                mon.seen("entity_kind_addressed", kind)
                try:
                    feats = parse_features([loc])
                    got = selected_ids(feats[0])
                    want_all = sorted(set(want) | (doc.protected if (line and want != doc.all_ids) or True else set()))
                    want_all = sorted(set(want) | doc.protected)
                    mon.check("line.selects_entity_scenarios", got == want_all,
                              lambda: W(line=line, addressed=kind, got=got, want=want_all))
                except Exception as ex:
                    mon.check("line.selects_entity_scenarios", False, lambda: W(line=line, error=repr(ex)))
            try:
                for dd in docs:
                    parse_features([FileLocation(dd.fname)])
            except Exception as ex:
                # (a generated document is legal Gherkin: a parser that rejects it is reported, the other monitors need the model)
                mon.check("files.generated_documents_parse", False, lambda: dict(error=repr(ex), texts=[dd.text for dd in docs]))
                for dd in docs:
                    os.remove(dd.fname)
                continue
            mon.check("files.generated_documents_parse", True, None)
            if doc.protected:
                # a location that does not contain them still leaves @setup/@teardown scenarios unskipped
                other = [l for l in doc.entity_lines if doc.entities[l][0] in ("scenario", "row") and l not in doc.protected]
                if other:
                    feats = parse_features([FileLocation(doc.fname, other[0])])
                    got = selected_ids(feats[0])
                    mon.check("setup_teardown.never_skipped", doc.protected <= set(got), lambda: W(line=other[0], got=got, protected=sorted(doc.protected)))
            # ---- several locations of one file: union --------------------------------------------
            cands = list(range(0, doc.nlines + 2))
            for _ in range(100 if tier == "quick" else 100):
                k = rng.choice([1, 2, 2, 3])
                locs = [rng.choice(cands) for _ in range(k)]
                if rng.random() < 0.7:
                    locs = [l or 1 for l in locs]
                want = set(doc.protected)
                use_all = False
                for l in locs:
                    if not l:
                        use_all = True
                    want |= set(doc.expected(l)[1])
                if use_all:
                    want = set(doc.all_ids)
                mon.case((doc.text, tuple(locs)), 0 < len(want) < len(doc.all_ids))
                try:
                    feats = parse_features([FileLocation(doc.fname, l) if l else FileLocation(doc.fname) for l in locs])
                    got = selected_ids(feats[0])
                    mon.check("multi.union_of_selections", len(feats) == 1 and got == sorted(want),
                              lambda: W(lines=locs, got=got, want=sorted(want)))
                except Exception as ex:
                    mon.check("multi.union_of_selections", False, lambda: W(lines=locs, error=repr(ex)))
            # ---- several files -------------------------------------------------------------------------
            if len(docs) >= 2:
                for _ in range(20):
                    order = docs[:]
                    rng.shuffle(order)
                    spec_list = []
                    for dd in order:
                        mode = rng.choice(["bare", "zero", "lines", "lines"])
                        if mode == "bare":
                            spec_list.append((dd, [None]))
                        elif mode == "zero":
                            spec_list.append((dd, [0]))
                        else:
                            spec_list.append((dd, [rng.randint(1, dd.nlines + 1) for _ in range(rng.choice([1, 2]))]))
                    if rng.random() < 0.3:
                        # the first file is addressed AGAIN after the others (A:3 B:4 A:10): a further group of its own, selected
                        # on its own -- the scenarios picked by the earlier group stay picked
                        dd0 = spec_list[0][0]
                        spec_list.append((dd0, [rng.randint(1, dd0.nlines + 1)]))
                        mon.seen("location_list_shape", "file_revisited")
                    locs = []
                    texts = []
                    for dd, ls in spec_list:
                        for l in ls:
                            locs.append(FileLocation(dd.fname, l) if l else FileLocation(dd.fname))
                            texts.append("%s:%d" % (dd.fname, l) if l is not None and (l or rng.random() < 2) and l is not None else dd.fname)
                    want = []
                    for dd, ls in spec_list:
                        if any(not l for l in ls):
                            want.append(sorted(dd.all_ids))
                        else:
                            w = set(dd.protected)
                            for l in ls:
                                w |= set(dd.expected(l)[1])
                            want.append(sorted(w))
                    mon.case(tuple(texts), True)
                    try:
                        feats = parse_features(locs)
                        got = [selected_ids(f) for f in feats]
                        mon.check("files.per_file_selection", got == want and [os.path.basename(f.filename) for f in feats] == [os.path.basename(dd.fname) for dd, _ in spec_list],
                                  lambda: dict(locations=texts, got=got, want=want))
                    except Exception as ex:
                        mon.check("files.per_file_selection", False, lambda: dict(locations=texts, error=repr(ex)))
                    # ---- the same as the Runner takes it from a command line that ALSO has --include / --exclude patterns (which
                    #      filter files and leave the addressed lines alone)
                    if rng.random() < 0.4:
                        from behave.configuration import Configuration as _Cfg
                        from behave.runner import Runner as _Runner
                        from behave.tag_expression import TagExpressionProtocol as _TEP
                        pattern_args = rng.choice([["-i", "features"], ["--exclude=zzz"], ["-i", r"doc\d+", "-e", "nosuch"]])
                        try:
                            cfg_ = _Cfg(list(texts) + pattern_args, load_config=False)
                            locs_r = _Runner(cfg_).feature_locations()
                            got_r = [selected_ids(f) for f in parse_features(locs_r)]
                            mon.seen("locations_together_with", "include_exclude_patterns")
                            mon.check("files.per_file_selection", got_r == want,
                                      lambda: dict(locations=texts, patterns=pattern_args, runner_locations=[str(x) for x in locs_r], got=got_r, want=want))
                        except Exception as ex:
                            mon.check("files.per_file_selection", False, lambda: dict(locations=texts, patterns=pattern_args, error=repr(ex)))
                        finally:
                            _TEP.use(_TEP.DEFAULT)
                    # ---- the same through a list file ---------------------------------------------------------
                    if rng.random() < 0.5:
                        lst = []
                        for t in texts:
                            if rng.random() < 0.3:
                                lst.append(rng.choice(["", "# a comment", "#features/x.feature:1", "   "]))
                            lst.append(t + rng.choice(["", "  ", "\t"]))
                        listname = rng.choice(["list.txt", "features/list.txt"])
                        rel = [os.path.relpath(x, os.path.dirname(listname) or ".") if (x and not x.startswith("#") and x.strip()) else x for x in lst]
                        with open(listname, "w", encoding="utf-8") as fh:
                            fh.write("\n".join(rel) + "\n")
                        try:
                            locs2 = collect_feature_locations(["@" + listname])
                            feats2 = parse_features(locs2)
                            got2 = [selected_ids(f) for f in feats2]
                            mon.check("listfile.same_as_direct", got2 == want, lambda: dict(listfile=rel, got=got2, want=want))
                            same = FeatureListParser.parse("\n".join(rel), os.path.dirname(listname) or ".")
                            mon.check("listfile.parse_text", [(os.path.normpath(l.filename), l.line) for l in same] ==
                                      [(os.path.normpath(l.filename), l.line) for l in locs2], lambda: dict(listfile=rel))
                        except Exception as ex:
                            mon.check("listfile.same_as_direct", False, lambda: dict(listfile=rel, error=repr(ex)))
                    # ---- a list file with WILDCARD entries (documented), in the working directory or in a sub-directory: the entries --
                    # wildcards included -- are relative to the list file's own directory
                    if rng.random() < 0.4:
                        listname = rng.choice(["wild.txt", "features/wild.txt", "features/sub/wild.txt"])
                        ldir = os.path.dirname(listname) or "."
                        present = sorted(set(dd.fname for dd in docs))
                        pattern_abs = rng.choice(["features/doc%d_*.feature" % d, "features/*.feature", "features/doc%d_[01].feature" % d, "features/doc%d_?.feature" % d])
                        entry = os.path.relpath(pattern_abs, ldir)
                        import fnmatch
                        want_files = [x for x in present if fnmatch.fnmatchcase(x, pattern_abs) and os.path.dirname(x) == "features"]
                        first = rng.choice([None, present[-1] + ":1"])
                        content = ([os.path.relpath(first.split(":")[0], ldir) + ":1"] if first else []) + [entry]
                        with open(listname, "w", encoding="utf-8") as fh:
                            fh.write("\n".join(content) + "\n")
                        try:
                            locs4 = collect_feature_locations(["@" + listname])
                            got4 = sorted(set(os.path.normpath(l.filename) for l in locs4))
                            want4 = sorted(set(want_files + ([first.split(":")[0]] if first else [])))
                            mon.check("listfile.wildcard_entries_relative_to_the_list_file", got4 == want4,
                                      lambda: dict(listfile=listname, content=content, got=got4, want=want4))
                            mon.seen("wildcard_listfile_place", "working_directory" if ldir == "." else "sub_directory")
                        except Exception as ex:
                            mon.check("listfile.wildcard_entries_relative_to_the_list_file", False,
                                      lambda: dict(listfile=listname, content=content, error=repr(ex)))
                    # ---- list files MIXED with direct locations on one command line (any position, also two list files) ----
                    if len(texts) >= 2 and rng.random() < 0.6:
                        i = rng.randint(0, len(texts) - 1)
                        j = rng.randint(i + 1, len(texts))
                        segs = [("direct", texts[:i]), ("list", texts[i:j]),
                                (rng.choice(["direct", "list"]), texts[j:])]
                        argv, shape = [], []
                        for n, (kind, part) in enumerate(segs):
                            if not part:
                                continue
                            if kind == "direct":
                                argv.extend(part)
                                shape.append("D")
                            else:
                                listname = rng.choice(["part%d.txt" % n, "features/part%d.txt" % n])
                                with open(listname, "w", encoding="utf-8") as fh:
                                    fh.write("\n".join(os.path.relpath(x, os.path.dirname(listname) or ".") for x in part) + "\n")
                                argv.append("@" + listname)
                                shape.append("L")
                        mon.seen("argument_list_shape", "".join(shape))
                        try:
                            locs3 = collect_feature_locations(argv)
                            got3 = [selected_ids(f) for f in parse_features(locs3)]
                            mon.check("listfile.mixed_with_direct_locations", got3 == want,
                                      lambda: dict(arguments=argv, shape="".join(shape), locations=texts, got=got3, want=want))
                        except Exception as ex:
                            mon.check("listfile.mixed_with_direct_locations", False, lambda: dict(arguments=argv, error=repr(ex)))
            # ---- the command line handed over as ONE string (behave.__main__.main("..."), Configuration("...")): name patterns and
            #      paths with a '#' inside are words like any other
            from behave.configuration import Configuration as _Cfg2
            from behave.tag_expression import TagExpressionProtocol as _TEP2
            for _ in range(6):
                pat_ = rng.choice(["#12", "Issue.#12", "e.#1.l", "S1", "a#b"])
                path_ = rng.choice(["features/c#/sharp.feature:6", "features/doc0_0.feature:3", "features/issue#7.feature", "features"])
                line_ = rng.choice(["--name=%s %s", "-n %s %s", "%s --name=%s"])
                line_ = line_ % ((pat_, path_) if line_.startswith("-") else (path_, pat_))
                mon.case(("string-command-line", line_), True)
                try:
                    cfg2 = _Cfg2(line_, load_config=False)
                    mon.seen("command_line_given_as", "one_string_with_hash_words")
                    mon.check("locparser.one_string_command_line", list(cfg2.name or []) == [pat_] and list(cfg2.paths) == [os.path.normpath(path_)],
                              lambda: dict(command_line=line_, name=cfg2.name, paths=cfg2.paths, want_name=[pat_], want_paths=[os.path.normpath(path_)]))
                except BaseException as ex:
                    mon.check("locparser.one_string_command_line", False, lambda: dict(command_line=line_, error=repr(ex)))
                finally:
                    _TEP2.use(_TEP2.DEFAULT)
            # ---- FileLocationParser ------------------------------------------------------------------------
            for _ in range(40):
                path = rng.choice(["features/a.feature", "a b/c d.feature", "C:/x/y.feature", "ünï/ß.feature", "x.feature", "dir.with.dots/f.feature", "a:b.feature"])
                line = rng.choice([None, 0, 1, 7, 123, 99999])
                text = path if line is None else "%s:%d" % (path, line)
                pad = rng.choice(["", " ", "  "])
                loc = FileLocationParser.parse(pad + text + pad)
                mon.case(("loc", text), True)
                mon.check("locparser.roundtrip", loc.filename == path and loc.line == line and (str(loc) == text or line is None),
                          lambda: dict(text=text, filename=loc.filename, line=loc.line, as_text=str(loc)))
            # ---- name selection in a real run ------------------------------------------------------------------
            for _ in range(12):
                feats = parse_features([FileLocation(doc.fname)])
                # the names as WRITTEN in the file (from the document generator, not from the parsed model)
                names_all = []

                def written(c):
                    for it in c["items"]:
                        if it["kind"] == "rule":
                            written(it)
                        elif it["kind"] == "scenario":
                            names_all.append(it["name"])
                        else:
                            for ei, ex in enumerate(it["examples"]):
                                if ex.get("header") is None:
                                    continue
                                for ri in range(len(ex["rows"])):
                                    # placeholders in the outline title and in the Examples title are filled from the row (plain
                                    # textual substitution, as C06 states it)
                                    oname, ename = it["name"], ex.get("name", "")
                                    for h, v in zip(ex["header"], ex["rows"][ri]):
                                        oname, ename = oname.replace("<%s>" % h, v), ename.replace("<%s>" % h, v)
                                    names_all.append(u"%s -- @%d.%d %s" % (oname, ei + 1, ri + 1, ename))
                written(doc.abstract)
                # (read off a second parse: walking the scenarios of the model that is going to run would build the outline rows before
                #  the run -- a plain `behave FILE -n PATTERN` builds them when it gets there)
                parsed_names = [s.name for s in parse_features([FileLocation(doc.fname)])[0].walk_scenarios()]
                if [n.strip() for n in parsed_names] != [n.strip() for n in names_all]:
                    # (titles with placeholders of no column etc.: fall back to what the model says -- C04 / C06 own those texts)
                    mon.count("name.fallback_to_parsed_names")
                    if any(("<" in n) for n in names_all) or len(parsed_names) != len(names_all):
                        names_all = parsed_names
                elif any("<" in it.get("name", "") or any("<" in (ex.get("name") or "") for ex in it.get("examples", []))
                         for it in doc.abstract["items"] if it["kind"] == "outline"):
                    mon.seen("name_selection_shape", "row_titles_rendered_from_placeholders")
                if not names_all:
                    continue
                pats = []
                for _k in range(rng.choice([1, 1, 2])):
                    nm = rng.choice(names_all)
                    pats.append(rng.choice([re.escape(nm.split(" ")[0]) + r"\b", r"^S\d", r"\d+ ", r"O\d+.*@1\.1", r"[13579] ", re.escape(nm[:6]), r"@\d\.2", "zzz-nomatch",
                                            re.escape(nm), re.escape(rng.choice(nm.split(" ") or [nm])) if nm else "zzz", r"Cafe\b", r"Caf.\b", r"^.{12}$",
                                            # patterns that (also) match the EMPTY name of a scenario without title
                                            r"^$", r".*", r"x*", r"^(?!S)", r"^(?!.*\d)",
                                            # the part of a row title that comes from a cell / the raw placeholder that must be gone
                                            r"Region-\w", r"Region-<", re.escape(nm[-6:]) + "$" if nm else "zzz"]))
                if doc.has_unnamed and any(re.search(p_, "") for p_ in pats):
                    mon.seen("name_selection_shape", "pattern_matches_the_empty_name_of_an_untitled_scenario")
                want = [n for n in names_all if re.search("|".join(pats), n)]
                loc_line = None
                if not doc.protected and len(names_all) == len(doc.all_ids) and rng.random() < 0.4:
                    # a location AND name patterns in one run: a scenario runs when it is addressed by the location and its name
                    # matches; no hook of any other scenario is called
                    loc_line = rng.choice(doc.entity_lines)
                    addressed = set(doc.expected(loc_line)[1])
                    feats = parse_features([FileLocation(doc.fname, loc_line)])
                    want = [n for n, sid in zip(names_all, doc.all_ids) if sid in addressed and re.search("|".join(pats), n)]
                    mon.seen("name_selection_shape", "together_with_a_file_location")
                entered = []

                def rec(state, context, name, elem, tag):
                    if name == "before_scenario":
                        entered.append(elem.name)
                dry = rng.random() < 0.25
                obs = lab.run({"features": [], "outcomes": {}}, args=["--name=%s" % p for p in pats] + (["--dry-run"] if dry else []),
                              features=feats, hook_plugins=[rec])
                if dry and obs.escaped is None:
                    # a dry run executes nothing, the selection is the same: what is not addressed is reported skipped, what is
                    # addressed is not
                    mon.seen("name_selection_shape", "in_a_dry_run")
                    scs = list(feats[0].walk_scenarios())
                    if len(scs) != len(names_all) or len(scs) != len(doc.all_ids):
                        continue
                    addressed_ = set(doc.expected(loc_line)[1]) if loc_line is not None else set(doc.all_ids)
                    sts, ok = [], not entered
                    for sc_, nm, sid in zip(scs, names_all, doc.all_ids):
                        selected_ = sid in addressed_ and re.search("|".join(pats), nm) is not None
                        st_ = sc_.status.name
                        sts.append((nm, st_, selected_))
                        if not selected_:
                            ok = ok and st_ == "skipped"
                        elif list(sc_.all_steps):           # (a scenario without any step has nothing a dry run could look at)
                            ok = ok and st_ != "skipped"
                    mon.check("name.selects_matching", ok, lambda: W(patterns=pats, location_line=loc_line, dry_run=True, statuses=sts))
                    continue
                mon.case(("name", doc.text, tuple(pats)), 0 < len(want) < len(names_all))
                if obs.escaped is not None:
                    mon.check("name.selects_matching", False, lambda: W(patterns=pats, escaped=repr(obs.escaped)))
                    continue
                skipped_ok = all((s.status.name == "skipped") for s in feats[0].walk_scenarios() if s.name not in want)
                mon.check("name.selects_matching", entered == want and skipped_ok,
                          lambda: W(patterns=pats, location_line=loc_line, entered=entered, want=want, others_skipped=skipped_ok))
            # ---- a scenario that exists only after before_feature added its Examples row (table.add_row(), what
            #      behave.contrib.csv_table_from_file does), selected by its name: it runs, nothing else does
            from behave.model import ScenarioOutline as _SO, Rule as _Rule

            def outlines_of(c):
                out = []
                for it in c.run_items:
                    if isinstance(it, _Rule):
                        out.extend(outlines_of(it))
                    elif isinstance(it, _SO):
                        out.append(it)
                return out
            try:
                probe_f = parse_features([FileLocation(doc.fname)])[0]
                outs2 = outlines_of(probe_f)
                cands = [(k, ei) for k, o in enumerate(outs2) for ei, ex in enumerate(o.examples) if ex.table is not None and ex.table.rows]
                if cands:
                    k, ei = rng.choice(cands)
                    all_before = [x.name for x in probe_f.walk_scenarios()]
                    cells = list(outs2[k].examples[ei].table.rows[0].cells)
                    outs2[k].examples[ei].table.add_row(list(cells))
                    new = [x.name for x in outs2[k].scenarios if x.name not in all_before]
                    if len(new) == 1:
                        feats = parse_features([FileLocation(doc.fname)])
                        entered = []

                        def grow(state, context, name, elem, tag):
                            if name == "before_feature":
                                outlines_of(elem)[k].examples[ei].table.add_row(list(cells))
                            if name == "before_scenario":
                                entered.append(elem.name)
                        pat = "^%s$" % re.escape(new[0])
                        obs = lab.run({"features": [], "outcomes": {}}, args=["--name=%s" % pat], features=feats, hook_plugins=[grow])
                        mon.case(("name-of-added-row", doc.text, pat), True)
                        mon.seen("name_selection_shape", "row_added_in_before_feature")
                        mon.check("name.selects_matching", obs.escaped is None and entered == new,
                                  lambda: W(patterns=[pat], entered=entered, want=new, escaped=repr(obs.escaped),
                                            note="the Examples row was added by the before_feature hook"))
            except Exception as ex:
                mon.check("name.selects_matching", False, lambda: W(error=repr(ex), note="row added in before_feature"))
            if not doc.protected and doc.entity_lines:
                # a file:LINE run of a project whose environment.py uses the documented auto-retry recipe (in before_feature every
                # scenario / outline is patched with behave.contrib.scenario_autoretry): what runs is still what the line addresses
                from behave.contrib.scenario_autoretry import patch_scenario_with_autoretry
                from behave.model import ScenarioOutline
                line = rng.choice(doc.entity_lines)
                addressed = set(doc.expected(line)[1])
                feats2 = parse_features([FileLocation(doc.fname, line)])
                scs2 = list(feats2[0].walk_scenarios())
                if len(scs2) == len(doc.all_ids):
                    want2 = [id(sc_) for sc_, sid in zip(scs2, doc.all_ids) if sid in addressed]
                    entered2 = []

                    def rec2(state, context, name, elem, tag):
                        if name == "before_feature":
                            for x in elem.walk_scenarios(with_outlines=True):
                                if isinstance(x, ScenarioOutline) or not isinstance(getattr(x, "parent", None), ScenarioOutline):
                                    patch_scenario_with_autoretry(x, max_attempts=2)
                        if name == "before_scenario" and (not entered2 or entered2[-1] != id(elem)):
                            entered2.append(id(elem))
                    obs2 = lab.run({"features": [], "outcomes": {}}, args=[], features=feats2, hook_plugins=[rec2])
                    mon.case(("location+autoretry", doc.text, line), 0 < len(want2) < len(scs2))
                    others = [sc_.status.name for sc_, sid in zip(scs2, doc.all_ids) if sid not in addressed]
                    mon.check("line.selection_kept_under_the_autoretry_recipe", obs2.escaped is None and entered2 == want2 and all(o == "skipped" for o in others),
                              lambda: W(location_line=line, escaped=repr(obs2.escaped), entered=[sc_.name for sc_ in scs2 if id(sc_) in entered2],
                                        want=[sc_.name for sc_ in scs2 if id(sc_) in want2], statuses_of_the_others=others))
            if d == 0 and spec["shard"] == 0:
                mon.sample({"text": doc.text, "entity_lines": {str(k): v[0] for k, v in doc.entities.items()},
                            "example": {"line": doc.entity_lines[-1], "selects": doc.entities[doc.entity_lines[-1]][1]}})
            for dd in docs:
                os.remove(dd.fname)
    finally:
        os.chdir(cwd)
        shutil.rmtree(root, ignore_errors=True)


def replay(case, mon):
    print("location cases depend on files written at run time: re-run the check with the same seed")


LEVEL_TEXT = ("Exploration, exhaustive per document: every line number from 0 to beyond the end of every generated document is "
              "used as a location and the scenarios left unskipped by parse_features are compared with the entity map the "
              "renderer recorded while writing the text; multisets of locations, lists over several files (bare, :0 and "
              ":LINE mixed), list files with comments/blank lines/relative paths, FileLocationParser round trips, and name "
              "selection in real runs (entered scenarios == names matching the joined pattern, all others skipped).")
LEVEL_NOTE = "Trusted: the renderer's line map and the entity model in this module; steps have no definitions (selection only)."
TECHNIQUE = "runtime monitoring: exhaustive per-line differential oracle against the renderer's entity map + recorded runs for name selection"
