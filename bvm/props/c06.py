"""C06 -- Scenario Outline expansion: one scenario per row, exact placeholder substitution."""
from __future__ import annotations

import copy
import random

from ..gen.render import render_feature

ID = "C06"
LEVEL = "exploration"
COLS = ["x", "y", "col", "a.b", "n_1", "Ü", "row.id", "examples.index", "customer-id", "e-mail", "price/unit", "n°", "q?", "a+b"]     # a column may be named like a special placeholder: the row cell wins
VALUES = ["", "1", "v w", "x", "y", "col", "ünï", "日本", "a-b", "k=v", "0", "q.r", "Z", "  ".strip(), "it's", "50%", "{name}", "{0}",
          "b\\c", "a:b"]
TAGVALS = ["a", "b1", "x.y", "k=v", "t-1", "Z", "ü", "Bob\\tMarley", "two\\nlines"]     # the two-character escapes \t \n: in a
# TAG they become '_' (documented: Bob\tMarley -> @name.Bob_Marley); everywhere else the cell text is used as written


def tag_text(v):
    return v.replace("\\t", "_").replace("\\n", "_")
SCHEMAS = [None, u"{name} -- @{row.id} {examples.name}", u"{name} [{row.index}/{examples.index}]", u"{examples.name}:{row.id}:{name}",
           u"{name}", u"{row.id}", u"{name} -*- {examples.name}@{row.index} ({examples.index})", u"",
           # quotation marks are ordinary characters of a schema, at its ends too
           u"{name} -- @{row.id} \"{examples.name}\"", u"'{examples.name}' {name} #{row.index}"]
RULE = ("outlines with placeholders in name, step names, doc-strings, step-table headings and cells and tags; 0-3 examples "
        "blocks with different column orders, own tags and 0-3 rows (also none at all); cell values empty, unicode, equal "
        "to OTHER column names as plain text, containing format braces; name-annotation schemas over {name} {row.id} "
        "{row.index} {examples.name} {examples.index}; after the first expansion the examples tables are modified "
        "through the table API (add_row, add_column, remove_column) and the expansion must follow; a case = one outline "
        "(+ one modification history); non-trivial = >=2 rows and >=2 placeholder positions; distinct by hash of the "
        "rendered text + schema + history.")
ASSUMPTIONS = [
    "cell values contain no '<' or '>' (sequential replacement would then be order dependent -- outside the statement)",
    "values rendered INTO a tag through a placeholder come from the tag-safe alphabet (Tag.make_name normalises other characters "
    "by design); plain tags without placeholder may consist of any characters and are expected unchanged",
    "the reserved placeholders <row.id>, <row.index>, <examples.name>, <examples.index> are used in titles, tags and step texts, not inside doc-strings / step tables",
    "expectation = plain textual substitution per row (15 lines in this module, shares no code with behave)",
]
REQUIRED = {"expand.count_and_order": {"quick": 1500, "thorough": 100000}, "expand.row_scenario": {"quick": 3000, "thorough": 200000},
            "expand.template_unchanged": {"quick": 1500, "thorough": 100000}, "expand.rows_independent": {"quick": 800, "thorough": 50000},
            "modify.rebuilt": {"quick": 800, "thorough": 50000}, "builder.count": {"quick": 1500, "thorough": 100000}}
REQUIRED_SEEN = {"entry_point": ["parse_scenario", "parse_feature", "model_visitor_with_modifying_callback"], "row_value_class": ["all_cells_dashes"], "placeholder_layout": ["same_placeholder_adjacent_in_a_doc_string"], "modification_history": ["remove_column_then_add_column"], "added_column": ["one_the_template_refers_to"], "special_placeholder_in": ["step_text"], "first_access_to_the_expansion": ["attribute", "iteration"], "background_steps_shape": ["mixed", "all_with_placeholder", "none_with_placeholder", "placeholder_step_with_doc_string"], "outline_place": ["in_rule", "in_feature"], "examples_shape": ["section_without_table_before_rows"], "tag_placeholder_column": ["name_with_punctuation"], "schema": 9, "schema_given_by": ["configuration_parameter", "outline_attribute"], "modification": ["add_row", "add_row_object", "add_column", "remove_column"]}
NSHARDS = {"quick": 16, "thorough": 16}


def plan(tier, seed):
    n = NSHARDS[tier]
    return [{"shard": i, "of": n, "seed": seed * 1000 + i} for i in range(n)]


def classify(name, w):
    return name


# ---------------------------------------------------------------------------
def gen_outline(rng):
    ncols = rng.randint(1, 3)
    cols = rng.sample(COLS, ncols)
    tagcol = rng.choice(cols)

    def ph(p=0.6):
        return "<%s>" % rng.choice(cols) if rng.random() < p else rng.choice(["plain", "lt<only", "gt>only", "<unknown col>", "x", "y"])

    def text(k):
        parts = []
        for _ in range(rng.randint(1, k)):
            parts.append(ph())
            parts.append(rng.choice(["and", "is", "ünï", "col", ":", "-"]))
        return " ".join(parts).strip()
    steps = []
    adjacent = [False]
    special_in_step = [False]
    for i in range(rng.randint(1, 3)):
        st = {"kw": rng.choice(["Given", "When", "Then", "*"]) if i == 0 else rng.choice(["Given", "When", "Then", "And", "But", "*"]),
              "text": "s%d %s" % (i, text(3))}
        if rng.random() < 0.2:
            # the documented special placeholders in a step's TEXT (rendered there like in titles and tags; not in doc-strings / tables)
            st["text"] += " " + rng.choice(["row <row.index>", "id <row.id>", "block <examples.index>", "of <examples.name>", "<row.index>/<examples.index>"])
            special_in_step[0] = True
        r = rng.random()
        if r < 0.3:
            st["doc"] = "\n".join(text(3) for _ in range(rng.randint(1, 3)))
            if rng.random() < 0.35:
                # the same placeholder twice with nothing in between (a padding idiom: <pad><pad>), also three times
                c_ = rng.choice(cols)
                st["doc"] += "\n" + rng.choice(["<%s><%s>", "x<%s><%s><%s>y", "<%s><%s> tail"]).replace("%s", c_)
                adjacent[0] = True
            st["doc_quote"] = rng.choice(['"""', "'''"])
        elif r < 0.6:
            nc = rng.randint(1, 3)
            st["table"] = {"header": ["h%d %s" % (j, ph(0.4)) for j in range(nc)],
                           "rows": [[text(2) for _ in range(nc)] for _ in range(rng.randint(0, 2))]}
        steps.append(st)
    tags = []
    for _ in range(rng.randint(0, 3)):
        tags.append(rng.choice(["plain", "t.<%s>" % tagcol, "<%s>" % tagcol, "w-<%s>-z" % tagcol, "k=v",
                                "r<row.index>", "x<examples.index>", "id.<row.id>",
                                # plain tags are taken over as written, whatever characters they are made of
                                "bug#42", "c#", "50%", "it's", "a/b", "q?", "x+y"]))
    examples = []
    dash_row = [False]
    for ei in range(rng.randint(0, 3)):
        order = cols[:]
        rng.shuffle(order)
        rows = []
        for _ in range(rng.randint(0, 3)):
            row = []
            for c in order:
                # columns that can end up inside a tag (the tag column, and columns named like the special placeholders that the
                # outline tags use) hold tag-safe values
                row.append(rng.choice(TAGVALS) if (c == tagcol or c in ("row.id", "examples.index")) else rng.choice(VALUES + cols))
            rows.append(row)
        if rows and rng.random() < 0.15:
            # a "not applicable" row: every cell a dash or a run of dashes (looks like a Markdown ruler; in Gherkin a row like any other)
            rows[rng.randrange(len(rows))] = [rng.choice(["-", "--", "---", ":-:", "--:"]) for _ in order]
            dash_row[0] = True
        if len(order) >= 2 and rng.random() < 0.12:
            # a column heading that occurs twice (legal; the cell of the FIRST column with that heading fills the placeholder)
            j = rng.randrange(1, len(order))
            dup_of = rng.choice(order[:j])
            if order[j] != tagcol and dup_of != tagcol and order[j] not in ("row.id", "examples.index") and dup_of not in ("row.id", "examples.index"):
                order = order[:j] + [dup_of] + order[j + 1:]
        if rng.random() < 0.12:
            # an Examples section without any table (legal; it has no rows but it still is the ei-th section)
            order, rows = None, []
        examples.append({"tags": [rng.choice(["e1", "e2", "slow", "k=v"]) for _ in range(rng.randint(0, 2))],
                         "name": rng.choice(["", "E%d" % ei, "E <%s>" % rng.choice(cols), "Block %d" % ei,
                                             # a section title is everything behind "Examples:" -- colons included
                                             "Weekdays 08:00 - 18:30", "Ratio 1:2: weekend %d" % ei, "Trailing colon:"]),
                         "header": order, "rows": rows})
    outline = {"kind": "outline", "adjacent_placeholders": adjacent[0], "dash_row": dash_row[0], "special_in_step": special_in_step[0], "tags": tags, "name": "O " + text(2), "desc": ["%% description <%s>" % cols[0]] if rng.random() < 0.3 else [],
               "steps": steps, "examples": examples}
    before = [{"kind": "scenario", "tags": [], "name": "before", "desc": [], "steps": [{"kw": "Given", "text": "a step"}]}] if rng.random() < 0.5 else []
    background = None
    if rng.random() < 0.35:
        # a Background in front of the outline whose steps use the examples columns -- all of them, some of them, or none
        bsteps = []
        for j in range(rng.randint(1, 3)):
            with_ph = rng.random() < 0.5
            bsteps.append({"kw": "Given" if j == 0 else rng.choice(["And", "Given", "*"]),
                           "text": "bg%d %s" % (j, ("uses <%s> here" % rng.choice(cols)) if with_ph else "plain text")})
            if rng.random() < 0.35:
                # a background step may carry an argument of its own (here: plain prose without placeholders) -- whether or not
                # its text uses a column
                bsteps[-1]["doc"] = "\n".join(rng.choice(["plain prose", "  indented line", "a < b", "x > y"]) for _ in range(rng.randint(1, 2)))
                bsteps[-1]["doc_quote"] = rng.choice(['"""', "'''"])
        background = {"kind": "background", "name": "", "desc": [], "steps": bsteps}
    if rng.random() < 0.3:
        # the outline inside a Rule (the feature-level flat scenario list still holds one scenario per row)
        rule = {"kind": "rule", "tags": [], "name": "R", "desc": [], "background": None, "items": [outline]}
        feature = {"kind": "feature", "tags": ["f"], "name": "F", "desc": [], "background": background, "items": before + [rule]}
    else:
        feature = {"kind": "feature", "tags": ["f"], "name": "F", "desc": [], "background": background, "items": before + [outline]}
    return feature, len(before)


def subst(text, header, row):
    for h, v in zip(header, row):
        text = text.replace("<%s>" % h, v)
    return text


def expected_rows(outline, schema, row_lines):
    """[(name, tags, steps[(keyword, name, doc, table)], line)] by plain textual substitution."""
    if schema is None:          # (the empty schema is a schema: every row is then called "")
        schema = u"{name} -- @{row.id} {examples.name}"
    out = []
    for ei, ex in enumerate(outline["examples"]):
        for ri, row in enumerate(ex["rows"]):
            h = ex["header"]
            rid = "%d.%d" % (ei + 1, ri + 1)
            special = [("examples.index", str(ei + 1)), ("row.index", str(ri + 1)), ("row.id", rid)]

            def sub2(text, with_examples_name=None):
                # row cells first (a column named like a special placeholder wins), then the documented special placeholders
                text = subst(text, h, row)
                if with_examples_name is not None:
                    text = text.replace("<examples.name>", with_examples_name)
                for k, v in special:
                    text = text.replace("<%s>" % k, v)
                return text
            ex_name = sub2(ex["name"], ex["name"] or "")
            name = sub2(outline["name"], ex_name)
            full = schema.replace("{name}", "\x00N").replace("{row.id}", rid).replace("{row.index}", str(ri + 1)) \
                .replace("{examples.name}", "\x00E").replace("{examples.index}", str(ei + 1)).replace("\x00N", name).replace("\x00E", ex_name)
            tags = []
            for t in outline["tags"]:
                tags.append(tag_text(sub2(t, ex_name)))
            tags.extend(ex["tags"])
            steps = []
            for st in outline["steps"]:
                doc = sub2(st["doc"], ex_name) if st.get("doc") is not None else None
                tab = None
                if st.get("table") is not None:
                    tab = ([sub2(c, ex_name) for c in st["table"]["header"]],
                           [[sub2(c, ex_name) for c in r] for r in st["table"]["rows"]])
                steps.append((st["kw"], sub2(st["text"], ex_name), doc, tab))
            out.append((full, tags, steps, row_lines.get((ei, ri))))
    return out


def observed_rows(scenarios):
    out = []
    for s in scenarios:
        steps = []
        for st in s.steps:
            tab = None if st.table is None else (list(st.table.headings), [list(r.cells) for r in st.table.rows])
            steps.append((st.keyword, st.name, None if st.text is None else str(st.text), tab))
        out.append((s.name, [str(t) for t in s.tags], steps, s.line))
    return out


def snapshot_template(o):
    return (o.name, [str(t) for t in o.tags], list(o.description),
            [(s.keyword, s.name, None if s.text is None else str(s.text),
              None if s.table is None else (list(s.table.headings), [list(r.cells) for r in s.table.rows])) for s in o.steps],
            [(e.name, [str(t) for t in e.tags], None if e.table is None else (list(e.table.headings), [list(r.cells) for r in e.table.rows]))
             for e in o.examples])


def install_builder_wrapper(mon):
    from behave import model
    if getattr(model.ScenarioOutlineBuilder.build_scenarios, "_bvm", False):
        return
    orig = model.ScenarioOutlineBuilder.build_scenarios

    def build_scenarios(self, scenario_outline):
        result = orig(self, scenario_outline)
        want = sum(len(e.table.rows) for e in scenario_outline.examples if e.table is not None)
        mon.check("builder.count", len(result) == want, lambda: dict(outline=scenario_outline.name, built=len(result), rows=want))
        return result
    build_scenarios._bvm = True
    model.ScenarioOutlineBuilder.build_scenarios = build_scenarios


def one_case(mon, rng, sample=False):
    from behave.parser import parse_feature
    feature, idx = gen_outline(rng)
    outline_abs = feature["items"][idx]
    in_rule = outline_abs["kind"] == "rule"
    if in_rule:
        outline_abs = outline_abs["items"][0]
    layout = rng.random() < 0.5
    text, lines = render_feature(feature, rng, layout)
    schema = rng.choice(SCHEMAS)
    f = parse_feature(text, filename="o.feature")
    o = f.run_items[idx].run_items[0] if in_rule else f.run_items[idx]
    via_fragment = False
    if not in_rule and idx == 0 and feature.get("background") is None and rng.random() < 0.3:
        # the less used public entry point: the outline alone through behave.parser.parse_scenario(text)
        from behave.parser import parse_scenario
        from ..gen.render import render_fragment
        text, lines_f = render_fragment("scenario", outline_abs)
        try:
            o = parse_scenario(text)
        except Exception as ex:
            mon.check("expand.count_and_order", False, lambda: dict(case={"text": text, "entry": "parse_scenario"}, error=repr(ex)))
            return
        via_fragment = True
        lines = {("item", idx) + k: v for k, v in lines_f.items()}
        mon.seen("entry_point", "parse_scenario")
    else:
        mon.seen("entry_point", "parse_feature")
    if schema is not None:
        if schema and rng.random() < 0.35:
            # the documented way for a whole project: the configuration parameter (config file entry / Configuration keyword), which
            # behave installs as the schema of ALL outlines
            from behave.configuration import Configuration
            from behave.model import ScenarioOutline
            from behave.tag_expression import TagExpressionProtocol as TEP
            saved = ScenarioOutline.annotation_schema
            try:
                Configuration([], load_config=False, scenario_outline_annotation_schema=schema)
                installed = ScenarioOutline.annotation_schema
            except Exception as ex:
                installed = repr(ex)
            finally:
                ScenarioOutline.annotation_schema = saved
                TEP.use(TEP.DEFAULT)
            mon.seen("schema_given_by", "configuration_parameter")
            mon.check("schema.configuration_parameter_installs_the_schema_as_given", installed == schema,
                      lambda: dict(schema=schema, installed=installed))
            if installed != schema:
                return
        else:
            mon.seen("schema_given_by", "outline_attribute")
        o.annotation_schema = schema
    key = ("item", idx, "item", 0) if in_rule else ("item", idx)
    mon.seen("outline_place", "in_rule" if in_rule else "in_feature")
    row_lines = {}
    for ei, ex in enumerate(outline_abs["examples"]):
        for ri in range(len(ex["rows"])):
            row_lines[(ei, ri)] = lines.get(key + ("examples", ei, "table", "row", ri + 1))
    nrows = sum(len(e["rows"]) for e in outline_abs["examples"])
    exs = outline_abs["examples"]
    if any(e["header"] is None and any(x["rows"] for x in exs[j + 1:]) for j, e in enumerate(exs)):
        mon.seen("examples_shape", "section_without_table_before_rows")
    if any(c in outline_abs and False for c in ()):
        pass
    if any(("<%s>" % c) in t for t in outline_abs["tags"] for c in ("customer-id", "e-mail", "price/unit", "n°", "q?", "a+b")):
        mon.seen("tag_placeholder_column", "name_with_punctuation")
    if outline_abs.get("dash_row"):
        mon.seen("row_value_class", "all_cells_dashes")
    if outline_abs.get("adjacent_placeholders"):
        mon.seen("placeholder_layout", "same_placeholder_adjacent_in_a_doc_string")
    if outline_abs.get("special_in_step"):
        mon.seen("special_placeholder_in", "step_text")
    nph = sum(1 for st in outline_abs["steps"] if "<" in st["text"]) + sum(1 for t in outline_abs["tags"] if "<" in t)
    case = {"text": text, "schema": schema}
    mon.case((text, schema), nrows >= 2 and nph >= 2)
    mon.seen("schema", str(schema))
    W = lambda **kw: dict(case=case, **kw)
    before = snapshot_template(o)
    # the expansion is reached through the attribute or -- an outline is iterable, "for scenario in outline" -- by iteration;
    # whichever comes FIRST builds it
    first_access = rng.choice(["attribute", "attribute", "iteration"])
    mon.seen("first_access_to_the_expansion", first_access)
    case["first_access"] = first_access
    try:
        scen = o.scenarios if first_access == "attribute" else list(iter(o))
    except Exception as ex:
        mon.check("expand.count_and_order", False, lambda: W(error=repr(ex)))
        return
    want = expected_rows(outline_abs, schema, row_lines)
    got = observed_rows(scen)
    mon.check("expand.count_and_order", [g[0] for g in got] == [w[0] for w in want],
              lambda: W(got_names=[g[0] for g in got], want_names=[w[0] for w in want]))
    for g, w in zip(got, want):
        diffs = []
        if g[0] != w[0]:
            diffs.append(("name", g[0], w[0]))
        if g[1] != w[1]:
            diffs.append(("tags", g[1], w[1]))
        if g[2] != w[2]:
            diffs.append(("steps", g[2], w[2]))
        if g[3] != w[3]:
            diffs.append(("line", g[3], w[3]))
        mon.check("expand.row_scenario", not diffs, lambda: W(row=w[0], differences=diffs[:3]))
    bg_abs = feature.get("background")
    if bg_abs is not None:
        shapes = set("<" in st["text"] for st in bg_abs["steps"])
        mon.seen("background_steps_shape", "mixed" if len(shapes) == 2 else ("all_with_placeholder" if True in shapes else "none_with_placeholder"))
        for si, srow in enumerate(scen):
            # (row order == order of 'want'; the cells of that row)
            ei_ri = [(ei, ri) for ei, ex in enumerate(outline_abs["examples"]) for ri in range(len(ex["rows"]))]
            if si >= len(ei_ri):
                break
            ei, ri = ei_ri[si]
            ex = outline_abs["examples"][ei]
            want_bg = [subst(st["text"], ex["header"], ex["rows"][ri]) for st in bg_abs["steps"]]
            got_bg = [x.name for x in (srow.background_steps or [])]
            mon.check("expand.background_steps_of_the_row", got_bg == want_bg,
                      lambda: W(row=srow.name, got=got_bg, want=want_bg))
            want_doc = [st.get("doc") for st in bg_abs["steps"]]
            got_doc = [None if x.text is None else str(x.text) for x in (srow.background_steps or [])]
            mon.check("expand.background_steps_of_the_row", got_doc == want_doc, lambda: W(row=srow.name, got_doc_strings=got_doc, want_doc_strings=want_doc))
            if any(d is not None and "<" in st["text"] for d, st in zip(want_doc, bg_abs["steps"])):
                mon.seen("background_steps_shape", "placeholder_step_with_doc_string")
    # the flat lists of the feature: the scenarios in front of the outline, then one scenario per row (the outline itself
    # only on request)
    flat = [x.name for x in f.walk_scenarios()] if not via_fragment else [w[0] for w in want]
    flat_o = [x for x in f.walk_scenarios(with_outlines=True)] if not via_fragment else [o]
    n_before = idx
    mon.check("expand.flat_scenario_list_of_the_feature", via_fragment or flat[n_before:] == [w[0] for w in want] and len(flat) == n_before + len(want)
              and [x for x in flat_o if x is o] == [o] and [x.name for x in f.iter_scenarios()] == flat,
              lambda: W(outline_in_rule=in_rule, flat=flat, want=[w[0] for w in want]))
    for s in scen:
        mon.check("expand.row_links", s.parent is o and (via_fragment or s.feature is f) and s.keyword == o.keyword and list(s.description) == list(o.description),
                  lambda: W(row=s.name, parent=repr(s.parent)))
    mon.check("expand.template_unchanged", snapshot_template(o) == before, lambda: W(before=before, after=snapshot_template(o)))
    mon.check("expand.stable", o.scenarios is scen or observed_rows(o.scenarios) == got, lambda: W(note="second access differs"))
    # ---- rows never influence each other or the template: mutate one expansion -------------------------
    if len(scen) >= 1:
        ids = set()
        shared = False
        for s in scen:
            for st in s.steps:
                if id(st) in ids or any(st is t for t in o.steps):
                    shared = True
                ids.add(id(st))
                if st.table is not None and any(st.table is t.table for t in o.steps if t.table is not None):
                    shared = True
        victim = scen[0]
        for st in victim.steps:
            st.name = "MUTATED"
            if st.table is not None:
                st.table.headings[:] = ["MUTATED"] * len(st.table.headings)
                for r in st.table.rows:
                    r.cells[:] = ["MUTATED"] * len(r.cells)
        after_others = observed_rows(scen[1:])
        mon.check("expand.rows_independent", not shared and after_others == got[1:] and snapshot_template(o) == before,
                  lambda: W(shared_objects=shared, others_changed=after_others != got[1:], template_changed=snapshot_template(o) != before))
    # ---- modification through the table API -------------------------------------------------------------
    mods = []
    abs2 = copy.deepcopy(outline_abs)
    tables = [(ei, e) for ei, e in enumerate(o.examples) if e.table is not None]
    if tables:
        for _ in range(rng.randint(1, 3)):
            ei, e = rng.choice(tables)
            ea = abs2["examples"][ei]
            kind = rng.choice(["add_row", "add_column", "remove_column"])
            if mods and mods[-1] == "remove_column" and rng.random() < 0.6:
                # (histories: a column goes, another one comes -- on the same table)
                kind, (ei, e) = "add_column", last_table
                ea = abs2["examples"][ei]
                mon.seen("modification_history", "remove_column_then_add_column")
            last_table = (ei, e)
            try:
                if kind == "add_row":
                    cells = [rng.choice(TAGVALS) for _ in ea["header"]]
                    if rng.random() < 0.5:
                        e.table.add_row(list(cells))
                    else:
                        # add_row() also accepts a ready-made Row object (e.g. taken from another table)
                        from behave.model import Row
                        e.table.add_row(Row(list(e.table.headings), list(cells), line=None))
                        mon.seen("modification", "add_row_object")
                    ea["rows"].append(list(cells))
                elif kind == "add_column":
                    name = "new%d" % len(mods)
                    if "<unknown col>" in repr(outline_abs["steps"]) + outline_abs["name"] and "unknown col" not in ea["header"] and rng.random() < 0.7:
                        # the template refers to a column that only exists from now on: its cells fill the placeholder in every row
                        name = "unknown col"
                        mon.seen("added_column", "one_the_template_refers_to")
                    vals = [rng.choice(VALUES) for _ in ea["rows"]]
                    e.table.add_column(name, values=list(vals))
                    ea["header"] = ea["header"] + [name]
                    ea["rows"] = [r + [v] for r, v in zip(ea["rows"], vals)]
                else:
                    if len(ea["header"]) < 2:
                        continue
                    name = rng.choice(ea["header"])
                    if any("<%s>" % name in t for t in outline_abs["tags"]):
                        continue    # a tag with an unknown placeholder is dropped by design -- not part of the statement
                    if name in ("row.id", "examples.index"):
                        continue    # without the column the SPECIAL placeholder of that name takes over, which behave renders in names,
                        #             step names and tags but not in doc-strings / step tables: outside the statement (column placeholders)
                    j = ea["header"].index(name)
                    e.table.remove_column(name)
                    ea["header"] = ea["header"][:j] + ea["header"][j + 1:]
                    ea["rows"] = [r[:j] + r[j + 1:] for r in ea["rows"]]
            except Exception as ex:
                # a legal call of the table API on a well-formed table that raises: the outline cannot follow its table
                mon.check("modify.rebuilt", False, lambda: W(modifications=mods + [kind], error=repr(ex), stage="table API call"))
                break
            mods.append(kind)
            mon.seen("modification", kind)
        schema2 = schema
        if mods and rng.random() < 0.3:
            # the annotation schema is changed after the first expansion (a hook configuring it late): the rebuild that the
            # table modification triggers uses the schema in force at that time
            schema2 = rng.choice([x for x in SCHEMAS if x is not None and x != schema])
            o.annotation_schema = schema2
            mon.seen("schema_changed_between_expansions", "yes")
        if mods:
            mon.case((text, schema, schema2, tuple(mods)), True)
            try:
                scen2 = o.scenarios if first_access == "attribute" else list(iter(o))
                got2 = observed_rows(scen2)
                lines2 = {}
                for ei, e in enumerate(o.examples):
                    if e.table is not None:
                        for ri, r in enumerate(e.table.rows):
                            lines2[(ei, ri)] = r.line
                want2 = expected_rows(abs2, schema2, lines2)
                fd = next((i for i, (a, b) in enumerate(zip(got2, want2)) if a != b), None)
                mon.check("modify.rebuilt", got2 == want2,
                          lambda: W(modifications=mods, got=[g[:2] for g in got2][:6], want=[w[:2] for w in want2][:6],
                                    first_difference=fd, got_row=got2[fd] if fd is not None else None,
                                    want_row=want2[fd] if fd is not None else None))
            except Exception as ex:
                mon.check("modify.rebuilt", False, lambda: W(modifications=mods, error=repr(ex)))
    # ---- a tree walk with behave.model_visitor.ModelVisitor whose on_scenario_outline() callback extends an Examples table:
    #      the scenarios visited below that outline are the rows of the table as it is THEN
    if not via_fragment and rng.random() < 0.35:
        from behave.model_visitor import ModelVisitor, IModelVisitor
        f3 = parse_feature(text, filename="o.feature")
        o3 = f3.run_items[idx].run_items[0] if in_rule else f3.run_items[idx]
        if schema is not None:
            o3.annotation_schema = schema
        with_rows = [ei for ei, e in enumerate(o3.examples) if e.table is not None and e.table.rows]
        if with_rows:
            ei3 = rng.choice(with_rows)
            abs3 = copy.deepcopy(outline_abs)
            cells3 = list(abs3["examples"][ei3]["rows"][0])
            abs3["examples"][ei3]["rows"].append(list(cells3))
            visited = []

            class Walker(IModelVisitor):
                def on_scenario_outline(self, outline):
                    if outline is o3:
                        outline.examples[ei3].table.add_row(list(cells3))

                def on_scenario(self, scenario):
                    if scenario.parent is o3:
                        visited.append(scenario)
            try:
                ModelVisitor(Walker())(f3)
                got3 = [g[:3] for g in observed_rows(visited)]
                want3 = [w[:3] for w in expected_rows(abs3, schema, {})]
                mon.seen("entry_point", "model_visitor_with_modifying_callback")
                mon.check("modify.rebuilt", got3 == want3,
                          lambda: W(entry="ModelVisitor; on_scenario_outline() added a row", got=[g[0] for g in got3], want=[w[0] for w in want3]))
            except Exception as ex:
                mon.check("modify.rebuilt", False, lambda: W(entry="ModelVisitor", error=repr(ex)))
    if sample:
        mon.sample({"text": text, "schema": schema, "expected_scenarios": [w[0] for w in want], "expected_tags": [w[1] for w in want]})


def run(spec, mon):
    install_builder_wrapper(mon)
    tier = spec.get("tier", "quick")
    rng = random.Random(spec["seed"])
    n = 130 if tier == "quick" else 7000
    for i in range(n):
        one_case(mon, rng, sample=(i == 3 and spec["shard"] == 0))


def replay(case, mon):
    from behave.parser import parse_feature
    f = parse_feature(case["text"])
    for it in f.run_items:
        if hasattr(it, "examples"):
            if case.get("schema"):
                it.annotation_schema = case["schema"]
            for s in (list(iter(it)) if case.get("first_access") == "iteration" else it.scenarios):
                print(repr(s.name), [str(t) for t in s.tags], [(x.keyword, x.name) for x in s.steps], s.line)


LEVEL_TEXT = ("Exploration: random outlines (placeholders everywhere, several examples blocks with permuted columns, empty and "
              "unicode cells, values equal to other column names, all annotation schemas) are rendered, parsed and expanded "
              "by the real code; the generated scenarios are compared with a plain per-row textual substitution (names, tags, "
              "steps, doc-strings, table headings/cells, line of the row, order, links), the template is snapshotted before "
              "and after, one expansion is mutated to show that rows and template share nothing, and after add_row / "
              "add_column / remove_column on the examples tables the next expansion must equal the expectation for the "
              "modified table. A wrapper on build_scenarios checks len(result) == number of rows on every call.")
LEVEL_NOTE = "Trusted: the substitution model in this module; value alphabets without '<' '>'; tag-safe tag values."
TECHNIQUE = "runtime monitoring: differential oracle (independent substitution model) + snapshot/mutation invariants + table-API histories"
