"""C04 -- Gherkin parsing is faithful: structure, text, tags, step types and line numbers."""
from __future__ import annotations

import os
import random
import tempfile

from ..gen.docgen import DocGen, expected_step_types, STEP_TYPES
from ..gen.render import render_feature, render_fragment

ID = "C04"
LEVEL = "exploration"
RULE = ("documents rendered from random abstract feature trees (0..2 rules, backgrounds at both levels, title-only "
        "scenarios, step-less backgrounds, outlines with 0..3 tagged examples tables incl. table-less ones, doc-strings "
        "of both quote styles, tables with escaped pipes and empty cells, multi-line tag lines with trailing comments, "
        "descriptions, unicode) with random indentation, blank and comment lines; every language of the keyword table "
        "and EVERY alias of every keyword is used in at least one document (alias pass), via parse_feature(language=) "
        "and via parse_file with a '# language:' header; fragments go through parse_steps, parse_scenario, parse_rule "
        "and parse_tags. A case = one document (or fragment); non-trivial = at least 3 elements with line numbers "
        "and one step argument or tag; distinct by hash of the rendered text.")
ASSUMPTIONS = [
    "the renderer never emits an ambiguous line (description lines start with a neutral prefix; cells without leading/"
    "trailing blanks or trailing backslash; doc-string lines without trailing blanks; no characters that str.splitlines() splits on)",
    "expected step keyword/type/name are those of the alias that was WRITTEN (longest match)",
    "'* ' is type-less: it inherits the previous step's type (given when there is none)",
    "under BEHAVE_STRIP_STEPS_WITH_TRAILING_COLON=yes a step has ONE argument section (a doc-string followed by a table behind the same "
    "step loses one colon per section; the documents say 'the trailing colon' and nothing about that shape, so it is not generated there)",
]
REQUIRED = {"parse.faithful": {"quick": 1200, "thorough": 80000}, "option.strip_trailing_colon": {"quick": 250, "thorough": 15000}, "option.strip_trailing_colon_process": 5, "alias.recognised": {"quick": 1700, "thorough": 1700},
            "parse_file.language_header": {"quick": 80, "thorough": 2000}, "fragment.steps": {"quick": 300, "thorough": 15000},
            "fragment.scenario": {"quick": 300, "thorough": 15000}, "fragment.rule": {"quick": 100, "thorough": 5000},
            "fragment.tags": {"quick": 300, "thorough": 15000}}
REQUIRED_SEEN = {"strip_trailing_colon": ["single", "double"], "language": 80, "file_form": ["lf", "crlf", "bom", "bom+crlf", "cr", "big"]}
EXHAUSTIVE = True
EXHAUSTIVE_SCOPE = "all 80 languages x every alias of every keyword (one document each); layouts and trees are sampled"
NSHARDS = {"quick": 16, "thorough": 16}


def plan(tier, seed):
    n = NSHARDS[tier]
    return [{"shard": i, "of": n, "seed": seed * 1000 + i} for i in range(n)]


def classify(name, w):
    return name


# ---------------------------------------------------------------------------
def cmp_steps(diffs, steps_abs, steps_model, lines, key, where):
    if len(steps_abs) != len(steps_model):
        diffs.append("%s: %d steps, parsed %d" % (where, len(steps_abs), len(steps_model)))
        return
    for i, (a, m) in enumerate(zip(steps_abs, steps_model)):
        w = "%s step %d" % (where, i)
        k = key + ("step", i)
        if m.keyword != a["kw"]:
            diffs.append("%s keyword %r != %r" % (w, m.keyword, a["kw"]))
        if m.name != a["text"]:
            diffs.append("%s name %r != %r" % (w, m.name, a["text"]))
        if "exp_type" in a and m.step_type != a["exp_type"]:
            diffs.append("%s step_type %r != %r (alias %r)" % (w, m.step_type, a["exp_type"], a["alias"]))
        if lines is not None and m.line != lines.get(k):
            diffs.append("%s line %r != %r" % (w, m.line, lines.get(k)))
        if a.get("doc") is not None:
            if m.text is None or str(m.text) != a["doc"]:
                diffs.append("%s doc-string %r != %r" % (w, None if m.text is None else str(m.text), a["doc"]))
            elif lines is not None and m.text.line != lines.get(k + ("doc",)):
                diffs.append("%s doc-string line %r != %r" % (w, m.text.line, lines.get(k + ("doc",))))
        elif m.text is not None:
            diffs.append("%s unexpected doc-string %r" % (w, str(m.text)))
        if a.get("table") is not None:
            cmp_table(diffs, a["table"], m.table, lines, k + ("table",), w)
        elif m.table is not None:
            diffs.append("%s unexpected table" % w)


def cmp_table(diffs, tab, mt, lines, key, where):
    if mt is None:
        diffs.append("%s table missing" % where)
        return
    if list(mt.headings) != tab["header"]:
        diffs.append("%s headings %r != %r" % (where, list(mt.headings), tab["header"]))
    got = [list(r.cells) for r in mt.rows]
    if got != tab["rows"]:
        diffs.append("%s rows %r != %r" % (where, got, tab["rows"]))
    if lines is not None:
        if mt.line != lines.get(key + ("row", 0)):
            diffs.append("%s table line %r != %r" % (where, mt.line, lines.get(key + ("row", 0))))
        for i, r in enumerate(mt.rows):
            if r.line != lines.get(key + ("row", i + 1)):
                diffs.append("%s row %d line %r != %r" % (where, i, r.line, lines.get(key + ("row", i + 1))))


def cmp_tags(diffs, tags_abs, tags_model, lines, key, where):
    if [str(t) for t in tags_model] != list(tags_abs):
        diffs.append("%s tags %r != %r" % (where, [str(t) for t in tags_model], tags_abs))
        return
    if lines is not None:
        for i, t in enumerate(tags_model):
            if getattr(t, "line", None) != lines.get(key + ("tag", i)):
                diffs.append("%s tag %d line %r != %r" % (where, i, getattr(t, "line", None), lines.get(key + ("tag", i))))


def cmp_scenario(diffs, a, m, lines, key, where):
    from behave.model import ScenarioOutline
    if (a["kind"] == "outline") != isinstance(m, ScenarioOutline):
        diffs.append("%s kind %s parsed as %s" % (where, a["kind"], type(m).__name__))
        return
    if m.keyword != a["kw"] or m.name != a["name"]:
        diffs.append("%s keyword/name %r/%r != %r/%r" % (where, m.keyword, m.name, a["kw"], a["name"]))
    if lines is not None and m.line != lines.get(key):
        diffs.append("%s line %r != %r" % (where, m.line, lines.get(key)))
    cmp_tags(diffs, a["tags"], m.tags, lines, key, where)
    if list(m.description) != list(a.get("desc") or []):
        diffs.append("%s description %r != %r" % (where, list(m.description), a.get("desc")))
    cmp_steps(diffs, a["steps"], m.steps, lines, key, where)
    if a["kind"] == "outline":
        if len(m.examples) != len(a["examples"]):
            diffs.append("%s %d examples blocks, parsed %d" % (where, len(a["examples"]), len(m.examples)))
            return
        for ei, (ea, em) in enumerate(zip(a["examples"], m.examples)):
            w = "%s examples %d" % (where, ei)
            ek = key + ("examples", ei)
            if em.keyword != ea["kw"] or em.name != ea.get("name", ""):
                diffs.append("%s keyword/name %r/%r != %r/%r" % (w, em.keyword, em.name, ea["kw"], ea.get("name", "")))
            if lines is not None and em.line != lines.get(ek):
                diffs.append("%s line %r != %r" % (w, em.line, lines.get(ek)))
            cmp_tags(diffs, ea["tags"], em.tags, lines, ek, w)
            if ea.get("header") is None:
                if em.table is not None:
                    diffs.append("%s unexpected table" % w)
            else:
                cmp_table(diffs, {"header": ea["header"], "rows": ea["rows"]}, em.table, lines, ek + ("table",), w)


def cmp_background(diffs, a, m, lines, key, where):
    if a is None:
        if m is not None and (m.steps or m.name or getattr(m, "keyword", None) != u"Background" and False):
            if m.steps:
                diffs.append("%s unexpected background with steps" % where)
        return
    if m is None:
        diffs.append("%s background missing" % where)
        return
    if m.keyword != a["kw"] or m.name != a["name"]:
        diffs.append("%s background keyword/name %r/%r != %r/%r" % (where, m.keyword, m.name, a["kw"], a["name"]))
    if lines is not None and m.line != lines.get(key):
        diffs.append("%s background line %r != %r" % (where, m.line, lines.get(key)))
    if list(m.description) != list(a.get("desc") or []):
        diffs.append("%s background description %r != %r" % (where, list(m.description), a.get("desc")))
    cmp_steps(diffs, a["steps"], m.steps, lines, key, where + " background")


def cmp_container(diffs, a, m, lines, key, where):
    from behave.model import Rule
    cmp_background(diffs, a.get("background"), m.background, lines, key + ("background",), where)
    if len(m.run_items) != len(a["items"]):
        diffs.append("%s %d items, parsed %d (%s)" % (where, len(a["items"]), len(m.run_items), [getattr(x, "name", "?") for x in m.run_items]))
        return
    for i, (ia, im) in enumerate(zip(a["items"], m.run_items)):
        k = key + ("item", i)
        w = "%s item %d" % (where, i)
        if ia["kind"] == "rule":
            if not isinstance(im, Rule):
                diffs.append("%s rule parsed as %s" % (w, type(im).__name__))
                continue
            if im.keyword != ia["kw"] or im.name != ia["name"]:
                diffs.append("%s keyword/name %r/%r != %r/%r" % (w, im.keyword, im.name, ia["kw"], ia["name"]))
            if lines is not None and im.line != lines.get(k):
                diffs.append("%s line %r != %r" % (w, im.line, lines.get(k)))
            cmp_tags(diffs, ia["tags"], im.tags, lines, k, w)
            if list(im.description) != list(ia.get("desc") or []):
                diffs.append("%s description %r != %r" % (w, list(im.description), ia.get("desc")))
            cmp_container(diffs, ia, im, lines, k, w)
        else:
            if isinstance(im, Rule):
                diffs.append("%s scenario parsed as Rule" % w)
                continue
            cmp_scenario(diffs, ia, im, lines, k, w)


def cmp_feature(a, m, lines, lang):
    diffs = []
    if m is None:
        return ["no feature parsed"]
    if m.keyword != a["kw"] or m.name != a["name"]:
        diffs.append("feature keyword/name %r/%r != %r/%r" % (m.keyword, m.name, a["kw"], a["name"]))
    if m.line != lines.get(()):
        diffs.append("feature line %r != %r" % (m.line, lines.get(())))
    if m.language != lang:
        diffs.append("feature language %r != %r" % (m.language, lang))
    cmp_tags(diffs, a["tags"], m.tags, lines, (), "feature")
    if list(m.description) != list(a.get("desc") or []):
        diffs.append("feature description %r != %r" % (list(m.description), a.get("desc")))
    cmp_container(diffs, a, m, lines, (), "feature")
    return diffs


def count_elems(a):
    n = 1
    for it in a["items"]:
        n += (count_elems(it) if it["kind"] == "rule" else 1 + len(it["steps"]))
    return n


def all_step_lists(c):
    if c.get("background"):
        yield c["background"]["steps"]
    for it in c.get("items", []):
        if it["kind"] == "rule":
            for x in all_step_lists(it):
                yield x
        else:
            yield it["steps"]


def conflicting_languages(lab, lang):
    """Languages that use one of *lang*'s keyword aliases for ANOTHER kind of keyword (ro 'Exemple' = Examples, fr 'Exemple' = Scenario)."""
    cache = lab.setdefault("_conflicts", {})
    if lang not in cache:
        from behave import i18n
        kinds = ("feature", "rule", "background", "scenario", "scenario_outline", "examples", "given", "when", "then", "and", "but")
        mine = {}
        for k in kinds:
            for al in i18n.languages[lang].get(k, []):
                mine.setdefault(al.strip(), set()).add(k)
        out = []
        for other, kws2 in i18n.languages.items():
            if other == lang:
                continue
            hit = False
            for k in kinds:
                for al in kws2.get(k, []):
                    a2 = al.strip()
                    if a2 != "*" and a2 in mine and k not in mine[a2]:
                        hit = True
            if hit:
                out.append(other)
        cache[lang] = sorted(out)
    return cache[lang]


def check_doc(mon, lab, lang, kws, rng, layout, monitor="parse.faithful", force_alias=None, via_file=False, sample=False, strip_colon=False):
    gen = DocGen(rng, lang, kws, force_alias=force_alias)
    a = gen.feature()
    if force_alias and force_alias[0] in STEP_TYPES:
        ensure_alias_used(a, gen, force_alias)
    expected_step_types(a, kws)
    if strip_colon:
        for sl in all_step_lists(a):
            for st in sl:
                if st.get("doc") is not None and st.get("table") is not None:
                    del st["table"]          # (see ASSUMPTIONS: one argument section per step under this switch)
    text, lines = render_feature(a, rng, layout, language_header=(lang if via_file else None))
    if via_file and rng.random() < 0.5:
        # the language comment may follow blank / comment lines at the top of the file
        pre = [rng.choice(["", "# a leading comment", "   ", "#!shebang-like"]) for _ in range(rng.randint(1, 3))]
        text = "\n".join(pre) + "\n" + text
        lines = {k: v + len(pre) for k, v in lines.items()}
    case = {"lang": lang, "text": text, "force_alias": list(force_alias) if force_alias else None, "via_file": via_file}
    from behave import parser as P
    saved_strip = P.Parser.__dict__.get("STRIP_STEPS_WITH_TRAILING_COLON")
    if strip_colon:
        # the documented switch BEHAVE_STRIP_STEPS_WITH_TRAILING_COLON=yes (read into this parser attribute at import): a step that
        # announces its table / doc-string with a colon loses THAT colon -- one, and only in front of a table / doc-string
        for sl in all_step_lists(a):
            for st in sl:
                if (st.get("doc") is not None or st.get("table") is not None) and st["text"].endswith(":"):
                    st["text"] = st["text"][:-1]
                    mon.seen("strip_trailing_colon", "double" if st["text"].endswith(":") else "single")
        case["strip_steps_with_trailing_colon"] = True
        P.Parser.STRIP_STEPS_WITH_TRAILING_COLON = True
    try:
        return _check_doc(mon, lab, lang, kws, rng, a, text, lines, case, monitor, via_file, sample)
    finally:
        P.Parser.STRIP_STEPS_WITH_TRAILING_COLON = saved_strip


def _check_doc(mon, lab, lang, kws, rng, a, text, lines, case, monitor, via_file, sample):
    mon.case((text, bool(case.get("strip_steps_with_trailing_colon"))), count_elems(a) >= 3)
    mon.seen("language", lang)
    try:
        if via_file:
            fd, path = tempfile.mkstemp(suffix=".feature", prefix="bvm-")
            # how the very same text may sit in a file: line endings of another platform, a byte-order mark written by an editor
            file_form = rng.choice(["lf", "lf", "crlf", "bom", "bom+crlf", "cr", "big"])
            data = text
            if file_form == "big":
                # a file far beyond 64 KiB whose multi-byte characters sit at every possible offset (readers that work block-wise)
                pre = ["#" + "x" * rng.randint(0, 2) + " " + "\u65e5\u672c\u8a9e\u0416" * 6000 for _ in range(rng.randint(3, 4))]
                data = "\n".join(pre) + "\n" + text
                lines = {k: v + len(pre) for k, v in lines.items()}
                case["text"] = "(%d long leading comment lines)\n" % len(pre) + text
            if "crlf" in file_form:
                data = data.replace("\n", "\r\n")
            elif file_form == "cr":
                data = data.replace("\n", "\r")
            raw = data.encode("utf-8")
            if "bom" in file_form:
                raw = b"\xef\xbb\xbf" + raw
            case["file_form"] = file_form
            mon.seen("file_form", file_form)
            try:
                with os.fdopen(fd, "wb") as fh:
                    fh.write(raw)
                default_lang = None
                if rng.random() < 0.6:
                    # a DEFAULT language is given as well (behave --lang XX / lang = XX in a config file): the file's own
                    # '# language:' header decides -- also where the two languages use the same word for different things
                    default_lang = rng.choice(conflicting_languages(lab, lang) or [rng.choice(["en", "fr", "nl", "de"])])
                    if default_lang == lang:
                        default_lang = "en" if lang != "en" else "de"
                    case["default_language"] = default_lang
                    mon.seen("default_language_next_to_header", "shares_a_word_with_another_role" if conflicting_languages(lab, lang) else "other")
                m = lab["parse_file"](path) if default_lang is None else lab["parse_file"](path, language=default_lang)
            finally:
                os.remove(path)
        else:
            m = lab["parse_feature"](text, language=lang)
    except Exception as ex:
        mon.check(monitor, False, dict(case=case, error=repr(ex)))
        return
    diffs = cmp_feature(a, m, lines, lang)
    mon.check(monitor, not diffs, lambda: dict(case=case, differences=diffs[:6]))
    if via_file and getattr(m, "parser", None) is not None:
        # the parser object stays with the feature (context.execute_steps() uses feature.parser.parse_steps): text in the
        # language of the file's '# language:' header must still be understood by it after the parse
        g, w, t = kws["given"][-1], kws["when"][-1], kws["then"][-1]
        sub = u"%ssub one\n%ssub two\n%ssub three\n" % (g, w, t)
        try:
            steps = m.parser.parse_steps(sub)
            got = [(st.step_type, st.name) for st in steps]
            mon.check("reuse.feature_parser_keeps_header_language", got == [("given", "sub one"), ("when", "sub two"), ("then", "sub three")],
                      lambda: dict(lang=lang, sub_steps=sub, got=got))
        except Exception as ex:
            mon.check("reuse.feature_parser_keeps_header_language", False, dict(lang=lang, sub_steps=sub, error=repr(ex)))
    if sample:
        mon.sample({"language": lang, "text": text})


def ensure_alias_used(a, gen, force_alias):
    """Make sure at least one step with the forced alias exists at a position where it is legal."""
    def steps_lists(c):
        for it in c["items"]:
            if it["kind"] == "rule":
                for x in steps_lists(it):
                    yield x
            else:
                yield it["steps"]
    used = any(st["alias"] == force_alias[1] and st["alias_type"] == force_alias[0] for sl in steps_lists(a) for st in sl)
    if used:
        return
    if not a["items"] or a["items"][0]["kind"] == "rule":
        a["items"].insert(0, gen.scenario(False))
    target = a["items"][0]
    if force_alias[0] in ("and", "but"):
        target["steps"] = [gen.step(gen.pick_alias(["given", "when", "then"]))] if not target["steps"] else target["steps"]
        target["steps"].append(gen.step(force_alias))
    else:
        target["steps"].insert(0, gen.step(force_alias))


def fragments(mon, lab, kws_en, rng, n):
    from behave.model import ScenarioOutline
    for i in range(n):
        gen = DocGen(rng, "en", kws_en)
        # ---- steps
        steps = gen.steps(rng.randint(1, 5), False)
        fake = {"kind": "feature", "background": None, "items": [{"kind": "scenario", "steps": steps}]}
        expected_step_types(fake, kws_en)
        text, lines = render_fragment("steps", steps, rng, layout=(i % 2 == 0))
        mon.case(text, True)
        try:
            got = lab["parse_steps"](text)
            diffs = []
            cmp_steps(diffs, steps, got, lines, (), "fragment")
            mon.check("fragment.steps", not diffs, lambda: dict(text=text, differences=diffs[:5]))
        except Exception as ex:
            mon.check("fragment.steps", False, dict(text=text, error=repr(ex)))
        # ---- scenario / outline
        sc = gen.outline(False) if i % 3 == 0 else gen.scenario(False)
        fake = {"kind": "feature", "background": None, "items": [sc]}
        expected_step_types(fake, kws_en)
        text, lines = render_fragment("scenario", sc, rng, layout=(i % 2 == 1))
        mon.case(text, True)
        try:
            got = lab["parse_scenario"](text)
            diffs = []
            cmp_scenario(diffs, sc, got, lines, (), "fragment")
            mon.check("fragment.scenario", not diffs, lambda: dict(text=text, differences=diffs[:5], kind=sc["kind"]))
        except Exception as ex:
            mon.check("fragment.scenario", False, dict(text=text, error=repr(ex), kind=sc["kind"]))
        # ---- rule
        if i % 3 == 0:
            rule = gen.rule(False)
            fake = {"kind": "feature", "background": None, "items": [rule]}
            expected_step_types(fake, kws_en)
            text, lines = render_fragment("rule", rule, rng, layout=False)
            mon.case(text, True)
            try:
                got = lab["parse_rule"](text)
                diffs = []
                if got is None or got.name != rule["name"] or got.keyword != rule["kw"]:
                    diffs.append("rule keyword/name %r" % (getattr(got, "name", None),))
                else:
                    cmp_tags(diffs, rule["tags"], got.tags, lines, (), "rule")
                    cmp_container(diffs, rule, got, lines, (), "rule")
                mon.check("fragment.rule", not diffs, lambda: dict(text=text, differences=diffs[:5]))
            except Exception as ex:
                mon.check("fragment.rule", False, dict(text=text, error=repr(ex)))
        # ---- tags
        tags = gen.tags() or ["only"]
        text, lines = render_fragment("tags", tags, rng, layout=False)
        one_line = text.strip("\n")
        mon.case(("tags", one_line), True)
        try:
            got = lab["parse_tags"](one_line)
            mon.check("fragment.tags", [str(t) for t in got] == tags, lambda: dict(text=one_line, got=[str(t) for t in got], want=tags))
        except Exception as ex:
            mon.check("fragment.tags", False, dict(text=one_line, error=repr(ex)))


def install_state_recorder(mon):
    """Record the parser's state transitions (evidence: which of the 10x10 were exercised)."""
    from behave import parser as P
    if getattr(P.Parser.action, "_bvm", False):
        return
    orig = P.Parser.action

    def action(self, line):
        before = self.state.name
        try:
            return orig(self, line)
        finally:
            mon.seen("parser_transition", "%s->%s" % (before, self.state.name))
    action._bvm = True
    P.Parser.action = action


COLON_DOC = u"""Feature: F
  Scenario: S
    Given a table::
      | h |
      | 1 |
    When a text:
      \"\"\"
      body
      \"\"\"
    Then no argument:
    And namespace std::
      | h |
"""


def colon_option_in_fresh_interpreters(mon):
    """The switch is an environment variable read when behave.parser is imported: one fresh interpreter per setting."""
    import json
    import subprocess
    import sys
    from ..core import REPO
    prog = ("import sys, json; from behave.parser import parse_feature; f = parse_feature(sys.stdin.read()); "
            "print(json.dumps([s.name for sc in f.scenarios for s in sc.steps]))")
    plain = ["a table::", "a text:", "no argument:", "namespace std::"]
    for setting, want in ((None, plain), ("no", plain), ("yes", ["a table:", "a text", "no argument:", "namespace std:"]), ("true", plain), ("", plain)):
        env = dict(os.environ, PYTHONPATH=REPO)
        env.pop("BEHAVE_STRIP_STEPS_WITH_TRAILING_COLON", None)
        if setting is not None:
            env["BEHAVE_STRIP_STEPS_WITH_TRAILING_COLON"] = setting
        mon.case(("colon-option-process", setting), True)
        try:
            p = subprocess.run([sys.executable, "-c", prog], input=COLON_DOC, capture_output=True, text=True, env=env, timeout=120)
            got = json.loads(p.stdout.strip().splitlines()[-1]) if p.returncode == 0 else "rc=%d %s" % (p.returncode, p.stderr[-300:])
        except Exception as ex:
            got = repr(ex)
        mon.check("option.strip_trailing_colon_process", got == want, lambda: dict(setting=setting, got=got, want=want, document=COLON_DOC))


def run(spec, mon):
    from behave import parser as P, i18n
    install_state_recorder(mon)
    lab = {"parse_feature": P.parse_feature, "parse_file": P.parse_file, "parse_steps": P.parse_steps,
           "parse_scenario": P.parse_scenario, "parse_rule": P.parse_rule, "parse_tags": P.parse_tags}
    tier = spec.get("tier", "quick")
    rng = random.Random(spec["seed"])
    shard, of = spec["shard"], spec["of"]
    langs = sorted(i18n.languages)
    # ---- alias pass: every alias of every keyword of every language in (at least) one document ----------
    idx = 0
    for lang in langs:
        kws = i18n.languages[lang]
        for kind in ("feature", "rule", "background", "scenario", "scenario_outline", "examples") + STEP_TYPES:
            for alias in kws[kind]:
                idx += 1
                if idx % of != shard:
                    continue
                opts = {}
                check_doc(mon, lab, lang, kws, rng, layout=(idx % 3 == 0), monitor="alias.recognised",
                          force_alias=(kind, alias), via_file=(idx % 7 == 0))
    mon.count("alias_entries", sum(1 for l in langs for k in ("feature", "rule", "background", "scenario", "scenario_outline", "examples") + STEP_TYPES
                                   for _ in i18n.languages[l][k]) if shard == 0 else 0)
    # ---- random documents -------------------------------------------------------------------------
    n = 110 if tier == "quick" else 7000
    for i in range(n):
        lang = "en" if i % 3 == 0 else rng.choice(langs)
        check_doc(mon, lab, lang, i18n.languages[lang], rng, layout=(i % 4 != 0), via_file=False,
                  sample=(i == 1 and shard == 0), strip_colon=(i % 6 == 5), monitor=("option.strip_trailing_colon" if i % 6 == 5 else "parse.faithful"))
    if shard == 0:
        colon_option_in_fresh_interpreters(mon)
    for i in range(8 if tier == "quick" else 150):
        lang = rng.choice(langs)
        check_doc(mon, lab, lang, i18n.languages[lang], rng, layout=True, monitor="parse_file.language_header", via_file=True)
    fragments(mon, lab, i18n.languages["en"], rng, 25 if tier == "quick" else 1200)


def replay(case, mon):
    from behave import parser as P
    if isinstance(case, dict) and "text" in case:
        try:
            m = P.parse_feature(case["text"], language=None if case.get("via_file") else case["lang"])
            print("parsed:", m, [x for x in (m.run_items if m else [])])
        except Exception as ex:
            print("raised:", repr(ex))
    print("replay prints the parse of the witness text; re-run the check for the structural comparison")


LEVEL_TEXT = ("Exploration with a complete alias pass: abstract feature trees are rendered by an independent renderer that "
              "keeps its own line map, parsed by the real parser and compared structurally (kind, keyword as written, "
              "name, tags with lines, description, step type by the inheritance rule, doc-strings, tables, examples, all "
              "line numbers, language); every alias of every keyword of all 80 languages is used in at least one "
              "document; fragments go through parse_steps/parse_scenario/parse_rule/parse_tags; parse_file is driven "
              "with a '# language:' header. A wrapper on Parser.action records the state transitions exercised.")
LEVEL_NOTE = "Trusted: renderer + comparison in bvm/gen/render.py, bvm/gen/docgen.py and this module; layouts/trees are sampled."
TECHNIQUE = "runtime monitoring: generate-render-parse round trip with an independent line map (differential structural oracle)"
