"""C18 -- output capture isolates step output and always restores the real streams."""
from __future__ import annotations

import io
import os
import zlib
import logging
import random
import re
import sys

from . import runbase as RB
from ..gen.prog import OUTCOMES, iter_scenario_instances
from ..ref import runmodel

ID = "C18"
LEVEL = "exploration"
RULE = ("programs whose steps and step hooks write unique markers (step id @ scenario name) to stdout, stderr and "
        "logging; all 8 on/off combinations of --no-capture / --no-capture-stderr / --no-logcapture; all outcomes incl. "
        "KeyboardInterrupt in steps, hook errors and KeyboardInterrupt in step hooks, nested execute_steps, logging "
        "level/filter variations, 2-6 scenarios per run; sentinel objects stand in for the process's stdout/stderr. "
        "A real JUnit reporter gets the output of failing scenarios whose steps print progress bars full of terminal control sequences; the plain "
        "formatter must show the failure report also of steps that carry a doc-string or a table. "
        "A case = one run; non-trivial = >=2 scenarios with >=1 non-passing step and >=1 capture switch on; distinct by "
        "hash of (program, args, fault).")
ASSUMPTIONS = [
    "with log capture off, logging markers are not tracked (records go wherever the logging configuration sends them)",
    "report text goes to the formatters' own streams, so it is never confused with leaked output",
    "between a KeyboardInterrupt escaping a step hook and the end of the run no user code runs; 'restored' is observed at the end of the run in that case",
]
REQUIRED = {"wild.streams_restored_after_the_run": {"quick": 8, "thorough": 300}, "capture.nothing_reaches_real_stream": {"quick": 1200, "thorough": 30000},
            "passthrough.markers_arrive": {"quick": 500, "thorough": 20000},
            "steprun.streams_restored_on_exit": {"quick": 4000, "thorough": 150000},
            "scenario.logging_restored": {"quick": 1500, "thorough": 60000},
            "report.failing_step_has_exactly_its_scenarios_output": {"quick": 400, "thorough": 20000},
            "formatter.no_output_of_passing_scenarios": {"quick": 300, "thorough": 15000},
            "run.streams_restored_at_end": {"quick": 600, "thorough": 30000}}
REQUIRED_SEEN = {"junit_forces_capture": ["with_some_switch_off"], "neighbouring_scenarios": ["same_keyword_and_title"], "hooks_log_before_the_first_scenario": ["yes"], "failing_step_argument": ["doc_string", "table", "none"], "junit_output_habit": ["plain", "control_sequences"], "reported_step_status": ["failed", "error", "pending"], "switches": ["out1err1log1", "out1err1log0", "out1err0log1", "out1err0log0", "out0err1log1", "out0err1log0",
                              "out0err0log1", "out0err0log0"],
                 "log_habit": ["plain", "flush", "bulk", "peek", "tee_only"], "setup_logging_from_hook": ["DEBUG", "WARNING"],
                 "capture_switched_at_runtime": ["per scenario"],
                 "raising_hook_decoration": ["capture"], "capture_output_block_left_by": ["normal exit", "ValueError", "AssertionError", "KeyboardInterrupt", "SystemExit"], "passthrough_logging_project": ["environment_without_before_all"], "logging_filter_shape": ["include_and_exclude", "include_only", "exclude_only"]}
NSHARDS = {"quick": 16, "thorough": 16}
MARK = re.compile(r"\[([BMAS])\|([^|\]]*)\|([^|\]]*)\|(out|err|log|dbg|side|tee)\]")


def plan(tier, seed):
    n = NSHARDS[tier]
    return [{"shard": i, "of": n, "seed": seed * 1000 + i} for i in range(n)]


def classify(name, w):
    return name


def marker(kind, sid, scen, chan):
    return "[%s|%s|%s|%s]" % (kind, sid, scen, chan)


def install_wrappers(lab):
    from behave import model
    from behave.log_capture import LoggingCapture
    if getattr(model.Step.run, "_bvm_c18", False):
        return
    orig_step = model.Step.run
    orig_scen = model.Scenario.run

    def step_run(self, runner, quiet=False, capture=True):
        st = getattr(lab, "_state", None)
        mon = getattr(lab, "_mon", None)
        try:
            result = orig_step(self, runner, quiet, capture)
        except BaseException as ex:
            if st is not None and capture:
                st.step_exit_exceptional.append((self.name, type(ex).__name__, sys.stdout is st.real_out, sys.stderr is st.real_err))
            raise
        if st is not None and mon is not None and capture:
            ok = sys.stdout is st.real_out and sys.stderr is st.real_err
            mon.check("steprun.streams_restored_on_exit", ok,
                      lambda: dict(step=self.name, status=self.status.name, stdout_is_real=sys.stdout is st.real_out,
                                   stderr_is_real=sys.stderr is st.real_err, case=getattr(lab, "_case_w", None)))
        return result

    def scen_run(self, runner):
        st = getattr(lab, "_state", None)
        mon = getattr(lab, "_mon", None)
        root = logging.getLogger()
        before = ([h for h in root.handlers if not isinstance(h, LoggingCapture)], root.level,
                  [h for h in root.handlers if isinstance(h, LoggingCapture)])
        result = orig_scen(self, runner)
        if st is not None and mon is not None and not getattr(st, "runtime_switch", False):
            # (when user code flips the capture switches in the middle of a scenario the handler bookkeeping follows the
            #  switches it sees at setup / teardown time: not what the statement is about)
            after_plain = [h for h in root.handlers if not isinstance(h, LoggingCapture)]
            after_cap = [h for h in root.handlers if isinstance(h, LoggingCapture)]
            new_caps = [h for h in after_cap if h not in before[2]]
            ok = after_plain == before[0] and root.level == before[1] and not new_caps
            mon.check("scenario.logging_restored", ok,
                      lambda: dict(scenario=self.name, handlers_before=len(before[0]), handlers_after=len(after_plain),
                                   level_before=before[1], level_after=root.level, new_capture_handlers=len(new_caps),
                                   case=getattr(lab, "_case_w", None)))
        return result
    step_run._bvm_c18 = True
    model.Step.run = step_run
    model.Scenario.run = scen_run


class ListHandler(logging.Handler):
    def __init__(self, sink):
        logging.Handler.__init__(self)
        self.sink = sink

    def emit(self, record):
        try:
            self.sink.append(record.getMessage())
        except Exception:
            pass


def run_case(lab, mon, case, rng, sample=False):
    from behave.formatter.plain import PlainFormatter
    from behave.formatter.base import StreamOpener
    program, args, cfg = case["program"], case["args"], case["cfg"]
    cap_out = "--no-capture" not in args
    cap_err = "--no-capture-stderr" not in args
    cap_log = "--no-logcapture" not in args
    if "--junit" in args:
        cap_out = cap_err = cap_log = True
    sw = "out%derr%dlog%d" % (cap_out, cap_err, cap_log)
    leaks = []
    nested = case.get("nested", {})
    ki_hook = case.get("ki_in_hook")
    printed = []        # (kind, sid, scenario) in the order produced

    def on_real_write(name, s, st_ref=[None]):
        st = lab._state
        if st is not None and st.in_user_code > 0 and s.strip():
            leaks.append((name, s[:80]))

    log_habit = case.get("log_habit")        # None | "flush" | "bulk"

    def emit(kind, sid, scen, context=None):
        printed.append((kind, sid, scen))
        if log_habit == "tee_only":
            # a tee-like helper: the very same text on both streams and nothing else (both captures hold identical text)
            sys.stdout.write(marker(kind, sid, scen, "tee") + "\n")
            sys.stderr.write(marker(kind, sid, scen, "tee") + "\n")
            return
        sys.stdout.write(marker(kind, sid, scen, "out") + "\n")
        sys.stderr.write(marker(kind, sid, scen, "err") + "\n")
        logging.getLogger("bvm.c18").warning("%s", marker(kind, sid, scen, "log"))
        logging.getLogger("bvm.c18").debug("%s", marker(kind, sid, scen, "dbg"))
        logging.getLogger("bvm side").warning("%s", marker(kind, sid, scen, "side"))      # a second logger, with a blank in its name
        if log_habit == "flush":
            # the usual "make sure everything is written" idiom of user code: must not lose what was captured
            for h in logging.getLogger().handlers:
                h.flush()
        elif log_habit == "peek" and context is not None:
            # user code that LOOKS at what was captured so far (context.log_capture.getvalue(), context.stdout_capture): looking
            # takes nothing away from later reports
            for attr in ("log_capture", "stdout_capture", "stderr_capture"):
                cap = getattr(context, attr, None)
                if cap is not None:
                    try:
                        cap.getvalue()
                    except Exception:
                        pass
        elif log_habit == "bulk" and kind == "M":
            # a chatty step: more records in one scenario than a buffering handler's default capacity (1000)
            lg = logging.getLogger("bvm.c18.bulk")
            for i in range(1001):
                lg.warning("bulk %d", i)

    def step_plugin(state, context, text):
        sc = getattr(context, "scenario", None)
        sid = text.split(" ")[0]
        emit("M", sid, sc.name if sc is not None else "?", context)
        if text in nested and not state.nesting:
            state.nesting = True
            try:
                context.execute_steps(u"Given %s\n" % nested[text])
            finally:
                state.nesting = False

    root_level = case.get("root_level")
    runtime_switch = bool(case.get("runtime_switch"))
    n_user_handlers = int(case.get("user_root_handlers") or 0)
    user_handlers, user_records = [], []
    clear_handlers = "--logging-clear-handlers" in args
    # the level log capture works with: --logging-level (default INFO), or what user code asks for with the documented
    # context.config.setup_logging(level) from a hook
    eff_level = logging.INFO
    for a in args:
        if a.startswith("--logging-level="):
            eff_level = getattr(logging, a.split("=", 1)[1])
    hook_level = case.get("setup_logging_level")
    if hook_level is not None:
        eff_level = hook_level
    cap_dbg = cap_log and eff_level <= logging.DEBUG
    # --logging-filter (documented in features/logcapture.filter.feature): exact logger names; once a name is excluded with '-',
    # every logger that is not excluded is captured; otherwise only the listed ones are
    flt_inc, flt_exc = set(), set()
    for a in args:
        if a.startswith("--logging-filter="):
            for nm in a.split("=", 1)[1].split(","):
                nm = nm.strip()
                if nm:
                    (flt_exc if nm.startswith("-") else flt_inc).add(nm.lstrip("-"))

    def filter_passes(name):
        if flt_exc:
            return name not in flt_exc
        return (name in flt_inc) if flt_inc else True
    if flt_inc and flt_exc:
        mon.seen("logging_filter_shape", "include_and_exclude")
    elif flt_inc or flt_exc:
        mon.seen("logging_filter_shape", "include_only" if flt_inc else "exclude_only")
    uncaptured = set()
    hook_logged = []

    def hook_plugin(state, context, name, elem, tag):
        if name == "before_all" and n_user_handlers:
            # user code that configures logging itself: several handlers on the root logger (console + file, ...)
            for _k in range(n_user_handlers):
                h = ListHandler(user_records)
                user_handlers.append(h)
                logging.getLogger().addHandler(h)
        if name == "before_all" and hook_level is not None:
            context.config.setup_logging(level=hook_level)
        if name == "before_all" and root_level is not None:
            # user code configures logging in before_all (root logger level incl. NOTSET)
            logging.getLogger().setLevel(root_level)
        if runtime_switch and name == "before_scenario" and zlib.crc32(elem.name.encode("utf-8")) % 2:
            # an environment.py honouring a "@no_capture"-like tag: capture switched off for THIS scenario only
            context.config.stdout_capture = context.config.stderr_capture = context.config.log_capture = False
            uncaptured.add(elem.name)
        if runtime_switch and name == "after_scenario":
            context.config.stdout_capture, context.config.stderr_capture, context.config.log_capture = cap_out, cap_err, cap_log
        if name in ("before_scenario", "after_scenario") and name in (case.get("capture_decorated_hooks") or ()):
            # a hook decorated with @capture / @capture(level=ERROR) that logs at every level: the decorator prints what it
            # captured at ITS level (the level given to the decorator, else the configured logging level)
            for lv in ("DEBUG", "INFO", "WARNING", "ERROR"):
                logging.getLogger("bvm.hook").log(getattr(logging, lv), "[H|%s|%s|%s]", name, elem.name, lv)
            hook_logged.append((name, elem.name))
        if case.get("early_hook_records") and name in ("before_all", "before_feature", "before_tag", "before_rule"):
            # hooks that run BEFORE a scenario's capture is set up log something (a start-up message): the logging configuration
            # that is in force before a scenario is the one in force after it
            logging.getLogger("bvm.early").warning("start-up record from %s", name)
        if name in ("before_step", "after_step"):
            sc = getattr(context, "scenario", None)
            sid = elem.name.split(" ")[0]
            emit("B" if name == "before_step" else "A", sid, sc.name if sc is not None else "?", context)
            if ki_hook and ki_hook == [name, sc.name if sc is not None else None, elem.name]:
                raise KeyboardInterrupt()

    fbuf = io.StringIO()
    fbuf2 = io.StringIO()

    def formatters(config, st):
        from behave.formatter.progress import StepProgressFormatter
        return [PlainFormatter(StreamOpener(stream=fbuf), config), StepProgressFormatter(StreamOpener(stream=fbuf2), config)]

    def pre_run(st):
        lab._state = st
        st.nesting = False
        st.step_exit_exceptional = []
        st.runtime_switch = runtime_switch
        st.real_out.on_write = on_real_write
        st.real_err.on_write = on_real_write
    lab._case_w = {"args": args, "features": RB.case_texts(case)[:1]}
    lab.capture_hooks = set(case.get("capture_decorated_hooks") or ()) or None
    try:
        obs = lab.run(program, args=args, step_plugins=[step_plugin], hook_plugins=[hook_plugin], formatters=formatters,
                      pre_run=pre_run, hook_fault=case.get("hook_fault"))
    finally:
        lab.capture_hooks = None
    lab._state = None
    W = lambda **kw: RB.witness(case, switches=sw, **kw)
    pred = runmodel.predict(program, cfg)
    nonpass = RB.nonpass_count(case) > 0
    mon.case((RB.strip_case(case), case.get("ki_in_hook"), sorted(nested)), len(pred.instances) >= 2 and nonpass and (cap_out or cap_err or cap_log))
    mon.seen("switches", sw)
    if obs.escaped is not None and not isinstance(obs.escaped, KeyboardInterrupt):
        mon.check("run.no_exception_escapes", False, lambda: W(escaped=repr(obs.escaped)))
        return
    if runtime_switch:
        # only the clause "nothing from other scenarios" is evaluated in these runs (what passes through is not modelled)
        for f in obs.features:
            for s in f.walk_scenarios():
                for step in s.all_steps:
                    if step.status.name in ("failed", "error") and step.error_message is not None:
                        foreign = [m for m in MARK.findall(step.error_message) if m[2] != s.name]
                        mon.check("report.nothing_from_other_scenarios", not foreign,
                                  lambda: W(scenario=s.name, step=step.name, capture_switched_off_for=sorted(uncaptured)[:6], foreign=foreign[:4]))
        return
    if hook_logged and not any(a.startswith("--logging-filter") for a in args) and hook_level is None:
        raised_in = set((f[1], f[2]) for f in obs.faults_fired)
        shown = {}
        for hname, sname, lv in re.findall(r"\[H\|(\w+)\|([^|\]]*)\|(\w+)\]", obs.real_out.getvalue()):
            shown.setdefault((hname, sname), []).append(lv)
        order = ["DEBUG", "INFO", "WARNING", "ERROR"]
        for (hname, sname) in hook_logged:
            if (hname, sname) in raised_in:
                continue
            # (lab: the decorated hook names are sorted and alternate @capture / @capture(level=ERROR): after_scenario, before_scenario)
            level = logging.ERROR if hname == "before_scenario" else eff_level
            want_lv = [lv for lv in order if getattr(logging, lv) >= level]
            got_lv = shown.get((hname, sname), [])
            mon.check("decorator.capture_prints_records_at_its_level", got_lv == want_lv,
                      lambda: W(hook=hname, scenario=sname, decorator="@capture(level=ERROR)" if hname == "before_scenario" else "@capture",
                                configured_level=logging.getLevelName(eff_level), printed=got_lv, want=want_lv))
    # ---- (b') at the end of the run the process streams are the real ones again --------------------
    mon.check("run.streams_restored_at_end", obs.stream_after[0] is obs.real_out and obs.stream_after[1] is obs.real_err,
              lambda: W(stdout_is_real=obs.stream_after[0] is obs.real_out, stderr_is_real=obs.stream_after[1] is obs.real_err,
                        exceptional_step_exits=obs.step_exit_exceptional, ki_in_hook=ki_hook))
    root_after = obs.logging_after
    # ---- (a) nothing written by user code reaches the real stream of a captured channel -------------
    real_out, real_err = obs.real_out.getvalue(), obs.real_err.getvalue()
    for chan, on, text in (("out", cap_out, real_out), ("err", cap_err, real_err)):
        marks = [m for m in MARK.findall(text) if m[3] == chan]
        if log_habit == "tee_only":
            tee = [m for m in MARK.findall(text) if m[3] == "tee"]
            mon.check("capture.nothing_reaches_real_stream", not tee, lambda: W(channel=chan, leaked=tee[:5]))
            continue
        if on:
            mon.check("capture.nothing_reaches_real_stream", not marks,
                      lambda: W(channel=chan, leaked=marks[:5], raw_leaks=leaks[:3]))
        else:
            want = [(k, sid, sc, chan) for (k, sid, sc) in printed]
            mon.check("passthrough.markers_arrive", marks == want,
                      lambda: W(channel=chan, got=marks[:8], want=want[:8], n_got=len(marks), n_want=len(want)))
    if n_user_handlers and cap_log and clear_handlers and not runtime_switch:
        # --logging-clear-handlers: while a scenario is captured ALL handlers of the root logger are set aside, so nothing a
        # step or step hook logs reaches the user's own handlers
        got_user = [m for m in MARK.findall("\n".join(user_records)) if m[0] in "MBA"]
        mon.check("capture.nothing_reaches_user_log_handlers", not got_user,
                  lambda: W(user_handlers=n_user_handlers, leaked=got_user[:5]))
    if cap_log and cap_err:
        marks = [m for m in MARK.findall(real_err) if m[3] in ("log", "side")]
        mon.check("capture.nothing_reaches_real_stream", not marks, lambda: W(channel="log->stderr", leaked=marks[:5]))
    # ---- (d) the failure report of a failing step -------------------------------------------------------
    if case.get("hook_fault") is None and not ki_hook:
        produced = {}
        for (k, sid, sc) in printed:
            produced.setdefault(sc, []).append((k, sid))
        for f in obs.features:
            for s in f.walk_scenarios():
                steps = list(s.all_steps)
                for j, step in enumerate(steps):
                    if step.status.name in ("failed", "error") and step.error_message is not None and s.name in produced:
                        msg = step.error_message
                        got = MARK.findall(msg)
                        if log_habit == "tee_only":
                            # every line sits in the report twice: once below "Captured stdout", once below "Captured stderr"
                            exp_t = sorted([(k, sid, s.name, "tee") for (k, sid) in produced[s.name]] * 2)
                            mon.check("report.failing_step_has_exactly_its_scenarios_output", sorted(got) == exp_t,
                                      lambda: W(scenario=s.name, step=step.name, habit="tee_only", got=sorted(got)[:8], want=exp_t[:8],
                                                sections=[l for l in msg.splitlines() if l.startswith("Captured")]))
                            break
                        if not cap_log:
                            # log capture off: records go wherever logging sends them (with no handler configured:
                            # logging.lastResort -> sys.stderr, i.e. into the stderr capture) -- not tracked
                            got = [m for m in got if m[3] not in ("log", "dbg", "side")]
                        # everything the scenario produced (it stops after this step)
                        exp = []
                        for (k, sid) in produced[s.name]:
                            for chan, on in (("out", cap_out), ("err", cap_err), ("log", cap_log and filter_passes("bvm.c18")),
                                             ("dbg", cap_dbg and filter_passes("bvm.c18")), ("side", cap_log and filter_passes("bvm side"))):
                                if on:
                                    exp.append((k, sid, s.name, chan))
                        foreign = [m for m in got if m[2] != s.name]
                        ok = sorted(got) == sorted(exp) and not foreign
                        mon.check("report.failing_step_has_exactly_its_scenarios_output", ok,
                                  lambda: W(scenario=s.name, step=step.name, missing=sorted(set(exp) - set(got))[:6],
                                            extra=sorted(set(got) - set(exp))[:6], foreign=foreign[:4]))
                        break
        # ---- formatter output shows no marker of a passing scenario ------------------------------------
        ftext = fbuf.getvalue()
        fmarks = MARK.findall(ftext)
        passing = set(n for n, st in obs.elem_status.items() if obs.elem_kind.get(n) == "scenario" and st == "passed")
        bad = [m for m in fmarks if m[2] in passing and ((m[3] == "out" and cap_out) or (m[3] == "err" and cap_err) or (m[3] == "log" and cap_log))]
        mon.check("formatter.no_output_of_passing_scenarios", not bad, lambda: W(shown=bad[:5]))
        # the step-progress formatter prints the captured output of a failing step in its problem block: once
        marks2 = MARK.findall(fbuf2.getvalue())
        limit = 2 if log_habit == "tee_only" else 1          # (the tee habit writes every line to both streams)
        twice = sorted(set(m for m in marks2 if marks2.count(m) > limit))
        bad2 = [m for m in marks2 if m[2] in passing and ((m[3] == "out" and cap_out) or (m[3] == "err" and cap_err) or (m[3] == "log" and cap_log))]
        mon.check("formatter.captured_output_shown_once", not twice and not bad2, lambda: W(formatter="progress2", repeated=twice[:5], of_passing=bad2[:5]))
        # ... and it does print it: what the failure report of a step that failed, raised or is not implemented yet holds is in the
        # formatter's problem block (steps that were not found have no report of their own)
        text2 = fbuf2.getvalue()
        if case.get("hook_fault") is None and not ki_hook:
            for f in obs.features:
                for s in f.walk_scenarios():
                    for step in s.all_steps:
                        if step.status.name in ("failed", "error", "pending") and step.error_message:
                            need = set(MARK.findall(step.error_message))
                            shown = set(marks2)
                            mon.seen("reported_step_status", step.status.name)
                            mon.check("formatter.step_progress_shows_the_failure_report", need <= shown and step.name.split(" ")[0] in text2,
                                      lambda: W(formatter="progress2", scenario=s.name, step=step.name, status=step.status.name,
                                                missing=sorted(need - shown)[:6]))
                            # the plain formatter (also what --wip uses) prints the failure report below the step -- whether or not
                            # the step carries a doc-string or a table
                            shown_plain = set(fmarks)
                            mon.seen("failing_step_argument", "doc_string" if step.text else ("table" if step.table else "none"))
                            mon.check("formatter.plain_shows_the_failure_report", need <= shown_plain,
                                      lambda: W(formatter="plain", scenario=s.name, step=step.name, status=step.status.name,
                                                step_has=("doc_string" if step.text else ("table" if step.table else "no argument")),
                                                missing=sorted(need - shown_plain)[:6]))
    if sample:
        mon.sample({"features": RB.case_texts(case), "args": args, "switches": sw, "markers_produced": len(printed),
                    "real_stdout_head": real_out[:200], "real_stderr_head": real_err[:200]})


def capture_output_helper(mon, rng):
    """behave.capture.capture_output(controller, enabled) -- the public context manager around start/stop: however the block is
    left, sys.stdout / sys.stderr are the objects they were before, and what the block wrote is in the controller's buffers."""
    from behave.capture import CaptureController, capture_output
    from behave.configuration import Configuration
    config = Configuration(rng.choice([[], ["--no-capture-stderr"], ["--no-logcapture"]]), load_config=False)
    controller = CaptureController(config)
    controller.setup_capture(type("Ctx", (object,), {})())
    leave = rng.choice([None, ValueError, AssertionError, KeyboardInterrupt, SystemExit])
    enabled = rng.random() < 0.8
    out0, err0 = sys.stdout, sys.stderr
    root = logging.getLogger()
    handlers0, level0 = list(root.handlers), root.level
    raised = None
    try:
        with capture_output(controller, enabled=enabled):
            sys.stdout.write("[helper-out]\n")
            if leave is not None:
                raise leave("leaving the block")
    except BaseException as ex:
        raised = ex
    restored = sys.stdout is out0 and sys.stderr is err0
    sys.stdout, sys.stderr = out0, err0
    try:
        controller.teardown_capture()
    except Exception:
        pass
    root.handlers[:] = handlers0
    root.setLevel(level0)
    case = {"kind": "capture_output helper", "enabled": enabled, "left_by": getattr(leave, "__name__", "normal exit"), "args": config.stdout_capture}
    mon.case(("capture_output", enabled, case["left_by"]), True)
    mon.check("helper.capture_output_restores_streams", restored and ((raised is None) if leave is None else isinstance(raised, leave)),
              lambda: dict(case=case, stdout_restored=restored, raised=repr(raised)))
    mon.seen("capture_output_block_left_by", case["left_by"])


def subprocess_case(mon, rng, case):
    from ..lab.subproc import Project
    args = case["args"]
    cap_out = "--no-capture" not in args
    cap_err = "--no-capture-stderr" not in args
    plan = {"markers": True}
    if case.get("env_without"):
        plan["env_without"] = case["env_without"]
    proj = Project(case["program"], plan)
    try:
        res = proj.run(args + ["-f", "plain", "-o", "plain.txt", "--no-summary"], environment=RB.pick_environment(rng, mon, ["plain", "plain", "optimized", "warnings_as_errors_for_user_code"]))
    finally:
        proj.close()
    if res.get("timeout"):
        mon.note("subprocess watchdog fired (inconclusive case)")
        return
    steps = [e[2].split(" ")[0] for e in res["events"] if e[0] == "step"]
    mon.case(("sub", RB.strip_case(case)), True)
    out_marks = re.findall(r"M(\w+):out", res["stdout"])
    err_marks = re.findall(r"M(\w+):err", res["stderr"])
    W = lambda **kw: RB.witness(case, rc=res["rc"], **kw)
    if cap_out:
        mon.check("subprocess.captured_stdout_not_on_real_stdout", not out_marks, lambda: W(leaked=out_marks[:5], stdout=res["stdout"][-400:]))
    else:
        mon.check("subprocess.passthrough_stdout", out_marks == steps, lambda: W(got=out_marks[:8], want=steps[:8]))
    if cap_err:
        mon.check("subprocess.captured_stderr_not_on_real_stderr", not err_marks, lambda: W(leaked=err_marks[:5], stderr=res["stderr"][-400:]))
    else:
        mon.check("subprocess.passthrough_stderr", err_marks == steps, lambda: W(got=err_marks[:8], want=steps[:8]))
    if "--no-logcapture" in args and "before_all" in (case.get("env_without") or ()):
        # log capture off: the records of the steps pass straight through behave's default logging set-up (level INFO,
        # formatted with level and logger name) to the real stderr -- whatever OTHER hooks the project's environment.py defines
        # (a project with a before_all() hook of its own is responsible for its logging set-up itself: nothing is demanded)
        warn = re.findall(r"WARNING\W+bvm\W+M(\w+):log", res["stderr"])
        info = re.findall(r"INFO\W+bvm\W+M(\w+):info", res["stderr"])
        mon.check("subprocess.passthrough_logging", warn == steps and info == steps,
                  lambda: W(warning_records=warn[:8], info_records=info[:8], want=steps[:8], environment_without=case.get("env_without"),
                            stderr=res["stderr"][-500:]))
        mon.seen("passthrough_logging_project", "environment_without_before_all")


def same_title_neighbours(lab, mon, rng):
    """Two scenarios with the SAME keyword and title directly after each other (copy / paste, or rows of an outline under the name
    schema '{name}'): each has a capture of its own -- the failure report of the second holds its own output and none of the first's."""
    n = rng.randint(2, 3)
    scen = []
    for j in range(n):
        last = j == n - 1
        scen.append({"kind": "scenario", "tags": [], "name": "Same title", "desc": [],
                     "steps": [{"kw": "Given", "text": "k%d is ready" % (10 * j + 2)}, {"kw": "Then", "text": "k%d checks x" % (10 * j + 4)}]})
    feat = {"kind": "feature", "tags": [], "name": "F0", "desc": [], "background": None, "file": "f0.feature", "items": scen}
    failing = "k%d checks x" % (10 * (n - 1) + 4)
    program = {"features": [feat], "outcomes": {failing: "fail"}}
    chan = rng.choice(["stdout", "stderr", "log"])
    args = {"stdout": [], "stderr": [], "log": ["--no-capture", "--no-capture-stderr"]}[chan]

    def plug(state, context, text):
        sid = text.split(" ")[0]
        if chan == "stdout":
            sys.stdout.write("OUT-%s;\n" % sid)
        elif chan == "stderr":
            sys.stderr.write("OUT-%s;\n" % sid)
        else:
            logging.getLogger("bvm.c18.same").warning("OUT-%s;", sid)
    obs = lab.run(program, args=args, step_plugins=[plug])
    case = {"kind": "same-title-neighbours", "scenarios": n, "channel": chan}
    mon.case(("same-title", n, chan), True)
    mon.seen("neighbouring_scenarios", "same_keyword_and_title")
    if obs.escaped is not None:
        mon.check("report.failing_step_has_exactly_its_scenarios_output", False, dict(case=case, escaped=repr(obs.escaped)))
        return
    msg = None
    for f in obs.features:
        for sc in f.walk_scenarios():
            for st in sc.all_steps:
                if st.name == failing:
                    msg = st.error_message or ""
    own = ["OUT-k%d;" % (10 * (n - 1) + 2), "OUT-k%d;" % (10 * (n - 1) + 4)]
    foreign = ["OUT-k%d;" % (10 * j + k) for j in range(n - 1) for k in (2, 4)]
    ok = msg is not None and all(x in msg for x in own) and not any(x in msg for x in foreign)
    mon.check("report.failing_step_has_exactly_its_scenarios_output", ok,
              lambda: dict(case=case, report=(msg or "")[-600:], own=own, foreign_found=[x for x in foreign if msg and x in msg]))


CONTROL = ["\x1b[2K", "\x1b[K", "\x1b[1G", "\x1b[?25l", "\x1b[?25h", "\x1b[31m", "\x1b[0m", "\x1b[1A", "\x1b[31;1m", "\r"]


def junit_report_case(lab, mon, rng):
    """--junit: what the steps of a scenario wrote ends up in that scenario's test case of the JUnit report -- also when the output
    is a progress bar / spinner full of terminal control sequences (erase line, cursor column, hide cursor, colours)."""
    import shutil
    import tempfile
    from behave.reporter.junit import JUnitReporter
    gen = {"p_nonpass": 0.5, "max_features": 1, "max_steps": 3, "p_stepless": 0.0, "outcomes": ["fail", "error"], "p_outline": 0.2}
    if rng.random() < 0.5:
        # (a Background whose steps fail as well: the scenario that fails THERE has its output in its test case like any other)
        gen.update({"p_background": 0.95, "p_rule_background": 0.8, "p_nonpass": 0.9})
        mon.seen("junit_failing_step_place", "possibly_in_a_background")
    case = RB.gen_case(rng, gen=gen, p_stop=0.0, p_dry=0.0, p_noskipped=0.0, tags=False)
    outdir = tempfile.mkdtemp(prefix="bvm-c18-junit-")
    produced = {}
    habit = rng.choice(["plain", "control_sequences", "control_sequences"])

    def step_plugin(state, context, text):
        sc = getattr(context, "scenario", None)
        sname, sid = (sc.name if sc is not None else "?"), text.split(" ")[0]
        for chan, stream in (("out", sys.stdout), ("err", sys.stderr)):
            m = marker("M", sid, sname, chan)
            produced.setdefault(sname, []).append(m)
            if habit == "plain":
                stream.write(m + "\n")
            else:
                # a progress display: control sequence, a bit of text, the marker, more control sequences
                stream.write(rng.choice(CONTROL) + "[####  ] 40% " + rng.choice(CONTROL) + m + rng.choice(CONTROL) + " done" + rng.choice(CONTROL) + "\n")
    args = case["args"] + ["--junit", "--junit-directory", outdir]
    c2 = dict(case, args=args, output_habit=habit)
    try:
        def reporters(config):
            config.base_dir = os.getcwd()       # (what Runner.setup_paths() does for a run from the command line)
            return [JUnitReporter(config)]
        obs = lab.run(case["program"], args=args, step_plugins=[step_plugin], reporters=reporters)
        if obs.escaped is not None:
            mon.check("junit.captured_output_of_a_failing_scenario_is_in_its_test_case", False, lambda: RB.witness(c2, escaped=repr(obs.escaped)))
            return
        import xml.etree.ElementTree as ET
        texts = {}
        for fn in sorted(os.listdir(outdir)):
            if fn.endswith(".xml"):
                try:
                    root = ET.parse(os.path.join(outdir, fn)).getroot()
                except Exception as ex:
                    mon.check("junit.captured_output_of_a_failing_scenario_is_in_its_test_case", False, lambda: RB.witness(c2, file=fn, error=repr(ex)))
                    return
                for tc in root.iter("testcase"):
                    texts.setdefault(tc.get("name"), []).append("".join(tc.itertext()))
        mon.case(("junit-report", RB.strip_case(c2)), True)
        mon.seen("junit_output_habit", habit)
        for sname, marks in produced.items():
            st = obs.elem_status.get(sname)
            if st not in ("failed", "error") or len(texts.get(sname, [])) != 1:
                continue
            body = texts[sname][0]
            missing = [m for m in marks if m not in body]
            mon.check("junit.captured_output_of_a_failing_scenario_is_in_its_test_case", not missing,
                      lambda: RB.witness(c2, scenario=sname, status=st, missing=missing[:6], test_case_text=body[-500:]))
    finally:
        shutil.rmtree(outdir, ignore_errors=True)


def run(spec, mon):
    from ..lab.inproc import RunLab
    lab = RunLab()
    lab._mon = mon
    lab._state = None
    install_wrappers(lab)
    tier = spec.get("tier", "quick")
    rng = random.Random(spec["seed"])
    n = 80 if tier == "quick" else 2400
    combos = [(a, b, c) for a in (0, 1) for b in (0, 1) for c in (0, 1)]
    for i in range(n):
        gen = {"p_nonpass": 0.35, "max_features": 2, "max_steps": 3, "p_stepless": 0.0,
               "weights": {"ki": 0.4, "fail": 2.0, "error": 2.0}}
        if i % 4 == 1:
            gen.update({"p_table": 0.35, "p_doc": 0.5})      # many steps -- failing ones too -- with a doc-string or a table
        case = RB.gen_case(rng, gen=gen, p_stop=0.1, p_dry=0.0, p_noskipped=0.3, tags=(i % 3 == 0))
        a, b, c = combos[i % 8]
        extra = []
        if not a:
            extra.append("--no-capture")
        if not b:
            extra.append("--no-capture-stderr")
        if not c:
            extra.append("--no-logcapture")
        if rng.random() < 0.3:
            extra.append("--logging-level=%s" % rng.choice(["DEBUG", "WARNING", "INFO"]))
        if rng.random() < 0.3:
            extra.append("--logging-filter=%s" % rng.choice(["bvm.c18", "-other", "bvm.c18,-other", "-other,bvm.c18", "-bvm side", "bvm side",
                                                             "bvm side,bvm.c18", "bvm.c18,-bvm side", "x.y,-bvm.c18"]))
        if (i // 8) % 5 == 3:
            # --junit: "all stdout and stderr will be redirected and dumped to the junit report, regardless of the
            # '--capture' and '--no-capture' options" -- the three switches are on, whatever else the command line says
            extra += ["--junit", "--junit-directory", "junit-reports-not-written"]
            mon.seen("junit_forces_capture", "with_" + ("no_switch_off" if (a and b and c) else "some_switch_off"))
        case["args"] = case["args"] + extra
        # nested execute_steps for some passing steps
        nested = {}
        for text, oc in list(case["program"]["outcomes"].items()):
            if oc == "pass" and text[0] == "k" and rng.random() < 0.1:
                sub = "k9%d sub step" % rng.randrange(1000, 9999)
                nested[text] = sub
                case["program"]["outcomes"][sub] = "pass"
        case["nested"] = nested
        if i % 3 == 1:
            case["early_hook_records"] = True
            mon.seen("hooks_log_before_the_first_scenario", "yes")
        if (i // 8) % 2 == 0:       # (independent of the switch combination, which cycles with i % 8)
            case["root_level"] = rng.choice([logging.NOTSET, logging.DEBUG, logging.INFO, logging.WARNING, logging.ERROR])
        if i % 5 == 2:
            case["user_root_handlers"] = rng.choice([2, 3, 4])
            if rng.random() < 0.6:
                case["args"] = case["args"] + ["--logging-clear-handlers"]
            mon.seen("user_root_handlers", "%d%s" % (case["user_root_handlers"], "+clear" if "--logging-clear-handlers" in case["args"] else ""))
        if i % 9 == 4:
            case["setup_logging_level"] = rng.choice([logging.DEBUG, logging.DEBUG, logging.WARNING])
            mon.seen("setup_logging_from_hook", logging.getLevelName(case["setup_logging_level"]))
        if i % 11 == 6:
            case["runtime_switch"] = True
            mon.seen("capture_switched_at_runtime", "per scenario")
        if i % 8 == 7 and (i // 8) % 3 == 1:
            case["log_habit"] = "tee_only"          # (i % 8 == 7: all three captures are on)
        elif i % 7 == 5:
            case["log_habit"] = "peek"
        elif i % 7 == 3:
            case["log_habit"] = "flush"
        elif i % 23 == 5:
            case["log_habit"] = "bulk"
        mon.seen("log_habit", case.get("log_habit") or "plain")
        mode = i % 5
        if mode == 1:
            obs0 = lab.run(case["program"], args=case["args"])
            ks = [k for k, h in enumerate(obs0.hooks) if h[0] in ("before_step", "after_step")]
            if ks:
                case["hook_fault"] = {"k": rng.choice(ks), "exc": "Exception"}
        elif mode == 3:
            # scenario-level hooks decorated with behave's @capture / @capture(level=...) (log capture for environment functions),
            # one of them raising: at scenario end the root logger is as before all the same
            obs0 = lab.run(case["program"], args=case["args"])
            ks = [k for k, h in enumerate(obs0.hooks) if h[0] in ("before_scenario", "after_scenario")]
            if ks:
                case["hook_fault"] = {"k": rng.choice(ks), "exc": rng.choice(["Exception", "AssertionError"])}
                case["capture_decorated_hooks"] = ["after_scenario", "before_scenario"]
                mon.seen("raising_hook_decoration", "capture")
        elif mode == 2:
            obs0 = lab.run(case["program"], args=case["args"])
            hs = [h for h in obs0.hooks if h[0] in ("before_step", "after_step")]
            if hs:
                h = rng.choice(hs)
                case["ki_in_hook"] = [h[0], h[1][0], h[1][1]]
        run_case(lab, mon, case, rng, sample=(i == 0 and spec["shard"] == 0))
    for i in range(12 if tier == "quick" else 400):
        capture_output_helper(mon, rng)
    lab._state = None
    for i in range(6 if tier == "quick" else 200):
        junit_report_case(lab, mon, rng)
    for i in range(4 if tier == "quick" else 100):
        same_title_neighbours(lab, mon, rng)
    for i in range(1 if tier == "quick" else 30):
        case = RB.gen_case(rng, gen={"p_nonpass": 0.3, "max_features": 1, "outcomes": [o for o in OUTCOMES if o != "ki"]},
                           p_stop=0, p_dry=0, tags=False)
        a, b, c = combos[(i + spec["shard"]) % 8]
        case["args"] = case["args"] + ([] if a else ["--no-capture"]) + ([] if b else ["--no-capture-stderr"]) + ([] if c else ["--no-logcapture"])
        subprocess_case(mon, rng, case)
    for i in range(1 if tier == "quick" else 30):
        # log capture off, in projects whose environment.py defines only some hooks (step hooks but no before_all, ...)
        case = RB.gen_case(rng, gen={"p_nonpass": 0.3, "max_features": 1, "outcomes": [o for o in OUTCOMES if o != "ki"]},
                           p_stop=0, p_dry=0, tags=False)
        a, b = rng.choice([(True, True), (True, False), (False, True), (False, False)])
        case["args"] = case["args"] + ([] if a else ["--no-capture"]) + ([] if b else ["--no-capture-stderr"]) + ["--no-logcapture"]
        case["env_without"] = rng.choice([["before_all", "after_all"], ["before_all"], ["before_all", "before_feature", "after_feature", "before_tag", "after_tag"]])
        subprocess_case(mon, rng, case)
    if spec["shard"] == 0:
        # behave's own acceptance features as workload: the probes of bvm.wild in every behave process they spawn
        from ..wild import run as wild
        wild.feed(mon, ID, spec.get("tier", "quick"))


def replay(case, mon):
    from ..lab.inproc import RunLab
    lab = RunLab()
    lab._mon = mon
    lab._state = None
    install_wrappers(lab)
    run_case(lab, mon, case, random.Random(0))


LEVEL_TEXT = ("Exploration: the process's stdout/stderr are replaced by sentinel objects; steps and step hooks of generated "
              "programs write unique markers to stdout, stderr and logging under all 8 capture-switch combinations and all "
              "outcomes (KeyboardInterrupt in steps and in step hooks, hook errors, nested execute_steps); monitors: no "
              "marker reaches the sentinel of a captured channel / every marker arrives when capture is off; a wrapper on "
              "Step.run asserts on every exit that sys.stdout/sys.stderr are the sentinels again; a wrapper on Scenario.run "
              "asserts root-logger handlers and level are as before; the failing step's report contains exactly its "
              "scenario's markers; formatter output shows none of a passing scenario; a sample runs as a real process.")
LEVEL_NOTE = "Trusted: sentinel streams and marker bookkeeping of this module; logging markers untracked when log capture is off."
TECHNIQUE = "runtime monitoring: sentinel streams + marker conservation, post-condition wrappers on Step.run / Scenario.run, subprocess byte observation; plus oracle-free invariant probes armed (sitecustomize) in every behave process that the repository's own acceptance features spawn"
