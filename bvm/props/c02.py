"""C02 -- step execution: order, outcome->status mapping, stop after first non-pass."""
from __future__ import annotations

import itertools
import random

from . import runbase as RB
from ..gen.prog import OUTCOMES, iter_scenario_instances
from ..ref import runmodel

ID = "C02"
LEVEL = "exploration"
RULE = ("(a) every outcome sequence up to length 3 (quick) / 4 (thorough) over the 8 outcomes {pass, assert-fail, "
        "exception, pending, undefined, skip-scenario, KeyboardInterrupt, converter error} x {no background, feature "
        "background, feature+rule background} x {plain scenario, outline row} x {plain, @wip, --dry-run}; (b) random "
        "programs with sync/async steps, tag selection, --stop, continue_after_failed_step on/off; (c) histories: the "
        "same scenario objects re-run by scenario_autoretry (2-3 attempts, outcomes changing per attempt) and by a "
        "second ModelRunner.run(); a case = one execution; non-trivial = at least one non-pass outcome or >=2 steps; "
        "distinct by hash of (program, args, history).")
ASSUMPTIONS = [
    "reference model bvm/ref/runmodel.py",
    "under continue_after_failed_step only order, status mapping and 'nothing after skip-scenario' are demanded",
    "durations and error-message wording are not observed",
]
REQUIRED = {"steps.call_log": {"quick": 2500, "thorough": 100000}, "steps.status_mapping": {"quick": 4000, "thorough": 200000},
            "steps.dry_run_calls_nothing": {"quick": 300, "thorough": 10000}, "history.retry_final_status": {"quick": 100, "thorough": 4000},
            "history.second_run_status": {"quick": 100, "thorough": 4000}, "steprun.return_iff_not_failed": {"quick": 5000, "thorough": 200000},
            "steps.subprocess_call_log": {"quick": 20, "thorough": 200}}
REQUIRED_SEEN = {"step_text_repeated": ["under_another_keyword"], "outline_step_text": ["with_special_placeholder"], "step_status": ["passed", "failed", "error", "pending", "pending_warn", "undefined", "skipped", "untested"],
                 "background_step_with_placeholder": ["feature"], "step_skips_rest_of": ["feature", "rule"], "step_definition_kind": ["parameterless_cucumber_expression"], "autoretry_patch_style": ["rows", "as_listed"],
                 "error_exception_class": ["RuntimeError", "ValueError", "KeyError", "NotImplementedError", "OSError", "LookupError",
                                           "TypeError", "ZeroDivisionError", "CustomError", "AttributeError"]}
EXHAUSTIVE = True
EXHAUSTIVE_SCOPE = "all outcome sequences up to the length bound x background depth x scenario/outline-row x plain/@wip/dry-run"
NSHARDS = {"quick": 16, "thorough": 16}


def plan(tier, seed):
    n = NSHARDS[tier]
    return [{"shard": i, "of": n, "seed": seed * 1000 + i} for i in range(n)]


def build_seq_case(seq, bgdepth, as_row, variant, flavour_async=False):
    """seq: outcome tuple.  bgdepth 0/1/2: the first 1/2 steps live in feature / rule backgrounds."""
    n = [0]
    outcomes = {}

    def step(oc, ph=False, first=False):
        n[0] += 1
        kind = {"undefined": "u", "conv": "b"}.get(oc, "a" if (flavour_async and oc in ("pass", "fail", "error", "pending", "skip")) else "k")
        text = "%s%d does it" % (kind, n[0])
        final = text
        if ph:
            text += " <x>"
            final = final + " v1"
        outcomes[final] = oc
        kw = ["Given", "When", "Then"][n[0] % 3] if first else ["Given", "When", "Then", "And", "But", "*"][n[0] % 6]
        return {"kw": kw, "text": text}
    seq = list(seq)
    fbg = rbg = None
    if bgdepth >= 1 and len(seq) >= 1:
        fbg = {"kind": "background", "name": "", "desc": [], "steps": [step(seq.pop(0), first=True)]}
    if bgdepth >= 2 and len(seq) >= 1:
        rbg = {"kind": "background", "name": "", "desc": [], "steps": [step(seq.pop(0), first=True)]}
    tags = ["wip"] if variant == "wip" else []
    if as_row:
        sc = {"kind": "outline", "tags": tags, "name": "F0O1", "desc": [], "steps": [step(oc, True, first=(j == 0)) for j, oc in enumerate(seq)],
              "examples": [{"tags": [], "name": "E1", "header": ["x"], "rows": [["v1"]]}]}
    else:
        sc = {"kind": "scenario", "tags": tags, "name": "F0S1", "desc": [], "steps": [step(oc, first=(j == 0)) for j, oc in enumerate(seq)]}
    # a second scenario follows, to observe that execution goes on (or stops after an abort)
    follower = {"kind": "scenario", "tags": [], "name": "F0S2", "desc": [], "steps": [step("pass", first=True)]}
    items = [sc, follower]
    if bgdepth >= 2:
        items = [{"kind": "rule", "tags": [], "name": "F0R1", "desc": [], "background": rbg, "items": items}]
    feat = {"kind": "feature", "tags": [], "name": "F0", "desc": [], "file": "f0.feature", "background": fbg, "items": items}
    args = ["--dry-run"] if variant == "dry" else []
    cfg = {"tags": None, "stop": False, "dry_run": variant == "dry", "names": None, "cafs": False}
    return {"program": {"features": [feat], "outcomes": outcomes}, "args": args, "cfg": cfg}


def install_step_wrapper(lab, mon):
    """Post-condition on every Step.run call of every workload: return value False <=> status.has_failed()."""
    from behave import model
    if getattr(model.Step.run, "_bvm_wrapped", False):
        return
    orig = model.Step.run

    def run(self, runner, quiet=False, capture=True):
        result = orig(self, runner, quiet, capture)
        ok = (result is False) == bool(self.status.has_failed())
        lab._mon.check("steprun.return_iff_not_failed", ok and isinstance(result, bool),
                       lambda: dict(step=self.name, returned=result, status=self.status.name))
        return result
    run._bvm_wrapped = True
    model.Step.run = run


def run_one(lab, mon, case, sample=False, **kw):
    obs = lab.run(case["program"], args=case["args"], continue_after_failed_step=case["cfg"].get("cafs", False), **kw)
    for cls in obs.seen_error_classes:
        mon.seen("error_exception_class", cls)
    pred = runmodel.predict(case["program"], case["cfg"])
    nontriv = RB.nonpass_count(case) > 0 or sum(len(i["steps"]) for i in pred.instances) >= 2
    mon.case(RB.strip_case(case), nontriv)
    mon.check("steps.no_exception_escapes", obs.escaped is None, lambda: RB.witness(case, escaped=repr(obs.escaped)))
    if obs.escaped is None:
        RB.check_steps(mon, case, obs, pred)
    if sample:
        mon.sample({"features": RB.case_texts(case), "args": case["args"], "outcomes": case["program"]["outcomes"],
                    "observed_calls": obs.calls, "observed_step_status": obs.step_status})
    return obs, pred


def history_retry(lab, mon, rng):
    """Same Scenario objects run 2-3 times by scenario_autoretry, outcomes differ per attempt."""
    from behave.contrib.scenario_autoretry import patch_scenario_with_autoretry
    outs = [o for o in OUTCOMES if o not in ("ki",)]
    case = RB.gen_case(rng, tags=False, p_stop=0, p_dry=0, p_noskipped=0,
                       gen={"max_features": 1, "outcomes": outs, "p_nonpass": 0.5, "p_outline": 0.25})
    program = case["program"]
    max_attempts = rng.choice([2, 3])
    insts = [i for f in program["features"] for i in iter_scenario_instances(f)]
    # per scenario: list of outcome overrides per attempt (attempt 1 = the base table)
    per_attempt = {}
    for i in insts:
        alts = []
        for a in range(max_attempts - 1):
            ov = {}
            for s in i["steps"]:
                f = s["final"]
                if f[0] in "ka":
                    allowed = ["pass", "pass", "fail", "error", "pending", "skip"]
                    ov[f] = rng.choice(allowed)
            alts.append(ov)
        per_attempt[i["name"]] = alts
    attempt = {}
    base = dict(program["outcomes"])

    def plug(state, context, name, elem, tag):
        if name == "before_scenario":
            n = attempt.get(elem.name, 0)
            attempt[elem.name] = n + 1
            table = dict(base)
            if n >= 1:
                table.update(per_attempt[elem.name][n - 1])
            state.outcomes = table

    def pre_run(st):
        for f in st.features:
            for s in f.walk_scenarios(with_outlines=True):
                if not isinstance(s, lab.ScenarioOutline):
                    continue
                _ = s.scenarios
            if patch_style == "rows":
                for s in f.walk_scenarios():
                    patch_scenario_with_autoretry(s, max_attempts=max_attempts)
            else:
                # the documented idiom: patch what feature.scenarios / rule.scenarios hold -- plain scenarios AND outline objects
                # (the function patches every row of an outline itself)
                for container in [f] + list(f.rules):
                    for s in container.scenarios:
                        patch_scenario_with_autoretry(s, max_attempts=max_attempts)
    patch_style = rng.choice(["rows", "as_listed"])
    mon.seen("autoretry_patch_style", patch_style)
    obs = lab.run(program, args=[], hook_plugins=[plug], pre_run=pre_run)
    hist = {"max_attempts": max_attempts, "per_attempt": per_attempt}
    mon.case(("retry", RB.strip_case(case), hist), True)
    if obs.escaped is not None:
        mon.check("history.no_exception_escapes", False, lambda: RB.witness(case, escaped=repr(obs.escaped), history=hist))
        return
    # expected: per scenario simulate attempts with the model on a one-scenario view
    for i in insts:
        name = i["name"]
        nrun = attempt.get(name, 0)
        table = dict(base)
        exp_calls = []
        last_sts = None
        expected_attempts = 0
        for a in range(max_attempts):
            if a >= 1:
                table.update(per_attempt[name][a - 1])
            sub = runmodel.predict({"features": program["features"], "outcomes": table}, case["cfg"])
            exp_calls.extend(c for c in sub.calls if c[0] == name)
            last_sts = sub.step_status[name]
            expected_attempts += 1
            if not sub.scen_failed[name]:
                break
            if any("skipped" in s and len(s) == 1 for s in []):
                break
        got_calls = [c for c in obs.calls if c[0] == name]
        # a step that skipped its scenario makes the skip sticky (public API): later attempts cannot happen
        # because a skipping attempt does not fail.
        mon.check("history.retry_attempts", nrun == expected_attempts,
                  lambda: RB.witness(case, scenario=name, attempts=nrun, want=expected_attempts, history=hist))
        mon.check("history.retry_calls", got_calls == exp_calls,
                  lambda: RB.witness(case, scenario=name, got=got_calls, want=exp_calls, history=hist))
        got = obs.step_status.get(name)
        ok = got is not None and len(got) == len(last_sts) and all(g in w for g, w in zip(got, last_sts))
        mon.check("history.retry_final_status", ok,
                  lambda: RB.witness(case, scenario=name, got=got, want=[sorted(w) for w in last_sts], history=hist))


def history_second_run(lab, mon, rng):
    """ModelRunner.run() twice on the same model objects with a different outcome table."""
    outs = [o for o in OUTCOMES if o not in ("ki", "skip")]
    case = RB.gen_case(rng, p_dry=0.1, gen={"outcomes": outs, "p_nonpass": 0.4})
    program = case["program"]
    table2 = {}
    for text, oc in program["outcomes"].items():
        table2[text] = oc if oc in ("undefined", "conv") else rng.choice(["pass", "pass", "fail", "error", "pending"])
    second = {}

    def second_run(st):
        st.calls[:] = []
        st.hooks[:] = []
        st.outcomes = table2
        second["verdict"] = st.runner.run()
    obs = lab.run(program, args=case["args"], second_run=second_run)
    case2 = {"program": {"features": program["features"], "outcomes": table2}, "args": case["args"], "cfg": case["cfg"]}
    mon.case(("second", RB.strip_case(case), table2), True)
    if obs.escaped is not None:
        mon.check("history.no_exception_escapes", False, lambda: RB.witness(case, escaped=repr(obs.escaped), second_table=table2))
        return
    pred = runmodel.predict(case2["program"], case2["cfg"])
    mon.check("history.second_run_calls", obs.calls == pred.calls,
              lambda: RB.witness(case2, got=obs.calls, want=pred.calls, first_table=program["outcomes"]))
    for name, want in pred.step_status.items():
        if not pred.started.get(name):
            continue        # not re-run in the second run (cut by --stop/abort): keeps whatever the first run left
        got = obs.step_status.get(name)
        ok = got is not None and len(got) == len(want) and all(g in w for g, w in zip(got, want))
        mon.check("history.second_run_status", ok,
                  lambda: RB.witness(case2, scenario=name, got=got, want=[sorted(w) for w in want], first_table=program["outcomes"]))
    mon.check("history.second_run_verdict", bool(second.get("verdict")) in pred.verdict,
              lambda: RB.witness(case2, got=second.get("verdict"), want=sorted(pred.verdict), first_table=program["outcomes"]))


def run(spec, mon):
    from ..lab.inproc import RunLab
    lab = RunLab()
    lab._mon = mon
    install_step_wrapper(lab, mon)
    tier = spec.get("tier", "quick")
    rng = random.Random(spec["seed"])
    shard, of = spec["shard"], spec["of"]
    maxlen = 3 if tier == "quick" else 4
    idx = 0
    for L in range(1, maxlen + 1):
        for seq in itertools.product(OUTCOMES, repeat=L):
            for bgdepth in (0, 1, 2):
                if bgdepth > L:
                    continue
                for as_row in (False, True):
                    for variant in ("plain", "wip", "dry"):
                        idx += 1
                        if idx % of != shard:
                            continue
                        if tier == "quick" and L == 3 and (idx // of) % 3:
                            continue
                        case = build_seq_case(seq, bgdepth, as_row, variant, flavour_async=(idx % 5 == 0))
                        run_one(lab, mon, case, sample=(idx % 20011 == 0))
                        mon.count("exhaustive_sequences")
    for i in range(60 if tier == "quick" else 4000):
        if i % 3 == 0:
            # continue_after_failed_step: what runs after an undefined step is not demanded, so an abort hidden
            # behind one could not be predicted -- KeyboardInterrupt outcomes are left out of these cases
            case = RB.gen_case(rng, p_names=0.1, gen={"outcomes": [o for o in OUTCOMES if o != "ki"], "p_bg_param": 0.3, "p_repeat_text": 0.2})
            case["cfg"]["cafs"] = True
        else:
            # backgrounds at both levels, outlines inside rules, examples placeholders inside background steps
            case = RB.gen_case(rng, p_names=0.1, gen={"p_bg_param": 0.4, "p_background": 0.7, "p_rule_background": 0.6, "value_columns": ["x", "service status", "step-outcome"],
                                                      "p_outline": 0.45, "p_repeat_text": 0.3, "max_steps": 4, "p_reserved_step": 0.5} if i % 3 == 1 else
                               {"p_bg_param": 0.3, "p_cuke": 0.2, "outcomes": OUTCOMES + ["skip_feature", "skip_rule"],
                                "weights": {"skip_feature": 3.0, "skip_rule": 2.0}, "p_nonpass": 0.25})
            for oc in ("skip_feature", "skip_rule"):
                if oc in case["program"]["outcomes"].values():
                    mon.seen("step_skips_rest_of", oc.split("_")[1])
        if "<" in repr([[st["text"] for st in (f.get("background") or {}).get("steps", [])] for f in case["program"]["features"]]):
            mon.seen("background_step_with_placeholder", "feature")
        if case["program"].get("reserved_in_step_text"):
            mon.seen("outline_step_text", "with_special_placeholder")
        if RB.texts_under_several_keywords(case["program"]):
            # (texts whose id ends in 0 have one definition per step type in the lab: the definition of the step's OWN type is called)
            mon.seen("step_text_repeated", "under_another_keyword")
        run_one(lab, mon, case, sample=(i == 0 and shard == 0))
    # ---- the same through `python -m behave` (step modules loaded from a steps directory with two modules) -------
    from ..lab.subproc import Project
    for i in range(2 if tier == "quick" else 20):
        # (every other project has no step module that imports its sibling: each step module is then loaded exactly once)
        case = RB.gen_case(rng, p_dry=0.1, gen={"p_bg_param": 0.3, "p_cuke": 0.3 if i % 2 else 0.0})
        mon.seen("steps_directory", "with_module_importing_its_sibling" if any(t[:1] == "c" for t in case["program"]["outcomes"]) else "every_module_loaded_once")
        if any(t[:1] == "c" for t in case["program"]["outcomes"]):
            mon.seen("step_definition_kind", "parameterless_cucumber_expression")
        pred = runmodel.predict(case["program"], case["cfg"])
        proj = Project(case["program"], {})
        try:
            res = proj.run(case["args"] + ["-f", "plain"], environment=RB.pick_environment(rng, mon))
        finally:
            proj.close()
        mon.case(("sub", RB.strip_case(case)), True)
        if res.get("timeout"):
            mon.note("subprocess watchdog fired (inconclusive case)")
            continue
        calls = [(e[1], e[2]) for e in res["events"] if e[0] == "step"]
        mon.check("steps.subprocess_call_log", calls == pred.calls,
                  lambda: RB.witness(case, got=calls, want=pred.calls, stdout=res["stdout"][-800:], stderr=res["stderr"][-400:]))
    for i in range(12 if tier == "quick" else 500):
        history_retry(lab, mon, rng)
        history_second_run(lab, mon, rng)


def replay(case, mon):
    from ..lab.inproc import RunLab
    lab = RunLab()
    lab._mon = mon
    install_step_wrapper(lab, mon)
    if isinstance(case, dict) and "program" in case:
        obs, pred = run_one(lab, mon, case)
        print("calls:", obs.calls, "\nmodel:", pred.calls, "\nstatus:", obs.step_status)
    else:
        print("history cases: re-run the check with the same seed")


LEVEL_TEXT = ("Exploration with an exhaustive core: every outcome sequence up to the length bound, at every background "
              "depth, as scenario and as outline row, plain/@wip/dry-run, is executed by the real runner under recording "
              "step functions; the call log must equal the reference model's exactly and every step status must be the "
              "one the outcome table demands; a harness-installed post-condition on Step.run checks the keep-going "
              "contract on every call; two-attempt/three-attempt auto-retry histories and second-run histories must "
              "end in the statuses of the latest attempt.")
LEVEL_NOTE = "Trusted: reference model; generated shapes; continue_after_failed_step demands only order/status mapping."
TECHNIQUE = "runtime monitoring: recorded call history vs executable reference model, post-condition wrapper on Step.run, re-run histories"
