"""C15 -- formatter event protocol well formed; JSON/plain/progress reports mirror the model."""
from __future__ import annotations

import io
import json
import os
import shutil
import sys
import tempfile
import random
import re

from . import runbase as RB
from ..gen.prog import OUTCOMES, iter_scenario_instances
from ..ref import runmodel

ID = "C15"
LEVEL = "exploration"
BUILTINS = ["plain", "pretty", "json", "json.pretty", "progress", "progress2", "progress3", "null", "rerun",
            "tags", "tags.location"]
RULE = ("runs of C01-C03 style programs (backgrounds at feature and rule level, outlines, skipped and failing scenarios, "
        "steps with tables/doc-strings, unicode) with a random subset and order of the built-in formatters %s active "
        "simultaneously (each wrapped in a recording proxy, plus one recording formatter), random show_skipped / "
        "show_multiline / show_timings / colour, --stop, dry-run; (1) an automaton checks every recorded event stream, "
        "(2) the JSON output is parsed and compared with the model after the run and read back with JsonParser, "
        "(3) plain / progress2 / progress3 text is parsed and compared with the processed steps. A case = one run; "
        "A process sample runs `-f json -o FILE -f pretty` from a pty whose window size reports zeros in either dimension. "
        "non-trivial = >=2 shown scenarios and >=3 formatters; distinct by hash of (program, args, formatter list)."
        % BUILTINS)
ASSUMPTIONS = [
    "'processed step' = a step for which a result event was sent",
    "rules do not appear in the JSON report (its documented element types are background/scenario); structure is compared modulo rules",
    "colours/terminal control sequences and timings are not compared",
]
REQUIRED = {"wild.formatter_events_grammar": {"quick": 8, "thorough": 300}, "events.grammar": {"quick": 600, "thorough": 30000}, "events.all_formatters_same_stream": {"quick": 600, "thorough": 30000},
            "json.valid": {"quick": 300, "thorough": 15000}, "json.scenario_status": {"quick": 1500, "thorough": 80000},
            "json.step_result": {"quick": 3000, "thorough": 150000}, "pretty.coloured_terminal_shows_what_monochrome_prints": {"quick": 400, "thorough": 15000},
            "json.match_arguments_name_the_matched_text": {"quick": 2000, "thorough": 100000}, "json.readback": {"quick": 300, "thorough": 15000},
            "plain.steps": {"quick": 1000, "thorough": 50000}, "progress2.chars": {"quick": 200, "thorough": 10000},
            "progress3.chars": {"quick": 500, "thorough": 25000}, "json.readback_file": {"quick": 100, "thorough": 300},
            "factory.own_file_has_own_report": {"quick": 150, "thorough": 6000},
            "factory.formatter_without_file_writes_stdout": {"quick": 50, "thorough": 2000}}
REQUIRED_SEEN = {"nested_sub_step": ["fail", "undefined", "error"], "json_report_written_in": ["c_locale", "latin1_console"], "terminal_size_reported": ["some_rows_some_columns", "some_rows_zero_columns", "zero_rows_some_columns", "zero_rows_zero_columns"], "environment_habit": ["raising_testrun_cleanup", "no_background_fixture_with_status_reading_hooks"], "config_file_outfiles": ["given", "none"], "formatter_active": BUILTINS, "pretty_step_line_length": ["at_a_multiple_of_the_terminal_width", "next_to_a_multiple"]}
NSHARDS = {"quick": 16, "thorough": 16}
DOT = {"passed": ".", "failed": "F", "error": "E", "hook_error": "H", "skipped": "S", "untested": "_",
       "untested_pending": "p", "untested_undefined": "u", "undefined": "U", "pending": "P", "pending_warn": "p"}


def plan(tier, seed):
    n = NSHARDS[tier]
    return [{"shard": i, "of": n, "seed": seed * 1000 + i} for i in range(n)]


# ---------------------------------------------------------------------------
# recording
# ---------------------------------------------------------------------------
class Recorder(object):
    """Records the formatter protocol; optionally delegates to a wrapped built-in formatter."""
    def __init__(self, name, inner=None, log=None):
        self.name = name
        self.inner = inner
        self.events = []
        self.errors = []

    def _fwd(self, method, *args):
        if self.inner is not None:
            fn = getattr(self.inner, method, None)
            if fn is not None:
                try:
                    fn(*args)
                except Exception as ex:      # a raising formatter is an observation
                    self.errors.append("%s.%s: %r" % (self.name, method, ex))

    def uri(self, uri):
        self.events.append(("uri", uri))
        self._fwd("uri", uri)

    def feature(self, feature):
        self.events.append(("feature", feature.name))
        self._fwd("feature", feature)

    def rule(self, rule):
        self.events.append(("rule", rule.name))
        self._fwd("rule", rule)

    def background(self, background):
        self.events.append(("background", [s.name for s in background.steps]))
        self._fwd("background", background)

    def scenario(self, scenario):
        self.events.append(("scenario", scenario.name))
        self._fwd("scenario", scenario)

    def step(self, step):
        self.events.append(("step", step.name, id(step)))
        self._fwd("step", step)

    def match(self, match):
        self.events.append(("match", bool(getattr(match, "location", None))))
        try:
            self._last_match_args = [(a.name, a.original, a.value) for a in (match.arguments or [])]
        except Exception:
            self._last_match_args = None
        self._fwd("match", match)

    def result(self, step):
        self.events.append(("result", step.name, step.status.name, id(step)))
        if getattr(self, "_last_match_args", None) is not None:
            self.__dict__.setdefault("match_args", {})[id(step)] = self._last_match_args
            self._last_match_args = None
        self._fwd("result", step)

    def eof(self):
        self.events.append(("eof",))
        self._fwd("eof")

    def close(self):
        self.events.append(("close",))
        self._fwd("close")

    # rule_finished etc. are looked up with getattr(formatter, name, None) by the runner
    def __getattr__(self, item):
        if item.endswith("_finished"):
            def f(*a):
                self.events.append((item,))
                self._fwd(item, *a)
            return f
        raise AttributeError(item)


def check_grammar(events, cafs=False):
    """uri for every feature; feature..eof only for shown ones.
    (uri (feature background? (rule background? | scenario step* (match result)*)* eof)?)* close"""
    errors = []
    state = "top"       # top | feature | scenario
    in_feature = False
    scen = None
    announced = []
    nres = 0
    pending_match = False
    closes = 0
    last_uri = False
    results_by_scenario = {}
    for i, e in enumerate(events):
        k = e[0]
        if closes:
            errors.append("#%d %s after close" % (i, k))
        if pending_match and k != "result":
            errors.append("#%d match not followed by its result (next: %s)" % (i, k))
            pending_match = False
        if k == "uri":
            if in_feature:
                errors.append("#%d uri inside a feature (missing eof)" % i)
                in_feature = False
            scen = None
        elif k == "feature":
            if in_feature:
                errors.append("#%d feature inside a feature" % i)
            if not (i > 0 and events[i - 1][0] == "uri"):
                errors.append("#%d feature not directly after its uri" % i)
            in_feature = True
            scen = None
        elif k == "background":
            if not in_feature:
                errors.append("#%d background outside a feature" % i)
            elif events[i - 1][0] not in ("feature", "rule"):
                errors.append("#%d background not directly after feature/rule" % i)
        elif k == "rule":
            if not in_feature:
                errors.append("#%d rule outside a feature" % i)
            scen = None
        elif k == "rule_finished":
            scen = None
        elif k == "scenario":
            if not in_feature:
                errors.append("#%d scenario outside a feature" % i)
            scen = e[1]
            announced = []
            nres = 0
            results_by_scenario[scen] = []
        elif k == "step":
            if scen is None:
                errors.append("#%d step outside a scenario" % i)
            elif nres or (i > 0 and events[i - 1][0] in ("match", "result")):
                errors.append("#%d step announced after the first match/result of %s" % (i, scen))
            announced.append(e)
        elif k == "match":
            if scen is None:
                errors.append("#%d match outside a scenario" % i)
            pending_match = True
        elif k == "result":
            if scen is None:
                errors.append("#%d result outside a scenario" % i)
                continue
            if not pending_match:
                errors.append("#%d result without preceding match in %s" % (i, scen))
            pending_match = False
            if nres >= len(announced):
                errors.append("#%d more results than announced steps in %s" % (i, scen))
            elif not cafs and announced[nres][2] != e[3]:
                errors.append("#%d result #%d of %s is for step %r, the %d-th announced step is %r"
                              % (i, nres + 1, scen, e[1], nres + 1, announced[nres][1]))
            results_by_scenario[scen].append((e[1], e[2]))
            nres += 1
        elif k == "eof":
            if not in_feature:
                errors.append("#%d eof without feature" % i)
            in_feature = False
            scen = None
        elif k == "close":
            closes += 1
            if in_feature:
                errors.append("#%d close inside a feature" % i)
    if closes != 1:
        errors.append("close called %d times" % closes)
    return errors, results_by_scenario


# ---------------------------------------------------------------------------
def make_formatters(names, config, streams):
    from behave.formatter._registry import select_formatter_class
    from behave.formatter.base import StreamOpener
    recs = []
    for i, name in enumerate(names):
        buf = io.StringIO()
        buf.name = "<%s-%d>" % (name, i)
        streams.append((name, buf))
        cls = select_formatter_class(name)
        inner = cls(StreamOpener(stream=buf), config)
        recs.append(Recorder("%s#%d" % (name, i), inner))
    return recs


def shown_scenarios(rec):
    return [e[1] for e in rec.events if e[0] == "scenario"]


def check_json(mon, case, obs, text, rec, W, dry_undefined):
    try:
        data = json.loads(text)
    except Exception as ex:
        mon.check("json.valid", False, lambda: W(error=repr(ex), text=text[:400]))
        return
    mon.check("json.valid", isinstance(data, list), lambda: W(text=text[:200]))
    # features that were shown (got feature..eof events)
    shown_features = [e[1] for e in rec.events if e[0] == "feature"]
    mon.check("json.features", [f.get("name") for f in data] == shown_features,
              lambda: W(got=[f.get("name") for f in data], want=shown_features))
    by_name = {f.name: f for f in obs.features}
    results = check_grammar(rec.events, True)[1]
    for jf in data:
        f = by_name.get(jf.get("name"))
        if f is None:
            continue
        mon.check("json.feature_fields", jf.get("keyword") == f.keyword and jf.get("tags") == list(f.tags) and
                  jf.get("location") == str(f.location) and jf.get("status") == f.status.name and
                  jf.get("description", []) == list(f.description),
                  lambda: W(feature=f.name, got={k: jf.get(k) for k in ("keyword", "tags", "location", "status")},
                            want={"keyword": f.keyword, "tags": list(f.tags), "location": str(f.location), "status": f.status.name}))
        elements = jf.get("elements", [])
        scen_elems = [e for e in elements if e.get("type") == "scenario"]
        shown = [s for s in f.walk_scenarios() if s.name in results]
        mon.check("json.scenarios", [e.get("name") for e in scen_elems] == [s.name for s in shown],
                  lambda: W(feature=f.name, got=[e.get("name") for e in scen_elems], want=[s.name for s in shown]))
        for e, s in zip(scen_elems, shown):
            if e.get("name") != s.name:
                continue
            mon.check("json.scenario_status", e.get("status") == s.status.name,
                      lambda: W(scenario=s.name, got=e.get("status"), want=s.status.name, element_types=[x.get("type") for x in elements]))
            mon.check("json.scenario_fields", e.get("keyword") == s.keyword and e.get("tags") == list(s.tags) and
                      e.get("location") == str(s.location),
                      lambda: W(scenario=s.name, got={k: e.get(k) for k in ("keyword", "tags", "location")}))
            steps = list(s.all_steps)
            jsteps = e.get("steps", [])
            mon.check("json.steps", [(j.get("name"), j.get("keyword"), j.get("step_type"), j.get("location")) for j in jsteps] ==
                      [(x.name, x.keyword, x.step_type, str(x.location)) for x in steps],
                      lambda: W(scenario=s.name, got=[j.get("name") for j in jsteps], want=[x.name for x in steps]))
            got_results = results.get(s.name, [])
            for idx, (j, x) in enumerate(zip(jsteps, steps)):
                # tables / doc-strings
                if x.table is not None and x.table.rows:
                    mon.check("json.table", j.get("table") == {"headings": list(x.table.headings), "rows": [list(r) for r in x.table.rows]},
                              lambda: W(scenario=s.name, step=x.name, got=j.get("table")))
                if x.text:
                    jt = j.get("text")
                    jt = "\n".join(jt) if isinstance(jt, list) else jt
                    mon.check("json.docstring", jt == str(x.text), lambda: W(scenario=s.name, step=x.name, got=j.get("text"), want=str(x.text)))
                # the arguments of the match: the report names, for every argument, the text that was matched in the step
                # (as "original" when the converted value is something else, otherwise the value IS that text)
                margs = rec.__dict__.get("match_args", {}).get(id(x))
                if margs is not None and isinstance(j.get("match"), dict) and x.status.name in ("passed", "failed", "error", "skipped"):
                    jargs = j["match"].get("arguments", [])
                    texts = [a.get("original", a.get("value")) for a in jargs]
                    want_texts = [orig for (_n, orig, _v) in margs]
                    mon.check("json.match_arguments_name_the_matched_text",
                              len(jargs) == len(margs) and all(str(t) == str(w) for t, w in zip(texts, want_texts) if w is not None)
                              and all(w is not None and str(w) in x.name for w in want_texts if w is not None),
                              lambda: W(scenario=s.name, step=x.name, report=jargs, match_event=[list(map(repr, m)) for m in margs]))
                had_event = any(r[0] == x.name for r in got_results) and idx < len(jsteps)
                sent = [r for r in got_results if r[0] == x.name]
                if "result" in j:
                    mon.check("json.step_result", j["result"].get("status") == x.status.name and bool(sent),
                              lambda: W(scenario=s.name, step=x.name, got=j["result"].get("status"), want=x.status.name,
                                        result_event_sent=bool(sent), dry_run_with_undefined=dry_undefined))
                else:
                    mon.check("json.no_result_without_event", not sent,
                              lambda: W(scenario=s.name, step=x.name, note="result event was sent but the report has none",
                                        dry_run_with_undefined=dry_undefined))
        # backgrounds carry no status of their own
        for e in elements:
            if e.get("type") == "background":
                mon.check("json.background_has_no_scenario_status", "status" not in e or e.get("status") is None,
                          lambda: W(feature=f.name, background_status=e.get("status")))
    # ---- read back ------------------------------------------------------------------------------
    try:
        from behave.json_parser import JsonParser
        feats = JsonParser().parse_features(data)
        got = []
        for f2 in feats:
            for s2 in f2.walk_scenarios():
                got.append((s2.name, [(x.name, x.status.name) for x in s2.all_steps]))
        want = []
        for jf in data:
            f = by_name.get(jf.get("name"))
            for s in f.walk_scenarios():
                if s.name in results:
                    want.append((s.name, [(x.name, x.status.name if any(r[0] == x.name for r in results[s.name]) else "untested")
                                          for x in s.all_steps]))
        mon.check("json.readback", got == want and [f2.name for f2 in feats] == [jf.get("name") for jf in data],
                  lambda: W(got=got[:4], want=want[:4], dry_run_with_undefined=dry_undefined))
    except Exception as ex:
        mon.check("json.readback", False, lambda: W(error=repr(ex)))
        return
    # ---- the file based entry point -------------------------------------------------------------
    if len(text) < 20000 and mon.counters.get("json.readback_file", 0) < 400:
        import os
        import tempfile
        from behave import json_parser
        fd, path = tempfile.mkstemp(suffix=".json", prefix="bvm-")
        try:
            with os.fdopen(fd, "w", encoding="utf-8") as fh:
                fh.write(text)
            feats2 = json_parser.parse(path)
            got2 = [(s2.name, [(x.name, x.status.name) for x in s2.all_steps]) for f2 in feats2 for s2 in f2.walk_scenarios()]
            mon.check("json.readback_file", got2 == want, lambda: W(got=got2[:4], want=want[:4]))
        except Exception as ex:
            mon.check("json.readback_file", False, lambda: W(error=repr(ex)))
        finally:
            os.remove(path)


def check_plain(mon, case, obs, text, rec, W, show_timings, dry_undefined):
    results = check_grammar(rec.events, True)[1]
    # per scenario: lines "<indent><keyword> <name> ... <status>[ in 0.000s]"
    lines = text.splitlines()
    step_line = re.compile(r"^\s+(.*?) \.\.\. ([a-z_]+)( in [0-9.]+s)?$")
    current = None
    got = {}
    names = set(results)
    for ln in lines:
        m = re.match(r"^\s*(?:Scenario|Scenario Outline|Example|Scenario Template): (.*)$", ln)
        if m and m.group(1) in names:
            current = m.group(1)
            got[current] = []
            continue
        m = step_line.match(ln)
        if m and current is not None:
            got[current].append((m.group(1), m.group(2)))
    by_name = {}
    for f in obs.features:
        for s in f.walk_scenarios():
            by_name[s.name] = s
    for sname, res in results.items():
        s = by_name.get(sname)
        if s is None:
            continue
        steps = {x.name: x for x in s.all_steps}
        want = [("%s %s" % (steps[n].keyword, n) if n in steps else n, st) for n, st in res]
        mon.check("plain.steps", got.get(sname, []) == want,
                  lambda: W(scenario=sname, got=got.get(sname), want=want, dry_run_with_undefined=dry_undefined))


def check_progress2(mon, case, obs, text, rec, W, dry_undefined):
    results = check_grammar(rec.events, True)[1]
    feats = [e[1] for e in rec.events if e[0] == "feature"]
    by_name = {f.name: f for f in obs.features}
    for fname in feats:
        f = by_name[fname]
        want = ""
        for s in f.walk_scenarios():
            for n, st in results.get(s.name, []):
                want += DOT.get(st, "?")
        m = re.search(r"^%s  ([^\s]*)" % re.escape(str(f.filename)), text, re.M)
        got = m.group(1) if m else None
        mon.check("progress2.chars", got == want, lambda: W(feature=fname, got=got, want=want, dry_run_with_undefined=dry_undefined))
    # failure / error blocks: each failing processed step is reported exactly once, in the segment of its own feature
    segs = {}
    cur = None
    files = {str(by_name[n].filename): n for n in feats}
    for ln in text.splitlines():
        hit = [fn for fn in files if ln.startswith(fn + "  ")]
        if hit:
            cur = files[hit[0]]
            segs[cur] = []
            continue
        m = re.match(r"^(FAILURE|ERROR) in step '(.*)':$", ln)
        if m and cur is not None:
            segs[cur].append((m.group(1), m.group(2)))
    for fname in feats:
        f = by_name[fname]
        want_f, want_e = [], []
        for s in f.walk_scenarios():
            for n, st in results.get(s.name, []):
                if st == "failed":
                    want_f.append(("FAILURE", n))
                elif st in RB.ERROR_CLASS:
                    want_e.append(("ERROR", n))
        got_blocks = segs.get(fname, [])
        mon.check("progress2.problem_blocks", got_blocks == want_f + want_e,
                  lambda: W(feature=fname, got=got_blocks, want=want_f + want_e))


def check_progress3(mon, case, obs, text, rec, W, dry_undefined):
    results = check_grammar(rec.events, True)[1]
    for sname, res in results.items():
        want = "".join(DOT.get(st, "?") for n, st in res)
        nm = sname + " " if sname else ""
        m = re.search(r"^ {2,4}%s ([.FEHSUPpu_]*)(?:  # [0-9.]+s)?$" % re.escape(nm), text, re.M)
        got = m.group(1) if m else None
        mon.check("progress3.chars", got == want, lambda: W(scenario=sname, got=got, want=want, dry_run_with_undefined=dry_undefined))


def is_subsequence(small, big):
    it = iter(big)
    return all(ch in it for ch in small)

def check_renderers(mon, obs):
    """The table / doc-string renderers the text formatters use (ModelDescriptor): what they print is Gherkin for the same
    table / text -- re-parsing it gives the model's cells and text back."""
    from behave.model_describe import ModelDescriptor
    from behave.parser import parse_steps
    for f in obs.features:
        for s in f.walk_scenarios():
            for step in s.all_steps:
                if step.table is not None:
                    text = ModelDescriptor.describe_table(step.table, "      ")
                    want = ([str(h) for h in step.table.headings], [[str(c) for c in r.cells] for r in step.table.rows])
                    try:
                        back = parse_steps(u"Given a step\n" + text)[0].table
                        got = ([str(h) for h in back.headings], [[str(c) for c in r.cells] for r in back.rows])
                    except Exception as ex:
                        got = repr(ex)
                    mon.check("render.table_reparses_to_the_same_cells", got == want, lambda: dict(rendered=text, got=got, want=want))
                if step.text is not None:
                    text = ModelDescriptor.describe_docstring(step.text, "      ")
                    try:
                        got = str(parse_steps(u"Given a step\n" + text)[0].text)
                    except Exception as ex:
                        got = repr(ex)
                    mon.check("render.docstring_reparses_to_the_same_text", got == str(step.text),
                              lambda: dict(rendered=text, got=got, want=str(step.text)))


def run_case(lab, mon, case, names, sample=False, real_files=None):
    """real_files=k: additionally the REAL factory (behave.formatter._registry.make_formatters) builds the same formatter list
    with output files for the first k formatters only (the rest write to stdout), as `-f .. -o .. -f ..` does."""
    streams = []
    recs = []
    real = []
    tmpdir = tempfile.mkdtemp(prefix="bvm-fmt-") if real_files is not None else None

    def outpath(i):
        # every second output file below directories that do not exist yet, several levels deep (-o build/reports/json/out.txt)
        if i % 2:
            return os.path.join(tmpdir, "build", "reports", "kind%d" % i, "out%d.txt" % i)
        return os.path.join(tmpdir, "out%d.txt" % i)

    def formatters(config, st):
        recs[:] = make_formatters(names, config, streams) + [Recorder("recording")]
        if real_files is None:
            return recs
        from behave.formatter._registry import make_formatters as real_make_formatters
        from behave.formatter.base import StreamOpener
        config.format = list(names)
        openers[:] = [StreamOpener(filename=outpath(i)) for i in range(real_files)]
        try:
            real[:] = real_make_formatters(config, openers)
        except Exception as ex:
            # the factory must be able to open every output file it was given (missing directories are created)
            mon.check("factory.opens_every_output_file", False,
                      lambda: dict(formats=list(names), output_files=[os.path.relpath(outpath(i), tmpdir) for i in range(real_files)], error=repr(ex)))
            real[:] = []
            return recs
        mon.check("factory.opens_every_output_file", True)
        return real + recs
    openers = []
    streams2 = []
    second = {}
    first_files = {}

    def second_run(st):
        # a second run in the same process with the SAME Configuration and the same output openers (Runner(config).run() twice)
        from behave.formatter._registry import make_formatters as real_make_formatters
        from behave.model import reset_model
        if real_files and not real:
            return          # the factory already failed for run 1 (reported there)
        for i in range(real_files):                 # what run 1 wrote, before run 2 writes the files again
            try:
                with open(outpath(i), encoding="utf-8") as fh:
                    first_files[i] = fh.read()
            except OSError:
                first_files[i] = None
        reset_model(st.features)
        recs2 = make_formatters(names, st.config, streams2)
        st.runner.formatters = real_make_formatters(st.config, openers) + recs2
        try:
            st.runner.run()
            second["ok"] = True
        except BaseException as ex:       # noqa
            second["error"] = repr(ex)
    nested = case.get("nested") or {}
    busy = [False]

    def nest_plugin(state, context, text):
        if text in nested and not busy[0]:
            busy[0] = True
            try:
                context.execute_steps(u"Given %s\n" % nested[text])
            finally:
                busy[0] = False
    try:
        obs = lab.run(case["program"], args=case["args"], formatters=formatters, hook_fault=case.get("hook_fault"),
                      step_plugins=[nest_plugin] if nested else [],
                      second_run=(second_run if (real_files and not case.get("hook_fault")) else None))
        if second:
            W2 = lambda **kw: RB.witness(case, formatters=names, output_files=real_files, **kw)
            mon.check("factory.second_run_with_same_configuration", "error" not in second, lambda: W2(error=second.get("error")))
            if "error" not in second:
                for i in range(real_files):
                    path = outpath(i)
                    try:
                        with open(path, encoding="utf-8") as fh:
                            content = fh.read()
                    except OSError:
                        content = None
                    want2 = streams2[i][1].getvalue()
                    if not (names[i] == "rerun" and not want2):
                        mon.check("factory.second_run_with_same_configuration", content == want2,
                                  lambda: W2(index=i, name=names[i], got=(content or "")[:200], want=want2[:200]))
        if real_files is not None and obs.escaped is None and len(real) == len(names):
            mon.seen("real_factory_files_of_formatters", "%d/%d" % (real_files, len(names)))
            W0 = lambda **kw: RB.witness(case, formatters=names, output_files=real_files, **kw)
            for i in range(real_files):
                path = outpath(i)
                if i in first_files:
                    content = first_files[i]
                else:
                    try:
                        with open(path, encoding="utf-8") as fh:
                            content = fh.read()
                    except OSError:
                        content = None
                want = streams[i][1].getvalue()
                if names[i] == "rerun" and not want:
                    mon.check("factory.own_file_has_own_report", content in (None, ""), lambda: W0(index=i, name=names[i], got=content))
                else:
                    mon.check("factory.own_file_has_own_report", content == want,
                              lambda: W0(index=i, name=names[i], got=(content or "")[:300], want=want[:300]))
            rest = [j for j in range(real_files, len(names))]
            out_text = obs.real_out.getvalue()
            for j in rest:
                want = streams[j][1].getvalue()
                if len(rest) == 1:
                    # other writers (hook error reports, the summary) interleave with the formatter on stdout: its report has
                    # to be there in order, not contiguously
                    mon.check("factory.formatter_without_file_writes_stdout", is_subsequence(want, out_text),
                              lambda: W0(index=j, name=names[j], want=want[:300], stdout=out_text[:300]))
    finally:
        if tmpdir:
            shutil.rmtree(tmpdir, ignore_errors=True)
    pred = runmodel.predict(case["program"], case["cfg"])
    dry_undefined = bool(case["cfg"]["dry_run"]) and any(
        not runmodel.step_defined(s["final"]) for i in pred.instances if pred.selected[i["name"]] for s in i["steps"])
    W = lambda **kw: RB.witness(case, formatters=names, **kw)
    mon.check("run.no_exception_escapes", obs.escaped is None, lambda: W(escaped=repr(obs.escaped)))
    if obs.escaped is not None or not recs:
        return
    RB.check_identity(mon, obs, case, prefix="json")
    check_renderers(mon, obs)
    rec = recs[-1]
    nshown = len(shown_scenarios(rec))
    mon.case((RB.strip_case(case), names), nshown >= 2 and len(names) >= 3)
    for n in names:
        mon.seen("formatter_active", n)
    errs, results = check_grammar(rec.events)
    mon.check("events.grammar", not errs, lambda: W(errors=errs[:5], events=[list(map(str, e[:3])) for e in rec.events[:60]],
                                                    dry_run_with_undefined=dry_undefined))
    norm = lambda evs: [e[:3] if e[0] in ("step",) else e for e in evs]
    same = all(r.events == rec.events for r in recs)
    mon.check("events.all_formatters_same_stream", same, lambda: W(lengths=[len(r.events) for r in recs]))
    raised = [e for r in recs for e in r.errors]
    mon.check("formatter.never_raises", not raised, lambda: W(errors=raised[:4], dry_run_with_undefined=dry_undefined))
    # uri for every feature that was started
    uris = [e[1] for e in rec.events if e[0] == "uri"]
    started = [f["file"] for f in case["program"]["features"] if pred.container_started.get(f["name"])]
    if not case.get("hook_fault"):      # (a hook fault may abort the run or stop it early: the model is fault-free)
        mon.check("events.uri_for_every_started_feature", uris == started, lambda: W(got=uris, want=started))
    # shown scenarios: selected ones (all with show_skipped)
    show_skipped = "--no-skipped" not in case["args"]
    for (name, buf), r in zip(streams, recs):
        text = buf.getvalue()
        if name in ("json", "json.pretty"):
            check_json(mon, case, obs, text, r, W, dry_undefined)
        elif name in ("plain", "plain0"):
            check_plain(mon, case, obs, text, r, W, "--no-timings" not in case["args"], dry_undefined)
        elif name == "progress2":
            check_progress2(mon, case, obs, text, r, W, dry_undefined)
        elif name == "progress3":
            check_progress3(mon, case, obs, text, r, W, dry_undefined)
    if sample:
        mon.sample({"features": RB.case_texts(case), "args": case["args"], "formatters": names,
                    "events": [list(map(str, e[:3])) for e in rec.events[:40]]})


def terminal_screen(text, width=80):
    """What an ANSI terminal of *width* columns shows after *text* was written to it (cursor-up, SGR colours, line wrap with the
    usual deferred wrap at the last column).  Returns the rows as text, trailing blanks removed."""
    import re as _re
    rows, r, c = [[]], 0, 0
    pending_wrap = False
    i, n = 0, len(text)
    esc = _re.compile(r"\x1b\[(\d*)([A-Za-z])")
    while i < n:
        ch = text[i]
        if ch == "\x1b":
            m = esc.match(text, i)
            if m:
                if m.group(2) == "A":
                    r = max(0, r - int(m.group(1) or 1))
                    pending_wrap = False
                i = m.end()
                continue
        if ch == "\n":
            r += 1
            c = 0
            pending_wrap = False
            while len(rows) <= r:
                rows.append([])
            i += 1
            continue
        if ch == "\r":
            c = 0
            pending_wrap = False
            i += 1
            continue
        if pending_wrap:
            r += 1
            c = 0
            pending_wrap = False
            while len(rows) <= r:
                rows.append([])
        row = rows[r]
        while len(row) <= c:
            row.append(" ")
        row[c] = ch
        if c == width - 1:
            pending_wrap = True
        else:
            c += 1
        i += 1
    return ["".join(x).rstrip() for x in rows]


def pretty_on_a_terminal(lab, mon, rng):
    """The pretty formatter in coloured mode rewrites the line of a step when its result arrives (cursor up, print again): on
    the terminal every scenario header and every step is to be seen exactly once afterwards -- the same text the monochrome
    mode prints.  Step lines of every length around the terminal width are produced."""
    import io
    from behave.formatter.pretty import PrettyFormatter
    from behave.formatter.base import StreamOpener
    # one feature, a few scenarios; step texts padded so that printed lines fall on and around the 80-column boundary
    outcomes = {}
    items = []
    nid = [0]
    for si in range(rng.randint(1, 3)):
        steps = []
        for _ in range(rng.randint(1, 3)):
            nid[0] += 1
            pad = "x" * rng.choice([0, 10, 56, 57, 58, 59, 60, 61, 62, 63, 64, 65, 66, 130, 136, 137, 138, 139, 140, 141, 142, 143, 144])
            text = "k%d pad %s" % (nid[0], pad)
            outcomes[text] = rng.choice(["pass", "pass", "pass", "fail"])
            steps.append({"kw": rng.choice(["Given", "When", "Then"]), "text": text})
        items.append({"kind": "scenario", "tags": [], "name": "T%d" % si, "desc": [], "steps": steps})
    in_rule = rng.random() < 0.4
    if in_rule:
        items = [{"kind": "rule", "tags": [], "name": "R", "desc": [], "background": None, "items": items}]
    program = {"features": [{"kind": "feature", "tags": [], "name": "F", "desc": [], "file": "t.feature", "background": None, "items": items}],
               "outcomes": outcomes}
    source = rng.random() < 0.5
    args = ["--no-timings", "--no-summary"] + ([] if source else ["--no-source"])
    shown = {}
    for mode in ("monochrome", "coloured"):
        buf = io.StringIO()

        def formatters(config, st, buf=buf):
            return [PrettyFormatter(StreamOpener(stream=buf), config)]
        obs = lab.run(program, args=args + (["--no-color"] if mode == "monochrome" else ["--color=always"]), formatters=formatters)
        if obs.escaped is not None:
            mon.check("pretty.coloured_terminal_shows_what_monochrome_prints", False, dict(mode=mode, escaped=repr(obs.escaped)))
            return
        shown[mode] = buf.getvalue()
    want = [l.rstrip() for l in shown["monochrome"].split("\n")]
    # (monochrome lines longer than the terminal wrap as well)
    want_rows = []
    for l in want:
        want_rows.extend([l[j:j + 80] for j in range(0, len(l), 80)] or [""])
    got_rows = terminal_screen(shown["coloured"], 80)
    strip = lambda rows: [x.rstrip() for x in rows if x.strip()]
    lens = sorted(set(len(l) for l in want if "pad" in l))
    mon.case(("pretty-terminal", tuple(sorted(outcomes.items())), in_rule, source), True)
    mon.check("pretty.coloured_terminal_shows_what_monochrome_prints", strip(got_rows) == strip(want_rows),
              lambda: dict(step_line_lengths=lens, inside_rule=in_rule, show_source=source,
                           terminal=strip(got_rows)[:14], monochrome=strip(want_rows)[:14]))
    for L in lens:
        if L % 80 in (0, 1, 79):
            mon.seen("pretty_step_line_length", "at_a_multiple_of_the_terminal_width" if L % 80 == 0 else "next_to_a_multiple")


def config_file_formatters(mon, rng):
    """Formatters named in behave.ini WITHOUT outfiles (each gets '<format>.output' next to the configuration file, as documented) plus
    -f/-o pairs on the command line: the real factory hands every formatter the stream of ITS file."""
    import shutil
    from behave.configuration import Configuration
    from behave.formatter._registry import make_formatters as real_make_formatters
    from behave.model import ScenarioOutline
    from behave.tag_expression import TagExpressionProtocol as TEP
    file_formats = rng.sample(["json", "plain", "progress2", "rerun", "progress3"], rng.randint(1, 3))
    n_out = rng.choice([0, 0, len(file_formats)])
    cmd_formats = rng.sample(["plain", "json.pretty", "progress"], rng.randint(0, 2))
    root = tempfile.mkdtemp(prefix="bvm-fmtcfg-")
    cwd, home = os.getcwd(), os.environ.get("HOME")
    saved_schema = ScenarioOutline.annotation_schema
    out, err = sys.stdout, sys.stderr
    case = {"behave.ini": {"format": file_formats, "outfiles": ["file%d.txt" % j for j in range(n_out)]},
            "args": [a for j, f in enumerate(cmd_formats) for a in ("-f", f, "-o", "cmd%d.txt" % j)]}
    mon.case(("config-file-formatters", tuple(file_formats), n_out, tuple(cmd_formats)), True)
    try:
        os.environ["HOME"] = root
        os.chdir(root)
        with open("behave.ini", "w") as fh:
            fh.write("[behave]\nformat = %s\n" % "\n    ".join(file_formats))
            if n_out:
                fh.write("outfiles = %s\n" % "\n    ".join(case["behave.ini"]["outfiles"]))
        sys.stdout = sys.stderr = io.StringIO()
        try:
            config = Configuration(list(case["args"]))
            fmts = real_make_formatters(config, config.outputs)
            # (a formatter may open its file lazily -- rerun does: the opener it was given says where it will write)
            got = [(f.name, None if getattr(f.stream_opener, "name", None) is None else os.path.relpath(str(f.stream_opener.name), root)) for f in fmts]
            for f in fmts:
                f.close()
        except Exception as ex:
            got = repr(ex)
        want = [(f, ("file%d.txt" % j) if n_out else "%s.output" % f) for j, f in enumerate(file_formats)] + \
               [(f, "cmd%d.txt" % j) for j, f in enumerate(cmd_formats)]
        mon.seen("config_file_outfiles", "given" if n_out else "none")
        mon.check("factory.config_file_formatters_write_their_own_files", got == want, lambda: dict(case=case, got=got, want=want))
    finally:
        sys.stdout, sys.stderr = out, err
        os.chdir(cwd)
        if home is None:
            os.environ.pop("HOME", None)
        else:
            os.environ["HOME"] = home
        ScenarioOutline.annotation_schema = saved_schema
        TEP.use(TEP.DEFAULT)
        shutil.rmtree(root, ignore_errors=True)


def pretty_on_a_pty(mon, rng, size):
    """`python -m behave -f pretty -f json -o report.json` started from a terminal (stdin is a pty) whose window size reports
    *size* = (rows, columns) -- zeros included, as terminals without a known size do: the run completes and the JSON report
    mirrors the model like in any other run."""
    import pty, fcntl, termios, struct, json as _json
    from ..lab.subproc import Project
    case = RB.gen_case(rng, gen={"max_features": 1, "max_rules": 0, "p_nonpass": 0.3, "outcomes": [o for o in OUTCOMES if o not in ("ki",)]},
                       p_stop=0.0, p_dry=0.0, p_noskipped=0.0, tags=False)
    pred = runmodel.predict(case["program"], case["cfg"])
    for _try in range(8):
        if not (pred.aborted or any(len(v) != 1 for v in pred.scen_status.values())):
            break
        case = RB.gen_case(rng, gen={"max_features": 1, "max_rules": 0, "p_nonpass": 0.2, "outcomes": ["fail", "error", "undefined", "pending"]},
                           p_stop=0.0, p_dry=0.0, p_noskipped=0.0, tags=False)
        pred = runmodel.predict(case["program"], case["cfg"])
    else:
        return
    master, slave = pty.openpty()
    proj = Project(case["program"], {})
    try:
        fcntl.ioctl(slave, termios.TIOCSWINSZ, struct.pack("HHHH", size[0], size[1], 0, 0))
        res = proj.run(case["args"] + ["-f", "json", "-o", "report.json", "-f", "pretty"], stdin=slave)
        try:
            with open(os.path.join(proj.root, "report.json"), encoding="utf-8") as fh:
                report_text = fh.read()
        except OSError as ex:
            report_text = "<%r>" % (ex,)
    finally:
        proj.close()
        os.close(master)
        os.close(slave)
    c2 = dict(case, terminal_rows_columns=list(size))
    if res.get("timeout"):
        mon.note("subprocess watchdog fired (inconclusive case)")
        return
    mon.case(("pty", RB.strip_case(c2)), True)
    mon.seen("terminal_size_reported", "%s_rows_%s_columns" % ("zero" if not size[0] else "some", "zero" if not size[1] else "some"))
    try:
        data = _json.loads(report_text)
        got = {}
        for f in data:
            for el in f.get("elements", []):
                if el.get("type") in ("scenario", "scenario_outline") or el.get("keyword", "").startswith("Scenario"):
                    got[el["name"]] = el.get("status")
                for sub in el.get("elements", []) if el.get("type") == "rule" else []:
                    got[sub["name"]] = sub.get("status")
        err = None
    except Exception as ex:
        got, err = None, repr(ex)
    want = {n: next(iter(v)) for n, v in pred.scen_status.items()}
    mon.check("process.pretty_on_a_terminal_of_any_size_completes", err is None and res["rc"] in {int(v) for v in pred.verdict} and
              "Traceback" not in res["stderr"] and got == want,
              lambda: RB.witness(c2, rc=res["rc"], error=err, got=got, want=want, stderr=res["stderr"][-600:], report=report_text[:300]))


def json_file_in_other_locales(mon, rng):
    """`python -m behave -f json[.pretty] -o FILE` in a process whose locale / console encoding is not UTF-8, on features with
    non-ASCII step texts: the report file is valid JSON that mirrors the model."""
    import json as _json
    from ..lab.subproc import Project
    for _try in range(8):
        case = RB.gen_case(rng, gen={"max_features": 1, "max_rules": 0, "p_nonpass": 0.3, "outcomes": ["fail", "error"]},
                           p_stop=0.0, p_dry=0.0, p_noskipped=0.0, tags=False)
        if any("l\u00f6st" in t for t in case["program"]["outcomes"]):
            break
    else:
        return
    pred = runmodel.predict(case["program"], case["cfg"])
    fmt = rng.choice(["json", "json.pretty"])
    envname = rng.choice(["c_locale", "latin1_console", "plain"])
    proj = Project(case["program"], {})
    try:
        res = proj.run(case["args"] + ["-f", fmt, "-o", "report.json"], environment=envname)
        try:
            with open(os.path.join(proj.root, "report.json"), "rb") as fh:
                raw = fh.read()
        except OSError as ex:
            raw = ("<%r>" % (ex,)).encode()
    finally:
        proj.close()
    if res.get("timeout"):
        mon.note("subprocess watchdog fired (inconclusive case)")
        return
    c2 = dict(case, formatter=fmt, process_environment=envname)
    mon.case(("json-locale", RB.strip_case(c2)), True)
    mon.seen("json_report_written_in", envname)
    try:
        data = _json.loads(raw.decode("utf-8"))
        got = {el["name"]: el.get("status") for f in data for el in f.get("elements", []) if el.get("type") != "background"}
        err = None
    except Exception as ex:
        got, err = None, repr(ex)
    want = {n: next(iter(v)) for n, v in pred.scen_status.items()}
    mon.check("process.json_report_valid_in_any_locale", err is None and got == want and "Traceback" not in res["stderr"],
              lambda: RB.witness(c2, error=err, got=got, want=want, rc=res["rc"], stderr=res["stderr"][-500:], stdout=res["stdout"][-300:], report=raw[:200].decode("utf-8", "replace")))


def run(spec, mon):
    from ..lab.inproc import RunLab
    lab = RunLab()
    json_file_in_other_locales(mon, random.Random(spec["seed"] * 17 + spec["shard"]))
    sizes = [(24, 80), (24, 0), (0, 80), (0, 0), (50, 132), (1, 1)]
    for j in range(1 if spec.get("tier", "quick") == "quick" else 12):
        pretty_on_a_pty(mon, random.Random(spec["seed"] * 31 + j), sizes[(spec["shard"] + j) % len(sizes)])
    for _ in range(20 if spec.get("tier", "quick") == "quick" else 400):
        config_file_formatters(mon, random.Random(spec["seed"] * 7919 + _))
    tier = spec.get("tier", "quick")
    rng = random.Random(spec["seed"])
    for _ in range(40 if tier == "quick" else 1500):
        pretty_on_a_terminal(lab, mon, rng)
    outs = [o for o in OUTCOMES]
    n = 60 if tier == "quick" else 2500
    for i in range(n):
        gen = {"p_table": 0.3, "p_doc": 0.3, "p_background": 0.6, "p_rule_background": 0.6, "max_rules": 2, "p_nonpass": 0.3}
        case = RB.gen_case(rng, gen=gen, p_stop=0.15, p_dry=0.15, p_noskipped=0.4, p_names=0.15)
        extra = []
        if rng.random() < 0.3:
            extra.append("--no-multiline")
        if rng.random() < 0.4:
            extra.append("--no-timings")
        extra.append(rng.choice(["--no-color", "--color=always", "--no-color"]))
        case["args"] = case["args"] + extra
        k = rng.randint(2, 6)
        names = [rng.choice(BUILTINS) for _ in range(k)]
        if i % 2 == 0 and "json" not in names and "json.pretty" not in names:
            names[rng.randrange(len(names))] = rng.choice(["json", "json.pretty"])
        if i % 3 == 0:
            names.append(rng.choice(["plain", "progress2", "progress3"]))
        if i % 4 == 1 and not case["cfg"]["dry_run"]:
            # one raising hook (often a step hook): statuses hook_error must be mirrored too
            obs0 = lab.run(case["program"], args=case["args"])
            ks = [k for k, h in enumerate(obs0.hooks) if h[0].endswith("_step")] or list(range(len(obs0.hooks)))
            if ks:
                case = dict(case, hook_fault={"k": rng.choice(ks), "exc": "Exception"})
        lab.extra_hook_plugins = None
        if i % 5 == 3 and not case["cfg"]["dry_run"]:
            # an environment whose before_all registers a clean-up for the end of the test run -- and that clean-up raises: the run
            # has failed, the reports are finished like those of any other run (every formatter gets its close event)
            def testrun_cleanup(state, context, name, elem, tag):
                if name == "before_all":
                    def release_resources():
                        raise RuntimeError("test-run clean-up could not release its resources")
                    context.add_cleanup(release_resources)
            lab.extra_hook_plugins = [testrun_cleanup]
            case = dict(case, raising_cleanup="registered in before_all for the end of the test run")
            mon.seen("environment_habit", "raising_testrun_cleanup")
        if i % 6 == 4 and not case["cfg"]["dry_run"] and not case.get("hook_fault") and \
                not any(oc in ("ki", "abort") for oc in case["program"]["outcomes"].values()):
            # (no aborting outcomes in these programs: which features start is read off the fault-free model)
            # a step that runs a sub-step with context.execute_steps() -- and the sub-step fails / is undefined: the calling step is
            # reported failed like any failing step, and the reports go on with the scenarios that follow
            cands = [t for t, oc in case["program"]["outcomes"].items() if oc == "pass" and t[0] == "k"]
            if cands:
                sub_kind = rng.choice(["fail", "undefined", "error"])
                sub = ("u9%d sub step" if sub_kind == "undefined" else "k9%d sub step") % rng.randrange(1000, 9999)
                if sub_kind != "undefined":
                    case["program"]["outcomes"][sub] = sub_kind
                case = dict(case, nested={rng.choice(cands): sub}, args=[a for a in case["args"] if a != "--stop"], cfg=dict(case["cfg"], stop=False))
                mon.seen("nested_sub_step", sub_kind)
        if i % 8 == 6 and not case.get("hook_fault") and not case["cfg"]["stop"] and \
                not any(oc in ("ki", "abort") for oc in case["program"]["outcomes"].values()):
            # the documented "no background" fixture (examples/fixture.no_background): a tag hook switches the background of the
            # scenario in hand off -- in an environment whose hooks also LOOK at statuses (feature.status) while the run is going on
            def no_background(state, context, name, elem, tag):
                sc = getattr(context, "scenario", None) if "scenario" in context else None
                if name == "before_tag" and tag in ("e", "a", "c") and sc is not None:
                    sc.use_background = False
                if name in ("after_scenario", "before_scenario"):
                    f = getattr(context, "feature", None)
                    if f is not None:
                        try:
                            _ = f.status
                            _ = [x.status for x in f.walk_scenarios()]
                        except Exception:
                            pass
            lab.extra_hook_plugins = list(lab.extra_hook_plugins or []) + [no_background]
            case = dict(case, environment="no_background fixture for @e @a @c + status-reading hooks")
            mon.seen("environment_habit", "no_background_fixture_with_status_reading_hooks")
        try:
            run_case(lab, mon, case, names, sample=(i == 0 and spec["shard"] == 0))
        finally:
            lab.extra_hook_plugins = None
        if i % 3 == 2:
            # the same run through the real formatter factory: output files for a prefix of the formatter list only
            names2 = [rng.choice(["json", "plain", "progress", "progress2", "progress3", "json.pretty", "rerun"])
                      for _ in range(rng.randint(1, 3))]
            run_case(lab, mon, case, names2, real_files=rng.randint(0, len(names2)))
    if spec["shard"] == 0:
        # behave's own acceptance features as workload: the probes of bvm.wild in every behave process they spawn
        from ..wild import run as wild
        wild.feed(mon, ID, spec.get("tier", "quick"))


def replay(case, mon):
    from ..lab.inproc import RunLab
    lab = RunLab()
    names = case.get("formatters") or ["json", "plain", "progress2", "progress3"]
    run_case(lab, mon, case, names)


LEVEL_TEXT = ("Exploration: every built-in formatter of a random formatter list is wrapped in a recording proxy and driven "
              "by the real runner; an automaton checks the event grammar on every stream and that all streams are "
              "identical; the JSON output is parsed and compared field by field with the model after the run (each "
              "status on the element it belongs to, no result without a result event) and read back with JsonParser; "
              "plain, progress2 and progress3 text is parsed back and compared with the processed steps.")
LEVEL_NOTE = "Trusted: the automaton and the text parsers in this module; generated shapes; rules are not part of the JSON schema."
TECHNIQUE = "runtime monitoring: online trace-grammar checker over recorded formatter events + parsed-report vs model comparison; plus oracle-free invariant probes armed (sitecustomize) in every behave process that the repository's own acceptance features spawn"
