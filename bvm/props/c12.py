"""C12 -- hooks: nested order, after-hooks always paired, hook faults contained."""
from __future__ import annotations

import random

from . import runbase as RB
from ..gen.prog import OUTCOMES, iter_scenario_instances
from ..ref import runmodel

ID = "C12"
LEVEL = "fault_enumeration"
RULE = ("random feature trees with tags at all levels, tag selection, --stop, dry-run; for each program the fault-free "
        "hook log H0 is recorded and checked by a stack automaton (nesting grammar with element identity) and against "
        "the reference model's hook sequence; then EVERY k < |H0| is taken as an injection point (the k-th hook call "
        "raises; Exception and AssertionError alternate, both in thorough) and the run is compared with the fault-free "
        "run; thorough adds pairs of injection points. A case = one execution (fault-free or with fault k); "
        "Round 11 additions: the same single faults under a fail-fast environment (after_scenario skips the rest of the feature / rule), "
        "directed at step-less scenarios; a raising cleanup followed by a later hook fault; a process sample whose environment.py binds "
        "hooks to functions, partial objects, callable objects and bound methods. "
        "non-trivial = a fault fired in a program with >=2 scenario instances; distinct by hash of (program, args, k, exc).")
ASSUMPTIONS = [
    "KeyboardInterrupt / context.abort() outcomes are left out of these programs (abort semantics belong to C01)",
    "the later steps of the SAME scenario after a step whose hook failed are governed by C02 (stop after first non-pass)",
    "which of several raising hooks' messages is kept is not demanded",
    "container hooks of a container whose own/outline tags match although no scenario in it is selected are not demanded",
]
REQUIRED = {"wild.hook_calls_nest_and_pair": {"quick": 8, "thorough": 300}, "grammar.fault_free": {"quick": 100, "thorough": 5000}, "recipe.same_hooks_with_the_autoretry_recipe": {"quick": 1000, "thorough": 30000}, "grammar.under_fault": {"quick": 3000, "thorough": 200000},
            "fault.owner_is_hook_error": {"quick": 3000, "thorough": 200000},
            "fault.outside_ancestry_unchanged": {"quick": 3000, "thorough": 200000},
            "fault.before_phase_suppresses_body": {"quick": 800, "thorough": 60000},
            "fault.run_fails": {"quick": 3000, "thorough": 200000}, "model.hook_sequence": {"quick": 80, "thorough": 4000},
            "dry_run.no_hooks": {"quick": 5, "thorough": 300}}
REQUIRED_SEEN = {"tag_name_class": ["contains_percent_sign"], "selection_shape": ["by_rendered_outline_tag"], "hook_decoration": ["capture", "plain"], "hook_habit": ["reads_status_of_its_element", "plain"], "fault_hook": ["before_all", "after_all", "before_feature", "after_feature", "before_rule", "after_rule",
                                "before_scenario", "after_scenario", "before_step", "after_step", "before_tag", "after_tag"],
                 "tag_hook_owner_kind": ["feature", "rule", "scenario"], "failfast_owner_kind": ["feature", "rule", "scenario", "step"], "hook_bound_to": ["function", "partial", "callable_object", "bound_method"], "hook_fault_after_a_raising_cleanup": ["feature", "rule", "scenario"],
                 "failfast_owner_shape": ["scenario_without_steps"]}
EXHAUSTIVE = True
EXHAUSTIVE_SCOPE = "every hook invocation of the fault-free run of every generated program is an injection point"
NSHARDS = {"quick": 16, "thorough": 16}
KIND_OF_HOOK = {"feature": "feature", "rule": "rule", "scenario": "scenario", "step": "step"}


def plan(tier, seed):
    n = NSHARDS[tier]
    return [{"shard": i, "of": n, "seed": seed * 1000 + i} for i in range(n)]


# ---------------------------------------------------------------------------
# structure of the program: tags, parents
# ---------------------------------------------------------------------------
class Struct(object):
    def __init__(self, program, pred):
        self.tags = {}       # element name -> own tag list (as hooks see them)
        self.parent = {}     # element name -> parent element name
        self.kind = {}
        self.order = []      # scenario instance names in document order
        for f in program["features"]:
            self.tags[f["name"]] = list(f["tags"])
            self.kind[f["name"]] = "feature"
            self.parent[f["name"]] = None
            self._walk(f, f["name"])
        for inst in pred.instances:
            self.tags[inst["name"]] = list(inst["own_tags"])
            self.kind[inst["name"]] = "scenario"
            self.order.append(inst["name"])
            if inst.get("outline"):
                self.parent[inst["name"]] = inst["outline"]
            else:
                self.parent[inst["name"]] = inst["path"][-1]

    def _walk(self, c, cname):
        for it in c["items"]:
            if it["kind"] == "rule":
                self.tags[it["name"]] = list(it["tags"])
                self.kind[it["name"]] = "rule"
                self.parent[it["name"]] = cname
                self._walk(it, it["name"])
            elif it["kind"] == "outline":
                self.kind[it["name"]] = "outline"
                self.parent[it["name"]] = cname

    def ancestors(self, name):
        out = []
        p = self.parent.get(name)
        while p is not None:
            out.append(p)
            p = self.parent.get(p)
        return out

    def descendants(self, name):
        return [n for n in self.parent if name in self.ancestors(n)]


def check_grammar(hooks, struct, dry=False):
    """Stack automaton over a hook log.  Returns (errors, owner) where owner[k] = (kind, name, phase)."""
    errors = []
    owner = [None] * len(hooks)
    stack = []          # open elements: (kind, name)
    pending_before = []  # indices of before_tag events waiting for their before_X
    after_expect = None  # (kind, name, remaining tag list)
    n = len(hooks)
    if n == 0:
        return errors, owner
    if hooks[0][0] != "before_all":
        errors.append("first hook is %s, not before_all" % (hooks[0],))
    if hooks[-1][0] != "after_all":
        errors.append("last hook is %s, not after_all" % (hooks[-1],))
    for k, (name, elem, tag) in enumerate(hooks):
        if isinstance(elem, list):
            elem = tuple(elem)
        if after_expect is not None and name != "after_tag":
            kind, en, rest = after_expect
            if rest:
                errors.append("#%d %s: missing after_tag %s of %s %s" % (k, name, rest, kind, en))
            after_expect = None
        if name == "before_all":
            owner[k] = ("all", None, "before")
            if k != 0:
                errors.append("#%d before_all not first" % k)
        elif name == "after_all":
            owner[k] = ("all", None, "after")
            if k != n - 1:
                errors.append("#%d after_all not last" % k)
            if stack:
                errors.append("#%d after_all with open elements %s" % (k, stack))
        elif name == "before_tag":
            pending_before.append(k)
        elif name in ("before_feature", "before_rule", "before_scenario"):
            kind = name.split("_", 1)[1]
            want = struct.tags.get(elem)
            got = [hooks[j][2] for j in pending_before]
            if want is None:
                errors.append("#%d %s for unknown element %r" % (k, name, elem))
            elif got != want:
                errors.append("#%d %s(%s): before_tag hooks %s, element tags %s" % (k, name, elem, got, want))
            for j in pending_before:
                owner[j] = (kind, elem, "before")
            pending_before = []
            owner[k] = (kind, elem, "before")
            # nesting
            parent_ok = {"feature": [None], "rule": ["feature"], "scenario": ["feature", "rule"]}[kind]
            top = stack[-1][0] if stack else None
            if top not in parent_ok:
                errors.append("#%d %s(%s) opened inside %s" % (k, name, elem, top))
            else:
                # identity of the enclosing element
                exp_parent = struct.parent.get(elem)
                while exp_parent is not None and struct.kind.get(exp_parent) == "outline":
                    exp_parent = struct.parent.get(exp_parent)
                if stack and stack[-1][1] != exp_parent:
                    errors.append("#%d %s(%s) opened inside %s, its parent is %s" % (k, name, elem, stack[-1][1], exp_parent))
            stack.append((kind, elem))
        elif name == "before_step":
            if pending_before:
                errors.append("#%d before_step with dangling before_tag" % k)
            owner[k] = ("step", elem, "before")
            if not stack or stack[-1][0] != "scenario" or stack[-1][1] != elem[0]:
                errors.append("#%d before_step%r outside its scenario (open: %s)" % (k, elem, stack[-1:] or None))
            stack.append(("step", elem))
        elif name == "after_step":
            owner[k] = ("step", elem, "after")
            if not stack or stack[-1] != ("step", elem):
                errors.append("#%d after_step%r does not close the open step (open: %s)" % (k, elem, stack[-1:] or None))
            else:
                stack.pop()
        elif name in ("after_feature", "after_rule", "after_scenario"):
            kind = name.split("_", 1)[1]
            owner[k] = (kind, elem, "after")
            if pending_before:
                errors.append("#%d %s with dangling before_tag" % (k, name))
                pending_before = []
            if not stack or stack[-1] != (kind, elem):
                errors.append("#%d %s(%s) does not close the open element (open: %s)" % (k, name, elem, stack[-1:] or None))
                # try to recover
                if (kind, elem) in stack:
                    while stack and stack[-1] != (kind, elem):
                        stack.pop()
                    stack.pop()
            else:
                stack.pop()
            after_expect = (kind, elem, list(struct.tags.get(elem) or []))
        elif name == "after_tag":
            if after_expect is None:
                errors.append("#%d after_tag(%s) without preceding after hook" % (k, tag))
            else:
                kind, en, rest = after_expect
                owner[k] = (kind, en, "after")
                if not rest or rest[0] != tag:
                    errors.append("#%d after_tag(%s) for %s %s, expected %s" % (k, tag, kind, en, rest[:1]))
                    after_expect = (kind, en, rest[1:] if rest else [])
                else:
                    after_expect = (kind, en, rest[1:])
        else:
            errors.append("#%d unknown hook %s" % (k, name))
    if pending_before:
        errors.append("dangling before_tag hooks at end")
    return errors, owner


def calls_by_scenario(obs):
    d = {}
    for n, t in obs.calls:
        d.setdefault(n, []).append(t)
    return d


def run_program(lab, mon, case, rng, tier, sample=False):
    program, args, cfg = case["program"], case["args"], case["cfg"]
    obs0 = lab.run(program, args=args)
    pred = runmodel.predict(program, cfg)
    struct = Struct(program, pred)
    mon.case(("ff", RB.strip_case(case)), False)
    if obs0.escaped is not None:
        mon.check("fault_free.no_exception_escapes", False, lambda: RB.witness(case, escaped=repr(obs0.escaped)))
        return
    H0 = obs0.hooks
    if cfg["dry_run"]:
        mon.check("dry_run.no_hooks", not H0, lambda: RB.witness(case, hooks=H0[:20]))
        return
    errs, owner0 = check_grammar(H0, struct)
    mon.check("grammar.fault_free", not errs, lambda: RB.witness(case, errors=errs[:6], hooks=H0[:60]))
    if not pred.ambiguous_hooks:
        want = [(h, list(e) if isinstance(e, tuple) else e, t) for (h, e, t) in pred.hooks]
        got = [(h, list(e) if isinstance(e, tuple) else e, t) for (h, e, t) in H0]
        mon.check("model.hook_sequence", got == want,
                  lambda: RB.witness(case, first_difference=next((i for i, (a, b) in enumerate(zip(got, want)) if a != b), min(len(got), len(want))),
                                     got=got[:80], want=want[:80]))
    # no hook for skipped elements
    for name, sel in pred.selected.items():
        if not sel:
            hit = [h for h in H0 if h[1] == name or (isinstance(h[1], tuple) and h[1][0] == name)]
            mon.check("skipped.no_hooks", not hit, lambda: RB.witness(case, scenario=name, hooks=hit[:5]))
    if errs:
        return
    calls0 = calls_by_scenario(obs0)
    ks = list(range(len(H0)))
    if tier == "quick" and len(ks) > 40:
        ks = sorted(rng.sample(ks, 40))
    for k in ks:
        excs = ["Exception", "AssertionError"] if tier == "thorough" else [("Exception", "AssertionError")[k % 2]]
        for exc in excs:
            one_fault(lab, mon, case, struct, pred, obs0, calls0, owner0, k, exc)
    cleanup_then_fault(lab, mon, case, struct, rng, tier)
    # ---- the same faults under a "fail fast" environment.py (after_scenario skips the rest of the feature / rule once a
    #      scenario has failed): the element whose hook raised is hook_error at the END of the run as well
    if H0:
        stepless = set(n for n, sts in obs0.step_status.items() if not sts and struct.kind.get(n) == "scenario")
        first = [k for k in range(len(H0)) if owner0[k] and owner0[k][0] == "scenario" and owner0[k][1] in stepless]
        for k in (list(range(len(H0))) if tier == "thorough" else sorted(set(first[:12] + rng.sample(ks, min(8, len(ks)))))):
            failfast_fault(lab, mon, case, struct, owner0, H0, k, rng.choice(["feature", "feature", "rule"]))
    if tier == "thorough" and len(H0) >= 2:
        for _ in range(min(6, len(H0))):
            k1, k2 = sorted(rng.sample(range(len(H0)), 2))
            pair_fault(lab, mon, case, struct, k1, k2, H0)
    if sample:
        mon.sample({"features": RB.case_texts(case), "args": args, "fault_free_hook_log": [list(map(str, h)) for h in H0[:40]],
                    "injection_points": len(H0)})


def cleanup_then_fault(lab, mon, case, struct, rng, tier):
    """A cleanup of the first executed scenario raises (handled: that scenario is error); LATER a hook raises: the element whose
    hook it is -- by the structure of the hook log, not by what the context shows -- is hook_error."""
    if case["cfg"]["stop"] or case["cfg"]["dry_run"]:
        return

    def make_plug():
        first = []

        def plug(state, context, name, elem, tag):
            if name == "before_scenario" and not first:
                first.append(elem.name)

                def bad_cleanup():
                    raise RuntimeError("injected cleanup failure")
                context.add_cleanup(bad_cleanup)
        return plug, first
    plug, first = make_plug()
    saved = getattr(lab, "extra_hook_plugins", None)
    lab.extra_hook_plugins = list(saved or []) + [plug]
    try:
        obs1 = lab.run(case["program"], args=case["args"])
    finally:
        lab.extra_hook_plugins = saved
    c1 = dict(case, raising_cleanup_in_first_scenario=True)
    if obs1.escaped is not None:
        mon.check("cleanup_then_fault.no_exception_escapes", False, lambda: RB.witness(c1, escaped=repr(obs1.escaped)))
        return
    if not first:
        return
    errs, owner1 = check_grammar(obs1.hooks, struct)
    mon.check("cleanup_then_fault.hook_log_still_nests", not errs, lambda: RB.witness(c1, errors=errs[:6], hooks=[list(map(str, h)) for h in obs1.hooks[:60]]))
    if errs:
        return
    H1 = obs1.hooks
    after = [j for j, h in enumerate(H1) if h[0] == "after_scenario" and h[1] == first[0]]
    if not after:
        return
    later = [j for j in range(after[0] + 1, len(H1)) if owner1[j] and owner1[j][0] in ("feature", "rule", "scenario") and owner1[j][1] != first[0]]
    for k in (later if tier == "thorough" else rng.sample(later, min(5, len(later)))):
        fault = {"k": k, "exc": "Exception"}
        plug, _f = make_plug()
        lab.extra_hook_plugins = list(saved or []) + [plug]
        try:
            obs = lab.run(case["program"], args=case["args"], hook_fault=fault)
        finally:
            lab.extra_hook_plugins = saved
        c2 = dict(c1, hook_fault=fault)
        kind, ename, phase = owner1[k]
        W = lambda **kw: RB.witness(c2, hook=[str(x) for x in H1[k]], owner=[kind, ename, phase], scenario_whose_cleanup_raised=first[0], **kw)
        mon.case(("cleanup+fault", RB.strip_case(c2)), True)
        mon.check("cleanup_then_fault.no_exception_escapes", obs.escaped is None, lambda: W(escaped=repr(obs.escaped)))
        if obs.escaped is not None or not obs.faults_fired:
            continue
        mon.seen("hook_fault_after_a_raising_cleanup", kind)
        st = obs.elem_status.get(ename)
        mon.check("cleanup_then_fault.owner_is_hook_error", st == "hook_error", lambda: W(status=st, statuses=obs.elem_status))
        if phase == "before" and kind in ("feature", "rule"):
            inside = set(struct.descendants(ename))
            body = [c for c in obs.calls if c[0] in inside]
            mon.check("cleanup_then_fault.before_phase_suppresses_body", not body, lambda: W(calls_inside=body[:5]))


def failfast_fault(lab, mon, case, struct, owner0, H0, k, scope, exc="Exception"):
    fault = {"k": k, "exc": exc}

    def skip_rest(state, context, name, elem, tag):
        if name == "after_scenario" and elem.status.has_failed():
            target = getattr(context, "rule", None) if scope == "rule" else None
            (target or context.feature).skip(reason="fail fast")
    saved = getattr(lab, "extra_hook_plugins", None)
    lab.extra_hook_plugins = list(saved or []) + [skip_rest]
    try:
        obs = lab.run(case["program"], args=case["args"], hook_fault=fault)
    finally:
        lab.extra_hook_plugins = saved
    c2 = dict(case, hook_fault=fault, fail_fast=scope)
    mon.case(("failfast", RB.strip_case(c2)), True)
    mon.check("failfast.no_exception_escapes", obs.escaped is None, lambda: RB.witness(c2, escaped=repr(obs.escaped)))
    if obs.escaped is not None or not obs.faults_fired:
        return
    # which hook the k-th call IS in this run (the skipping environment changes the hook log) and whose hook it is: the
    # harness's own record, made when the fault was raised
    _k, hname, ename, tag = obs.faults_fired[0]
    owner = obs.fault_owners[0]
    W = lambda **kw: RB.witness(c2, hook=[hname, list(ename) if isinstance(ename, tuple) else ename, tag], owner=owner, **kw)
    mon.check("failfast.run_fails", bool(obs.verdict) is True, lambda: W(statuses=obs.elem_status))
    if hname.endswith("_all"):
        return
    if hname.endswith("_step"):
        mon.seen("failfast_owner_kind", "step")
        st = obs.elem_status.get(ename[0])
        mon.check("failfast.scenario_of_failing_step_hook_is_error", st == "error", lambda: W(scenario=ename[0], status=st))
    elif owner is not None:
        kind = struct.kind.get(owner)
        mon.seen("failfast_owner_kind", str(kind))
        st = obs.elem_status.get(owner)
        if not obs.step_status.get(owner) and kind == "scenario":
            mon.seen("failfast_owner_shape", "scenario_without_steps")
        mon.check("failfast.owner_is_hook_error", st == "hook_error", lambda: W(status=st, statuses=obs.elem_status))


def one_fault(lab, mon, case, struct, pred, obs0, calls0, owner0, k, exc):
    program, args, cfg = case["program"], case["args"], case["cfg"]
    H0 = obs0.hooks
    fault = {"k": k, "exc": exc}
    obs = lab.run(program, args=args, hook_fault=fault)
    c2 = dict(case, hook_fault=fault)
    hook = H0[k]
    own = owner0[k]
    W = lambda **kw: RB.witness(c2, hook=list(map(lambda x: list(x) if isinstance(x, tuple) else x, hook)), owner=list(own) if own else None, **kw)
    mon.case(("fault", RB.strip_case(c2)), len(pred.instances) >= 2)
    mon.seen("fault_hook", hook[0])
    mon.check("fault.no_exception_escapes", obs.escaped is None, lambda: W(escaped=repr(obs.escaped)))
    if obs.escaped is not None:
        return
    if not obs.faults_fired:
        mon.check("fault.reached", False, lambda: W(note="injection point not reached although the prefix of the run is deterministic"))
        return
    mon.check("fault.run_fails", bool(obs.verdict) is True, lambda: W(statuses=obs.elem_status))
    errs, owner = check_grammar(obs.hooks, struct)
    mon.check("grammar.under_fault", not errs, lambda: W(errors=errs[:6], hooks=[list(map(str, h)) for h in obs.hooks[:80]]))
    kind, ename, phase = own
    stop = cfg["stop"]
    calls = calls_by_scenario(obs)
    if kind == "all":
        if phase == "before":
            mon.check("fault.before_all_aborts", not obs.calls and all(h[0] in ("before_all", "after_all") for h in obs.hooks),
                      lambda: W(calls=obs.calls[:5], hooks=obs.hooks[:10]))
            mon.check("fault.before_all_after_all_still_called", obs.hooks[-1][0] == "after_all", lambda: W(hooks=obs.hooks[:10]))
            mon.check("fault.before_all_everything_untested",
                      all(s in ("untested",) for n, s in obs.elem_status.items()
                          if struct.kind.get(n) == "scenario" and obs.step_status.get(n)),
                      lambda: W(statuses=obs.elem_status))
        else:
            mon.check("fault.after_all_rest_unchanged", obs.elem_status == obs0.elem_status and obs.calls == obs0.calls,
                      lambda: W(got=obs.elem_status, want=obs0.elem_status))
        return
    # ---- owner is marked hook_error ------------------------------------------------------
    if kind == "step":
        sname, stext = ename
        names = obs.step_names.get(sname, [])
        sts = obs.step_status.get(sname, [])
        idx = [i for i, nm in enumerate(names) if nm == stext]
        got = [sts[i] for i in idx]
        mon.check("fault.owner_is_hook_error", "hook_error" in got, lambda: W(step_statuses=sts, step_names=names))
        mon.check("fault.scenario_of_failing_step_hook_is_error", obs.elem_status.get(sname) == "error",
                  lambda: W(scenario=sname, status=obs.elem_status.get(sname)))
        if phase == "before":
            n_before = calls0.get(sname, []).index(stext) if stext in calls0.get(sname, []) else None
            mon.check("fault.before_phase_suppresses_body", stext not in calls.get(sname, [])[(n_before or 0):],
                      lambda: W(calls=calls.get(sname)))
        anc_owner = sname
    else:
        mon.seen("tag_hook_owner_kind", kind) if hook[0].endswith("_tag") else None
        st = obs.elem_status.get(ename)
        mon.check("fault.owner_is_hook_error", st == "hook_error", lambda: W(status=st, statuses=obs.elem_status))
        if phase == "before":
            inside = [n for n in struct.descendants(ename)] + ([ename] if kind == "scenario" else [])
            body_calls = [c for c in obs.calls if c[0] in inside]
            body_hooks = [h for h in obs.hooks if (h[1] in inside and h[1] != ename) or (isinstance(h[1], tuple) and h[1][0] in inside)]
            mon.check("fault.before_phase_suppresses_body", not body_calls and not body_hooks,
                      lambda: W(calls_inside=body_calls[:5], hooks_inside=body_hooks[:5]))
        anc_owner = ename
    # ---- every ancestor of the owner reports an error-class roll-up -----------------------
    for a in struct.ancestors(anc_owner):
        st = obs.elem_status.get(a)
        if st is not None:
            mon.check("fault.ancestors_not_passed", st in ("error", "failed", "hook_error"), lambda: W(ancestor=a, status=st))
    # ---- containment ----------------------------------------------------------------------
    related = set([anc_owner]) | set(struct.ancestors(anc_owner)) | set(struct.descendants(anc_owner))
    if not stop:
        bad = {}
        for n, st0 in obs0.elem_status.items():
            if n in related:
                continue
            if obs.elem_status.get(n) != st0:
                bad[n] = (st0, obs.elem_status.get(n))
            if struct.kind.get(n) == "scenario":
                if obs.step_status.get(n) != obs0.step_status.get(n) or calls.get(n, []) != calls0.get(n, []):
                    bad[n] = ("steps/calls differ", obs.step_status.get(n), obs0.step_status.get(n))
        mon.check("fault.outside_ancestry_unchanged", not bad, lambda: W(differences=bad))
    else:
        # --stop: what ran before the fault is as in the baseline, nothing runs after the failing element
        order = struct.order
        first_related = min((order.index(n) for n in related if n in order), default=None)
        last_related = max((order.index(n) for n in related if n in order), default=None)
        bad = {}
        for i, n in enumerate(order):
            if first_related is not None and i < first_related:
                if obs.elem_status.get(n) != obs0.elem_status.get(n) or calls.get(n, []) != calls0.get(n, []):
                    bad[n] = (obs0.elem_status.get(n), obs.elem_status.get(n))
            elif last_related is not None and i > last_related:
                if calls.get(n):
                    bad[n] = ("ran after the failure although --stop", calls.get(n)[:3])
        mon.check("fault.outside_ancestry_unchanged", not bad, lambda: W(differences=bad, stop=True))
        mon.count("fault.stop_cases")
    # ---- the fault itself never changes the hook log before k -------------------------------
    mon.check("fault.prefix_deterministic", obs.hooks[:k + 1] == H0[:k + 1], lambda: W(got=obs.hooks[:k + 1][-3:], want=H0[:k + 1][-3:]))


def pair_fault(lab, mon, case, struct, k1, k2, H0):
    fault = {"ks": [k1, k2], "exc": "Exception"}
    obs = lab.run(case["program"], args=case["args"], hook_fault=fault)
    c2 = dict(case, hook_fault=fault)
    mon.case(("pair", RB.strip_case(c2)), True)
    mon.check("pair.no_exception_escapes", obs.escaped is None, lambda: RB.witness(c2, escaped=repr(obs.escaped)))
    if obs.escaped is not None or not obs.faults_fired:
        return
    mon.check("pair.run_fails", bool(obs.verdict) is True, lambda: RB.witness(c2, statuses=obs.elem_status))
    errs, owner = check_grammar(obs.hooks, struct)
    mon.check("pair.grammar", not errs, lambda: RB.witness(c2, errors=errs[:6]))
    for fired in obs.faults_fired:
        kk = fired[0]
        own = owner[kk] if kk < len(owner) else None
        if own and own[0] in ("feature", "rule", "scenario"):
            st = obs.elem_status.get(own[1])
            mon.check("pair.owner_is_hook_error", st == "hook_error",
                      lambda: RB.witness(c2, owner=list(own), hook=list(map(str, obs.hooks[kk])), status=st))

def fault_then_clean_run(lab, mon, case, rng):
    """Run 1 with a raising hook, then reset_model() and a fault-free run 2 of the same model on the same runner: run 2 is
    indistinguishable from a fault-free first run (same hook calls, same statuses)."""
    from behave.model import reset_model
    if case["cfg"]["dry_run"]:
        return
    obs0 = lab.run(case["program"], args=case["args"])
    if obs0.escaped is not None or not obs0.hooks:
        return
    k = rng.randrange(len(obs0.hooks))
    second = {}

    def second_run(st):
        reset_model(st.features)
        st.calls[:] = []
        st.hooks[:] = []
        second["verdict"] = st.runner.run()
    obs = lab.run(case["program"], args=case["args"], hook_fault={"k": k, "exc": rng.choice(["Exception", "AssertionError"])},
                  second_run=second_run)
    mon.case(("fault-then-clean", RB.strip_case(case), k), True)
    W = lambda **kw: RB.witness(case, fault_in_run_1=list(map(str, obs0.hooks[k])), **kw)
    if obs.escaped is not None:
        mon.check("history.no_exception_escapes", False, lambda: W(escaped=repr(obs.escaped)))
        return
    mon.check("history.clean_run_after_faulty_run_same_hooks", obs.hooks == obs0.hooks,
              lambda: W(got=[list(map(str, h)) for h in obs.hooks[:30]], want=[list(map(str, h)) for h in obs0.hooks[:30]]))
    diff = {n: (obs.elem_status.get(n), st) for n, st in obs0.elem_status.items() if obs.elem_status.get(n) != st}
    mon.check("history.clean_run_after_faulty_run_same_statuses", not diff and bool(second.get("verdict")) == bool(obs0.verdict),
              lambda: W(differences=dict(list(diff.items())[:6]), verdict_run2=second.get("verdict"), verdict_fault_free=obs0.verdict))


def autoretry_recipe_run(lab, mon, rng):
    """A project whose before_feature hook applies the documented auto-retry recipe (behave.contrib.scenario_autoretry on everything
    feature.scenarios / rule.scenarios list -- outlines handed over as they are): with nothing failing nothing is retried, and every
    hook is called for the very same elements, in the same order, as without the recipe."""
    from behave.contrib.scenario_autoretry import patch_scenario_with_autoretry
    gen = {"p_tag": 0.4, "p_nonpass": 0.0, "max_features": 2, "max_items": 3, "max_steps": 2, "p_empty_examples": 0.0, "p_stepless": 0.0,
           "p_outline": 0.6, "outline_min_rows": 2, "p_wip": 0.0}
    case = RB.gen_case(rng, gen=gen, p_stop=0.0, p_dry=0.0, p_noskipped=0.3)
    obs0 = lab.run(case["program"], args=case["args"])

    def recipe(state, context, name, elem, tag):
        if name == "before_feature":
            for container in [elem] + list(elem.rules):
                for s in container.scenarios:
                    patch_scenario_with_autoretry(s, max_attempts=2)
    obs = lab.run(case["program"], args=case["args"], hook_plugins=[recipe])
    case = dict(case, environment="before_feature applies patch_scenario_with_autoretry to feature.scenarios and rule.scenarios")
    mon.case(("autoretry-recipe", RB.strip_case(case)), True)
    if obs0.escaped is not None or obs.escaped is not None:
        mon.check("recipe.no_exception_escapes", False, lambda: RB.witness(case, escaped=repr(obs.escaped or obs0.escaped)))
        return
    got = [list(map(str, h)) for h in obs.hooks]
    want = [list(map(str, h)) for h in obs0.hooks]
    mon.check("recipe.same_hooks_with_the_autoretry_recipe", got == want,
              lambda: RB.witness(case, first_difference=next((i for i, (a, b) in enumerate(zip(got, want)) if a != b), min(len(got), len(want))),
                                 got=got[:60], want=want[:60]))
    mon.check("recipe.same_hooks_with_the_autoretry_recipe", obs.elem_status == obs0.elem_status and obs.calls == obs0.calls,
              lambda: RB.witness(case, statuses=obs.elem_status, statuses_without_recipe=obs0.elem_status))


def run(spec, mon):
    from ..lab.inproc import RunLab
    lab = RunLab()
    tier = spec.get("tier", "quick")
    rng = random.Random(spec["seed"])
    outs = [o for o in OUTCOMES if o != "ki"]
    n = 16 if tier == "quick" else 400
    for i in range(n):
        gen = {"outcomes": outs, "p_tag": 0.5, "p_nonpass": 0.2, "max_features": 2, "max_items": 2, "max_steps": 2,
               "p_empty_examples": 0.0, "p_stepless": 0.0, "p_param_tag": 0.4}
        if i % 4 == 2:
            # scenarios without any step (title and tags only) in features without background, skipped by the environment:
            # a skipped element gets no hook, however little there is in it
            gen.update({"p_stepless": 0.3, "p_background": 0.0, "p_rule_background": 0.0, "p_nonpass": 0.2 if i % 8 == 2 else 0.5})
        if i % 4 == 3:
            # hardly any plain tags, outlines with parametrised tags and untagged Examples: a selection by a RENDERED tag
            # (@p.<t> -> --tags=@p.a) is the only reason for the enclosing feature / rule to run -- with all their hooks
            gen.update({"p_tag": 0.08, "p_param_tag": 1.0, "p_outline": 0.7, "max_items": 3})
        if i % 4 == 1:
            # tag names with a percent sign (@quota_100%, @50%s): tag hooks -- failing ones too -- are called for them like for any tag
            gen.update({"tags": ["a", "b", "quota_100%", "50%s", "e"], "tag_values": ["a", "b"]})
            mon.seen("tag_name_class", "contains_percent_sign")
        case = RB.gen_case(rng, gen=gen, p_stop=0.25, p_dry=0.08, p_noskipped=0.3, p_names=0.2, p_user_skip=0.6 if i % 4 == 2 else 0.15)
        if i % 4 == 3:
            tv = rng.choice(gen.get("tags") or ["a", "b", "c", "d", "e"])
            form = rng.choice(["@%s", "@p.%s", "p.%s or %s"])
            expr = form % ((tv, tv) if form.count("%s") == 2 else tv)
            ast = ["or", ["lit", "p." + tv], ["lit", tv]] if form.count("%s") == 2 else ["lit", (form % tv).lstrip("@")]
            for f in case["program"]["features"]:
                def strip_ex(c):
                    for it in c["items"]:
                        if it["kind"] == "rule":
                            strip_ex(it)
                        elif it["kind"] == "outline":
                            for ex in it["examples"]:
                                ex["tags"] = []
                strip_ex(f)
                f.pop("_text", None)
            case["cfg"]["tags"] = ast
            case["args"] = ["--tags=%s" % expr] + [a for a in case["args"] if not a.startswith("--tags")]
            mon.seen("selection_shape", "by_rendered_outline_tag")
        if i % 4 == 2 and case["program"].get("user_skip"):
            mon.seen("environment_skips_container_with_stepless_scenarios", "yes")
        lab.capture_hooks = None
        lab.extra_hook_plugins = None
        if i % 2 == 1:
            # hooks that LOOK at the element they are called for (if scenario.status == "failed": ...) before anything else
            def reader(state, context, name, elem, tag):
                for obj in (elem, getattr(context, "scenario", None), getattr(context, "rule", None), getattr(context, "feature", None)):
                    if obj is not None and hasattr(obj, "status"):
                        try:
                            _ = obj.status
                        except Exception:
                            pass
            lab.extra_hook_plugins = [reader]
            case["hooks_read_status"] = True
            mon.seen("hook_habit", "reads_status_of_its_element")
        else:
            mon.seen("hook_habit", "plain")
        if i % 3 == 1:
            # some hooks are decorated with behave's @capture (log capture for environment functions): a decorated hook is a
            # hook like any other -- what it raises is a hook failure
            from ..lab.inproc import HOOK_NAMES
            lab.capture_hooks = set(rng.sample(HOOK_NAMES, rng.randint(3, len(HOOK_NAMES))))
            case["capture_decorated_hooks"] = sorted(lab.capture_hooks)
            mon.seen("hook_decoration", "capture")
        else:
            mon.seen("hook_decoration", "plain")
        try:
            lab_plugins, lab_capture = lab.extra_hook_plugins, lab.capture_hooks
            lab.extra_hook_plugins = lab.capture_hooks = None
            for _ in range(3):
                autoretry_recipe_run(lab, mon, rng)
            lab.extra_hook_plugins, lab.capture_hooks = lab_plugins, lab_capture
            run_program(lab, mon, case, rng, tier, sample=(i == 0 and spec["shard"] == 0))
            for _ in range(3):
                fault_then_clean_run(lab, mon, case, rng)
        finally:
            lab.capture_hooks = None
            lab.extra_hook_plugins = None
    for i in range(3 if tier == "quick" else 60):
        failfast_directed(lab, mon, rng, outs)
    for i in range(2 if tier == "quick" else 20):
        process_hooks(mon, rng)
    if spec["shard"] == 0:
        # behave's own acceptance features as workload: the probes of bvm.wild in every behave process they spawn
        from ..wild import run as wild
        wild.feed(mon, ID, spec.get("tier", "quick"))


def process_hooks(mon, rng):
    """`python -m behave` on a project whose environment.py binds its hook names to callables of several kinds (functions,
    functools.partial objects, callable objects, bound methods): the hook log of the process is the one the reference model gives."""
    from ..lab.subproc import Project
    from ..lab.inproc import HOOK_NAMES
    gen = {"p_tag": 0.5, "p_nonpass": 0.2, "max_features": 2, "max_items": 2, "max_steps": 2, "p_empty_examples": 0.0, "p_stepless": 0.0}
    case = RB.gen_case(rng, gen=gen, p_stop=0.0, p_dry=0.0, p_noskipped=0.3)
    pred = runmodel.predict(case["program"], case["cfg"])
    if pred.ambiguous_hooks:
        return
    kinds = {h: rng.choice(["function", "partial", "callable_object", "bound_method"]) for h in HOOK_NAMES}
    proj = Project(case["program"], {"hook_objects": kinds})
    try:
        res = proj.run(case["args"] + ["-f", "plain"], environment=RB.pick_environment(rng, mon))
    finally:
        proj.close()
    c2 = dict(case, hook_objects=kinds)
    if res.get("timeout"):
        mon.note("subprocess watchdog fired (inconclusive case)")
        return
    for k in set(kinds.values()):
        mon.seen("hook_bound_to", k)
    norm = lambda e: e[1] if isinstance(e, (tuple, list)) else e
    got = [(e[1], e[2], e[3]) for e in res["events"] if e[0] == "hook"]
    want = [(h, norm(e), t) for (h, e, t) in pred.hooks]
    mon.case(("process-hooks", RB.strip_case(c2)), True)
    mon.check("process.hook_log_as_the_model_gives_it", got == want,
              lambda: RB.witness(c2, first_difference=next((i for i, (a, b) in enumerate(zip(got, want)) if a != b), min(len(got), len(want))),
                                 got=got[:60], want=want[:60], rc=res["rc"], stderr=res["stderr"][-500:]))


def failfast_directed(lab, mon, rng, outs):
    """Programs with many step-less scenarios and many failing ones, no backgrounds: every hook of every step-less scenario
    raises once under the fail-fast environment."""
    gen = {"outcomes": outs, "max_features": 2, "p_nonpass": 0.6, "p_stepless": 0.5, "p_background": 0.0, "p_rule_background": 0.0,
           "p_outline": 0.1, "max_items": 4, "max_rules": 1, "p_tag": 0.6, "p_empty_examples": 0.0}
    case = RB.gen_case(rng, gen=gen, p_stop=0.0, p_dry=0.0, p_noskipped=0.3, tags=False)
    obs0 = lab.run(case["program"], args=case["args"])
    if obs0.escaped is not None:
        mon.check("fault_free.no_exception_escapes", False, lambda: RB.witness(case, escaped=repr(obs0.escaped)))
        return
    pred = runmodel.predict(case["program"], case["cfg"])
    struct = Struct(case["program"], pred)
    errs, owner0 = check_grammar(obs0.hooks, struct)
    if errs:
        mon.check("grammar.fault_free", False, lambda: RB.witness(case, errors=errs[:6], hooks=obs0.hooks[:60]))
        return
    stepless = set(n for n, sts in obs0.step_status.items() if not sts and struct.kind.get(n) == "scenario")
    for k in [k for k in range(len(obs0.hooks)) if owner0[k] and owner0[k][0] == "scenario" and owner0[k][1] in stepless][:24]:
        failfast_fault(lab, mon, case, struct, owner0, obs0.hooks, k, rng.choice(["feature", "feature", "rule"]))


def replay(case, mon):
    from ..lab.inproc import RunLab
    lab = RunLab()
    lab.capture_hooks = set(case.get("capture_decorated_hooks") or ()) or None
    if case.get("hooks_read_status"):
        def reader(state, context, name, elem, tag):
            for obj in (elem, getattr(context, "scenario", None), getattr(context, "rule", None), getattr(context, "feature", None)):
                if obj is not None and hasattr(obj, "status"):
                    _ = obj.status
        lab.extra_hook_plugins = [reader]
    pred = runmodel.predict(case["program"], case["cfg"])
    struct = Struct(case["program"], pred)
    base = {k: v for k, v in case.items() if k != "hook_fault"}
    obs0 = lab.run(case["program"], args=case["args"])
    errs, owner0 = check_grammar(obs0.hooks, struct)
    print("fault-free grammar errors:", errs)
    f = case.get("hook_fault")
    if case.get("raising_cleanup_in_first_scenario"):
        base.pop("raising_cleanup_in_first_scenario", None)
        cleanup_then_fault(lab, mon, base, struct, random.Random(0), "thorough")
    elif f and "k" in f and case.get("fail_fast"):
        base.pop("fail_fast", None)
        failfast_fault(lab, mon, base, struct, owner0, obs0.hooks, f["k"], case["fail_fast"], f.get("exc", "Exception"))
    elif f and "k" in f:
        one_fault(lab, mon, base, struct, pred, obs0, calls_by_scenario(obs0), owner0, f["k"], f.get("exc", "Exception"))
        print("hook:", obs0.hooks[f["k"]], "owner:", owner0[f["k"]])


LEVEL_TEXT = ("Fault enumeration: for every generated program the fault-free hook log is recorded, checked by a nesting "
              "automaton with element identity and compared with the reference model; then every single hook invocation "
              "is made to raise (Exception / AssertionError) and the faulty run is compared with the fault-free one: "
              "nothing escapes, the run fails, the hook log still nests and pairs, the owning element (for tag hooks: the "
              "element carrying the tag) is hook_error, a failing before-phase suppresses the body, every element outside "
              "the owner's ancestry keeps its fault-free status, step statuses and step calls (with --stop: everything "
              "before is unchanged and nothing runs after). Thorough adds both exception kinds and pairs of faults.")
LEVEL_NOTE = "Trusted: the automaton and ownership attribution in this module; programs are small; one or two faults per run."
TECHNIQUE = "runtime monitoring: exhaustive single-fault injection at every hook call + online nesting automaton + differential comparison with the fault-free history; plus oracle-free invariant probes armed (sitecustomize) in every behave process that the repository's own acceptance features spawn"
