"""C13 -- Context scoping and cleanups: layered visibility, LIFO exactly-once cleanup."""
from __future__ import annotations

import io
import itertools
import random
import sys

from . import runbase as RB
from ..gen.prog import OUTCOMES
from ..ref.ctxmodel import CtxModel, MISSING
from ..ref import runmodel

ID = "C13"
LEVEL = "exploration"
RULE = ("(a) operation histories on a real Context object run in lock-step with a reference model: all histories up to "
        "length 4 (quick) / 5 (thorough) over {push feature, push scenario, pop, set a, set b, get a, delete a, 'a' in, "
        "set-root a, use_or_assign a, add_cleanup, add_cleanup (raising), add_cleanup(args), add_cleanup(layer=feature), "
        "use_fixture generator, use_fixture with failing setup}, random histories up to length 40 with composite "
        "fixtures, use_or_create_param, user-mode blocks that raise; (b) real runs in which hooks and steps at every level "
        "set attributes (unique and shadowing names) and register cleanups (plain / with args / layer=), ~10% raising, "
        "with --stop and failing steps; the recorded event log is checked offline against the scope model; "
        "(b') part of the runs carry user data with the names of the context attributes in use (absent stays absent), part hand every tag "
        "to use_fixture_by_tag() in before_tag (one setup and one teardown per tagged element); "
        "(c) execute_steps from steps that have their own text/table. A case = one history or one run; non-trivial = "
        "history with a pop after >=1 registration or a run with >=2 cleanup registrations; distinct by hash.")
ASSUMPTIONS = [
    "ContextMaskWarnings are not observed",
    "every registered cleanup is a distinct callable (de-duplication of the same plain callable is by design)",
    "text/table after a FAILING execute_steps are not demanded",
    "a cleanup error at the test-run layer fails the run; at feature/rule/scenario layer it makes the owner 'error'",
]
REQUIRED = {"wild.every_cleanup_ran_exactly_once": {"quick": 8, "thorough": 15}, "run.rule_attribute_ends_with_its_rule": 1000, "hist.observable_result": {"quick": 50000, "thorough": 2000000}, "hist.cleanup_order_exactly_once": {"quick": 10000, "thorough": 500000},
            "hist.pop_shrinks_stack_even_when_raising": {"quick": 10000, "thorough": 400000}, "hist.pop_raises_iff_cleanup_raised": {"quick": 10000, "thorough": 400000},
            "run.visibility": {"quick": 3000, "thorough": 150000}, "run.cleanups_lifo_exactly_once_at_scope_end": {"quick": 800, "thorough": 40000},
            "run.raising_cleanup_fails_owner_and_run": {"quick": 60, "thorough": 3000}, "run.execute_steps_restores_text_table": {"quick": 30, "thorough": 1500},
            "hist.mode_restored": {"quick": 50, "thorough": 2000}, "hist.scoped_layer_ends_with_its_block": {"quick": 500, "thorough": 20000},
            "tworuns.testrun_scope_of_run1_is_gone": {"quick": 40, "thorough": 1500}}
REQUIRED_SEEN = {"userdata": ["same_names_as_context_attributes"], "fixture_tags": ["several_in_one_run"], "cleanup_registered_from": ["before_all", "before_feature", "before_rule", "before_scenario", "before_step", "step", "after_step",
                                             "after_scenario", "before_tag"],
                 "cleanup_layer": ["current", "feature", "scenario", "testrun"],
                 "cleanup_shape": ["same_function_other_arguments"], "before_all_failed_after_registering": ["cleanups"], "generator_fixture_given_as": ["fx_partial", "fx_method"], "scoped_layer_name": ["has_upper_case", "lower_case"],
                 "scoped_block_left_by": ["normal", "RuntimeError", "KeyboardInterrupt", "SystemExit"]}
EXHAUSTIVE = True
EXHAUSTIVE_SCOPE = "all operation histories up to the length bound over the 16-operation alphabet"
NSHARDS = {"quick": 16, "thorough": 16}
OPS = ["push_f", "push_s", "pop", "set_a", "set_b", "get_a", "del_a", "in_a", "root_a", "assign_a", "cl", "cl_raise", "cl_args", "cl_layer_f",
       "fx_gen", "fx_bad"]


def plan(tier, seed):
    n = NSHARDS[tier]
    return [{"shard": i, "of": n, "seed": seed * 1000 + i} for i in range(n)]


def classify(name, w):
    if name == "run.raising_cleanup_fails_owner_and_run" and isinstance(w, dict) and w.get("skip_called_on_owner_after_its_cleanup_failed") \
            and w.get("verdict") is True and w.get("status") in ("passed", "skipped", "failed"):
        return "cleanup-error-lost-after-later-skip"
    return name


# ---------------------------------------------------------------------------
class HistLab(object):
    def __init__(self):
        from behave.runner import Context, ModelRunner, ContextMode
        from behave.configuration import Configuration
        from behave.fixture import use_fixture, use_composite_fixture_with, fixture_call_params, fixture
        self.Context, self.ModelRunner, self.ContextMode = Context, ModelRunner, ContextMode
        self.config = Configuration([], load_config=False)
        self.use_fixture, self.use_composite, self.fcp, self.fixture = use_fixture, use_composite_fixture_with, fixture_call_params, fixture

    def new(self):
        runner = self.ModelRunner(self.config, features=[])
        ctx = self.Context(runner)
        ctx._keep_runner = runner          # the context only holds a weak proxy
        return ctx


def run_history(lab, mon, ops, rng=None, label="exhaustive"):
    ctx = lab.new()
    model = CtxModel()
    model.set_root("aborted", False)        # (a new Context starts with aborted = False in its test-run scope)
    log = []            # cleanup ids in execution order
    counter = [0]
    raising = set()
    trace = []
    shared = {}

    def W(**kw):
        return dict(history=list(trace), **kw)

    def make_cleanup(raises=False, with_args=False):
        counter[0] += 1
        cid = counter[0]
        if raises:
            raising.add(cid)
        def boom():
            # what real clean-up code raises: exceptions with no, one or several arguments
            kind = cid % 5
            if kind == 0:
                raise OSError(2, "No such file or directory", "workdir-%d" % cid)
            if kind == 1:
                raise ValueError("cleanup %d" % cid, 42)
            if kind == 2:
                raise KeyError()
            if kind == 3:
                import subprocess
                raise subprocess.CalledProcessError(3, ["rm", "-rf", "x%d" % cid])
            raise RuntimeError("cleanup %d" % cid)
        if with_args:
            def cleanup(x, y=None):
                log.append(cid)
                if raises:
                    boom()
        else:
            def cleanup():
                log.append(cid)
                if raises:
                    boom()
        return cid, cleanup

    def do_pop():
        want = []
        for c in model.pop():
            want.extend(c if isinstance(c, tuple) else [c])
        n0 = len(ctx._stack)
        del log[:]
        raised = None
        try:
            ctx._pop()
        except Exception as ex:
            raised = ex
        mon.check("hist.cleanup_order_exactly_once", log == want, lambda: W(got=list(log), want=want))
        mon.check("hist.pop_shrinks_stack_even_when_raising", len(ctx._stack) == n0 - 1, lambda: W(before=n0, after=len(ctx._stack), raised=repr(raised)))
        should = any(c in raising for c in want)
        mon.check("hist.pop_raises_iff_cleanup_raised", (raised is not None) == should, lambda: W(raised=repr(raised), raising=sorted(raising & set(want))))

    val = [100]
    for op in ops:
        trace.append(op if isinstance(op, str) else list(op))
        name = None
        if isinstance(op, tuple):
            op, name = op
        if op in ("push_f", "push_s", "push_r"):
            layer = {"push_f": "feature", "push_s": "scenario", "push_r": "rule"}[op]
            ctx._push(layer)
            model.push(layer)
        elif op == "pop":
            if model.depth <= 1:
                trace.pop()
                continue
            do_pop()
        elif op in ("set_a", "set_b", "set"):
            n = name or op[-1]
            val[0] += 1
            setattr(ctx, n, val[0])
            model.set(n, val[0])
        elif op in ("get_a", "get"):
            n = name or "a"
            want = model.get(n)
            try:
                got = getattr(ctx, n)
            except AttributeError:
                got = MISSING
            mon.check("hist.observable_result", got is want or got == want, lambda: W(op="get", name=n, got=repr(got), want=repr(want)))
        elif op in ("in_a", "in"):
            n = name or "a"
            mon.check("hist.observable_result", (n in ctx) == model.contains(n), lambda: W(op="in", name=n, got=(n in ctx), want=model.contains(n)))
        elif op in ("del_a", "del"):
            n = name or "a"
            want_ok = model.delete(n)
            try:
                delattr(ctx, n)
                got_ok = True
            except AttributeError:
                got_ok = False
            except Exception as ex:
                got_ok = repr(ex)
            mon.check("hist.observable_result", got_ok == want_ok, lambda: W(op="del", name=n, got=got_ok, want=want_ok))
        elif op == "set_none_a":
            # an attribute that EXISTS with the value None (context.proxy = None) is not a missing attribute
            ctx.a = None
            model.set("a", None)
        elif op in ("root_a", "root"):
            n = name or "a"
            val[0] += 1
            ctx._set_root_attribute(n, val[0])
            model.set_root(n, val[0])
        elif op in ("assign_a", "assign"):
            n = name or "a"
            val[0] += 1
            exists = model.contains(n)
            want = model.get(n) if exists else val[0]
            got = ctx.use_or_assign_param(n, val[0])
            if not exists:
                model.set(n, val[0])
            mon.check("hist.observable_result", got == want, lambda: W(op="use_or_assign_param", name=n, got=got, want=want))
        elif op == "create":
            n = name or "a"
            val[0] += 1
            exists = model.contains(n)
            want = model.get(n) if exists else val[0]
            called = []
            v = val[0]
            got = ctx.use_or_create_param(n, lambda k=1: (called.append(1), v)[1], k=2)
            if not exists:
                model.set(n, v)
            mon.check("hist.observable_result", got == want and bool(called) == (not exists),
                      lambda: W(op="use_or_create_param", name=n, got=got, want=want, factory_called=bool(called)))
        elif op in ("cl", "cl_raise", "cl_args"):
            cid, fn = make_cleanup(op == "cl_raise" or (rng is not None and rng.random() < 0.15), op == "cl_args")
            if op == "cl_args":
                ctx.add_cleanup(fn, 1, y=2)
            else:
                ctx.add_cleanup(fn)
            model.add_cleanup(cid)
        elif op == "abort":
            # context.abort() from whatever scope: the flag belongs to the test run (visible everywhere, survives the scope)
            ctx.abort()
            model.set_root("aborted", True)
            mon.seen("abort_called_in_scope_depth", str(min(model.depth, 3)))
        elif op == "cl_same_fn_args":
            # ONE function registered twice with different arguments: two cleanups (only the very same call is a duplicate)
            cid1, _f1 = make_cleanup(False)
            cid2, _f2 = make_cleanup(False)

            def release(which, log=log):
                log.append(which)
            ctx.add_cleanup(release, cid1)
            ctx.add_cleanup(release, cid2)
            model.add_cleanup(cid1)
            model.add_cleanup(cid2)
            mon.seen("cleanup_shape", "same_function_other_arguments")
        elif op == "cl_nesting":
            # a cleanup (e.g. a fixture teardown) that itself works inside a nested scope: opens a layer, registers a passing
            # cleanup there, closes it -- no net effect on the stack, and it must not disturb the bookkeeping of the outer pop
            counter[0] += 1
            cid = counter[0]
            counter[0] += 1
            inner_cid = counter[0]

            def nesting_cleanup(cid=cid, inner_cid=inner_cid):
                log.append(cid)
                ctx._push("nested")
                try:
                    ctx.add_cleanup(lambda: log.append(inner_cid))
                finally:
                    ctx._pop()
            ctx.add_cleanup(nesting_cleanup)
            model.add_cleanup((cid, inner_cid))
        elif op in ("cl_layer_f", "cl_layer_s", "cl_layer_t", "cl_layer_x"):
            layer = {"f": "feature", "s": "scenario", "t": "testrun", "x": "nosuchlayer"}[op[-1]]
            cid, fn = make_cleanup(rng is not None and rng.random() < 0.15)
            ok = model.add_cleanup(cid, layer)
            try:
                ctx.add_cleanup(fn, layer=layer)
                got = True
            except LookupError:
                got = False
            mon.check("hist.observable_result", got == ok, lambda: W(op="add_cleanup(layer=%s)" % layer, got=got, want=ok))
        elif op == "fx_gen":
            cid, teardown = make_cleanup(rng is not None and rng.random() < 0.1)

            def fx(context, teardown=teardown):
                context.fx_value = 1
                yield 42
                teardown()
            model.add_cleanup(cid)
            model.set("fx_value", 1)
            got = lab.use_fixture(lab.fixture(fx), ctx)
            mon.check("hist.observable_result", got == 42, lambda: W(op="use_fixture(generator)", got=got))
        elif op in ("cl_same", "cl_same_layer_f", "cl_same_layer_s"):
            # ONE plain callable registered repeatedly: once per scope it is registered for
            if "same" not in shared:
                counter[0] += 1
                scid = counter[0]

                def same_cleanup():
                    log.append(scid)
                shared["same"] = (scid, same_cleanup)
            scid, fn = shared["same"]
            layer = {"cl_same": None, "cl_same_layer_f": "feature", "cl_same_layer_s": "scenario"}[op]
            ok = model.add_cleanup(scid, layer, unique=True)
            try:
                if layer:
                    ctx.add_cleanup(fn, layer=layer)
                else:
                    ctx.add_cleanup(fn)
                got = True
            except LookupError:
                got = False
            mon.check("hist.observable_result", got == ok, lambda: W(op=op, got=got, want=ok))
        elif op == "fx_nested":
            # a generator fixture whose setup part uses another generator fixture: inner teardown runs first
            cid_o, t_o = make_cleanup(False)
            cid_i, t_i = make_cleanup(False)

            def inner(context, t_i=t_i):
                yield "inner"
                t_i()

            def outer(context, t_o=t_o, inner=inner):
                got_inner = lab.use_fixture(lab.fixture(inner), context)
                yield "outer+" + got_inner
                t_o()
            model.add_cleanup(cid_o)
            model.add_cleanup(cid_i)
            got = lab.use_fixture(lab.fixture(outer), ctx)
            mon.check("hist.observable_result", got == "outer+inner", lambda: W(op="nested fixture", got=got))
        elif op in ("fx_partial", "fx_method", "fx_callable_object"):
            # a generator fixture handed over in another callable form: functools.partial(gen, ...), a bound method, an object with
            # a generator __call__ (fixture registries built with partial are the documented way to parametrise fixtures)
            import functools
            cid, teardown = make_cleanup(False)
            setup_ran = []

            def gen_fixture(context, flavour, teardown=teardown, setup_ran=setup_ran):
                setup_ran.append(flavour)
                yield "value:" + flavour
                teardown()

            if op == "fx_partial":
                fx_obj, want_value = functools.partial(gen_fixture, flavour="partial"), "value:partial"
            else:
                # (a plain function returning a generator is NOT a generator function: only partial is exercised as 'other form';
                #  bound generator methods are generator functions)
                class Holder2(object):
                    def method(self, context, _teardown=teardown, _setup_ran=setup_ran):
                        _setup_ran.append("method")
                        yield "value:method"
                        _teardown()
                fx_obj, want_value = Holder2().method, "value:method"
            got = lab.use_fixture(fx_obj, ctx)
            model.add_cleanup(cid)
            mon.check("hist.observable_result", got == want_value and len(setup_ran) == 1,
                      lambda: W(op="use_fixture(%s)" % op, got=repr(got), want=want_value, setup_part_ran=list(setup_ran)))
            mon.seen("generator_fixture_given_as", op)
        elif op == "fx_plain":
            def fxp(context):
                return "plain"
            got = lab.use_fixture(lab.fixture(fxp), ctx)
            mon.check("hist.observable_result", got == "plain", lambda: W(op="use_fixture(plain)", got=got))
        elif op == "fx_bad":
            cid, teardown = make_cleanup(False)

            def fxb(context, teardown=teardown):
                raise ValueError("setup fails")
                yield 1         # noqa
                teardown()
            try:
                lab.use_fixture(lab.fixture(fxb), ctx)
                got = "no error"
            except ValueError:
                got = "ValueError"
            mon.check("hist.observable_result", got == "ValueError", lambda: W(op="use_fixture(failing setup)", got=got))
            # its teardown part must never run: cid is NOT added to the model
        elif op == "fx_composite":
            cid1, t1 = make_cleanup(False)
            cid2, t2 = make_cleanup(False)

            def f1(context, t1=t1):
                yield "one"
                t1()

            def f2(context, t2=t2):
                yield "two"
                t2()

            def bad(context):
                raise ValueError("composite setup fails")
            with_bad = rng is not None and rng.random() < 0.5
            model.add_cleanup(cid1)
            parts = [lab.fcp(lab.fixture(f1))]
            if with_bad:
                parts.append(lab.fcp(lab.fixture(bad)))
            else:
                parts.append(lab.fcp(lab.fixture(f2)))
                model.add_cleanup(cid2)
            try:
                got = lab.use_composite(ctx, parts)
            except ValueError:
                got = "ValueError"
            mon.check("hist.observable_result", got == ("ValueError" if with_bad else ["one", "two"]), lambda: W(op="composite", got=got, with_bad=with_bad))
        elif op in ("scoped_ok", "scoped_exc", "scoped_ki", "scoped_exit"):
            # behave.runner.scoped_context_layer (documented for fixtures used inside a temporary scope): however the block
            # is left -- normally, by an exception, by KeyboardInterrupt / SystemExit -- the scope ends there: its attributes
            # are gone, its cleanups have run exactly once, the stack is as deep as before
            from behave.runner import scoped_context_layer
            leave = {"scoped_ok": None, "scoped_exc": RuntimeError, "scoped_ki": KeyboardInterrupt, "scoped_exit": SystemExit}[op]
            cid, fn = make_cleanup(False)
            n0 = len(ctx._stack)
            del log[:]
            val[0] += 1
            raised = None
            try:
                lname = rng.choice([None, "scenario", "tmp", "Import", "DB", "subScenario"]) if rng is not None else None
                with scoped_context_layer(ctx, lname):
                    ctx.scoped_value = val[0]
                    if lname is not None and lname != "scenario":
                        ctx.add_cleanup(fn, layer=lname)        # by the name the scope was opened with, as written
                        mon.seen("scoped_layer_name", "has_upper_case" if lname.lower() != lname else "lower_case")
                    else:
                        ctx.add_cleanup(fn)
                    if leave is not None:
                        raise leave("leaving the block")
            except BaseException as ex:
                raised = ex
            want_attr = model.get("scoped_value")
            got_attr = getattr(ctx, "scoped_value", MISSING)
            mon.check("hist.scoped_layer_ends_with_its_block",
                      len(ctx._stack) == n0 and log == [cid] and (got_attr is want_attr or got_attr == want_attr) and
                      ((raised is None) if leave is None else isinstance(raised, leave)),
                      lambda: W(op=op, depth_before=n0, depth_after=len(ctx._stack), cleanups_run=list(log), want_cleanups=[cid],
                                scoped_value_after=repr(got_attr), raised=repr(raised)))
            mon.seen("scoped_block_left_by", "normal" if leave is None else leave.__name__)
            if len(ctx._stack) != n0:
                return      # the lock-step model cannot follow a corrupted stack
        elif op == "user_mode_raise":
            before = ctx._mode
            try:
                with ctx.use_with_user_mode():
                    inside = ctx._mode
                    raise KeyError("inside block")
            except KeyError:
                pass
            mon.check("hist.mode_restored", ctx._mode is before and inside is lab.ContextMode.USER, lambda: W(before=str(before), after=str(ctx._mode)))
    # ---- unwind ------------------------------------------------------------------------------------------
    while model.depth > 1:
        trace.append("pop(final)")
        do_pop()
    want = []
    for c in model.root_cleanups():
        want.extend(c if isinstance(c, tuple) else [c])
    del log[:]
    raised = None
    try:
        ctx._do_cleanups()
    except Exception as ex:
        raised = ex
    mon.check("hist.cleanup_order_exactly_once", log == want, lambda: W(at="testrun end", got=list(log), want=want))
    mon.check("hist.pop_raises_iff_cleanup_raised", (raised is not None) == any(c in raising for c in want), lambda: W(at="testrun end", raised=repr(raised)))


# ---------------------------------------------------------------------------
# real runs
# ---------------------------------------------------------------------------
def real_run(lab, mon, rng, case, sample=False):
    program, args, cfg = case["program"], case["args"], case["cfg"]
    ev = []              # unified event list
    cid_counter = [0]
    names = set()
    raising = set()
    plan_rng = random.Random(rng.random())

    MISSING = object()

    def snapshot(context):
        # a name that is not in the context (never set, or its scope has ended) is ABSENT for every way of asking -- also when the
        # run has user data of the same name (behave -D shared=...: that lives in context.config.userdata, not in the context)
        for n in sorted(names | set(["shared", "other"])):
            if n not in context:
                leaked = getattr(context, n, MISSING)
                mon.check("run.attribute_outside_its_scope_is_absent", leaked is MISSING and not hasattr(context, n),
                          lambda: RB.witness(case, attribute=n, getattr_gives=repr(leaked), hasattr=hasattr(context, n)))
        return {n: getattr(context, n) for n in names if n in context}

    def act(context, where, elem_name):
        """At a user-code point: record what is visible, then set attributes and register cleanups."""
        ev.append(("point", where, elem_name, snapshot(context)))
        r = plan_rng.random()
        if r < 0.45:
            n = plan_rng.choice(["shared", "v%d" % len(names), "other"])
            v = "%s@%d" % (where, len(ev))
            setattr(context, n, v)
            names.add(n)
            ev.append(("set", n, v))
        if plan_rng.random() < 0.3:
            cid_counter[0] += 1
            cid = cid_counter[0]
            raises = plan_rng.random() < 0.12
            if raises:
                raising.add(cid)
            layer = plan_rng.choice([None, None, None, "feature", "scenario", "testrun", "rule"])

            def cleanup(*a, **k):
                ev.append(("cleanup", cid))
                if raises:
                    raise RuntimeError("cleanup %d" % cid)
            try:
                if layer:
                    context.add_cleanup(cleanup, layer=layer)
                elif plan_rng.random() < 0.3:
                    context.add_cleanup(cleanup, 1, k=2)
                else:
                    context.add_cleanup(cleanup)
                ev.append(("register", cid, layer, where))
                mon.seen("cleanup_registered_from", where)
                mon.seen("cleanup_layer", layer or "current")
            except LookupError:
                ev.append(("register_failed", cid, layer, where))

    # fixture tags: in a part of the runs every tag of the alphabet is a fixture tag that the environment hands to
    # use_fixture_by_tag() in before_tag (the documented recipe): setup now, teardown when the scope of the tagged element ends
    fx_log = []
    fx_on = bool(case.get("fixture_tags"))
    if fx_on:
        from behave.fixture import fixture as _fixture, use_fixture_by_tag as _use_by_tag

        def make_fx(tagname):
            @_fixture
            def fx(context, *a, **k):
                token = object()
                fx_log.append(("setup", tagname, len(ev), id(token)))
                yield token
                fx_log.append(("teardown", tagname, len(ev), id(token)))
            return fx
        fx_registry = {t: make_fx(t) for t in ("a", "b", "c", "d", "e", "wip")}

    def hook_plugin(state, context, name, elem, tag):
        ename = getattr(elem, "name", None)
        if fx_on and name == "before_tag" and tag in fx_registry:
            n0 = len(fx_log)
            got_fx = _use_by_tag(tag, context, fx_registry)
            new = fx_log[n0:]
            mon.check("run.fixture_tag_sets_up_a_fixture_of_its_own", len(new) == 1 and new[0][:2] == ("setup", tag) and id(got_fx) == new[0][3],
                      lambda: RB.witness(case, tag=tag, fixture_events_of_this_call=[list(x[:3]) for x in new], returned=repr(got_fx)))
            fx_log.append(("use", tag, len(ev), None))
        if name.endswith("_step"):
            sc = getattr(context, "scenario", None)
            ename = sc.name if sc is not None else None
        ev.append(("hook", name, ename, tag))
        if name in ("after_feature", "after_rule", "after_all", "before_feature", "before_rule"):
            # context.active_outline has the life cycle "scenario outline" (docs/context_attributes): outside an outline -- also
            # after an outline that was cut short by --stop -- it is None
            ao = getattr(context, "active_outline", None)
            mon.check("run.active_outline_ends_with_its_outline", ao is None,
                      lambda: RB.witness(case, hook=name, element=ename, active_outline=repr(ao)))
        if name in ("after_feature", "before_feature", "after_all", "before_all"):
            # context.rule has the life cycle "rule" (docs/context_attributes): it is gone when its rule has ended
            seen_rule = getattr(context, "rule", None) if "rule" in context else None
            mon.check("run.rule_attribute_ends_with_its_rule", "rule" not in context,
                      lambda: RB.witness(case, hook=name, element=ename, rule_still_visible=repr(seen_rule)))
        elif name in ("before_rule", "after_rule"):
            mon.check("run.rule_attribute_ends_with_its_rule", getattr(context, "rule", None) is elem,
                      lambda: RB.witness(case, hook=name, element=ename, rule_visible=repr(getattr(context, "rule", None))))
        act(context, name, ename)

    def step_plugin(state, context, text):
        sc = getattr(context, "scenario", None)
        ev.append(("step", sc.name if sc is not None else None, text))
        act(context, "step", sc.name if sc is not None else None)

    obs = lab.run(program, args=args, step_plugins=[step_plugin], hook_plugins=[hook_plugin], hook_fault=case.get("hook_fault"))
    W = lambda **kw: RB.witness(case, **kw)
    if case.get("hook_fault"):
        # before_all raised AFTER it had set things up: the run is over, the test-run scope ends like any other -- every cleanup
        # registered in it runs exactly once
        regs = [e[1] for e in ev if e[0] == "register"]          # (registered from before_all -- and from after_all, which still runs)
        ran = [e[1] for e in ev if e[0] == "cleanup"]
        mon.check("run.testrun_cleanups_after_failing_before_all", obs.escaped is None and sorted(ran) == sorted(regs),
                  lambda: W(registered_in_before_all=regs, cleanups_run=ran, escaped=repr(obs.escaped)))
        if any(e[0] == "register" and e[3] == "before_all" for e in ev):
            mon.seen("before_all_failed_after_registering", "cleanups")
        return
    if obs.escaped is not None:
        mon.check("run.no_exception_escapes", False, lambda: W(escaped=repr(obs.escaped)))
        return
    if fx_on:
        uses = [x for x in fx_log if x[0] == "use"]
        for t in sorted(set(x[1] for x in uses)):
            n_use = sum(1 for x in uses if x[1] == t)
            n_set = sum(1 for x in fx_log if x[0] == "setup" and x[1] == t)
            n_down = sum(1 for x in fx_log if x[0] == "teardown" and x[1] == t)
            mon.check("run.fixture_tag_setup_and_teardown_once_per_tagged_element", n_use == n_set == n_down,
                      lambda: W(tag=t, before_tag_calls=n_use, setups=n_set, teardowns=n_down))
        levels = set()
        for e in ev:
            if e[0] == "hook" and e[1] == "before_tag":
                levels.add(e[3])
        if len(uses) >= 2:
            mon.seen("fixture_tags", "several_in_one_run")
    pred = runmodel.predict(program, cfg)
    nreg = sum(1 for e in ev if e[0] == "register")
    mon.case(("run", RB.strip_case(case), nreg), nreg >= 2)
    # ---- offline check of the event log against the scope model ---------------------------------------------
    model = CtxModel()
    i = 0
    n = len(ev)
    stack_elems = []          # (kind, name) parallel to model frames[1:]
    failed_owner = []         # owners whose cleanup raised
    problems = []

    def expect_cleanups(order, where):
        """The next events must be exactly these cleanup events."""
        nonlocal i
        got = []
        while i < n and ev[i][0] == "cleanup":
            got.append(ev[i][1])
            i += 1
        mon.check("run.cleanups_lifo_exactly_once_at_scope_end", got == order, lambda: W(scope=where, got=got, want=order))
        return got

    hooks_only = [(k, e) for k, e in enumerate(ev) if e[0] == "hook"]
    # attribute tag hooks to their element by lookahead / lookback
    owner_of = {}
    for idx, (k, e) in enumerate(hooks_only):
        if e[1] == "before_tag":
            j = idx
            while j < len(hooks_only) and hooks_only[j][1][1] == "before_tag":
                j += 1
            if j < len(hooks_only):
                owner_of[k] = (hooks_only[j][1][1].split("_", 1)[1], hooks_only[j][1][2])
    pending_close = None       # (kind, name, remaining after_tag count)
    opened = set()
    tags_of = {}
    from .c12 import Struct
    struct = Struct(program, pred)
    while i < n:
        e = ev[i]
        k = e[0]
        if k == "hook":
            name, ename, tag = e[1], e[2], e[3]
            if pending_close is not None and name != "after_tag":
                kind, en, _ = pending_close
                order = model.pop()
                stack_elems.pop()
                pending_close = None
                got = expect_cleanups(order, "%s %s" % (kind, en))
                if any(c in raising for c in got):
                    failed_owner.append((kind, en))
                continue
            if name == "before_all":
                pass
            elif name == "after_all":
                pass
            elif name == "before_tag":
                own = owner_of.get(i)
                if own and own not in opened:
                    opened.add(own)
                    model.push(own[0])
                    stack_elems.append(own)
            elif name in ("before_feature", "before_rule", "before_scenario"):
                own = (name.split("_", 1)[1], ename)
                if own not in opened:
                    opened.add(own)
                    model.push(own[0])
                    stack_elems.append(own)
            elif name in ("after_feature", "after_rule", "after_scenario"):
                kind = name.split("_", 1)[1]
                pending_close = (kind, ename, len(struct.tags.get(ename) or []))
            i += 1
            continue
        if k == "step":
            if pending_close is not None:
                problems.append("step event before scope close at %d" % i)
            i += 1
            continue
        if k == "point":
            want = {kk: v for kk, v in model.visible().items()}
            got = e[3]
            mon.check("run.visibility", got == want, lambda: W(at=(e[1], e[2]), got=got, want=want, scopes=list(stack_elems)))
            i += 1
            continue
        if k == "set":
            model.set(e[1], e[2])
            i += 1
            continue
        if k == "register":
            ok = model.add_cleanup(e[1], e[2])
            if not ok:
                problems.append("registration accepted for missing layer %r" % (e[2],))
            i += 1
            continue
        if k == "register_failed":
            ok = any(fr["layer"] == e[2] for fr in model.frames)
            mon.check("run.layer_lookup", not ok, lambda: W(layer=e[2], note="LookupError although the layer exists", scopes=list(stack_elems)))
            i += 1
            continue
        if k == "cleanup":
            # a cleanup event outside a scope close
            if pending_close is not None:
                kind, en, _ = pending_close
                order = model.pop()
                stack_elems.pop()
                pending_close = None
                got = expect_cleanups(order, "%s %s" % (kind, en))
                if any(c in raising for c in got):
                    failed_owner.append((kind, en))
                continue
            # test-run layer at the very end
            rest = [x[1] for x in ev[i:] if x[0] == "cleanup"]
            if all(x[0] == "cleanup" for x in ev[i:]) and model.depth == 1:
                order = model.root_cleanups()
                got = expect_cleanups(order, "testrun")
                if any(c in raising for c in got):
                    failed_owner.append(("testrun", None))
                continue
            mon.check("run.cleanups_lifo_exactly_once_at_scope_end", False, lambda: W(note="cleanup ran outside a scope end", index=i, event=list(e), scopes=list(stack_elems)))
            i += 1
            continue
        i += 1
    if pending_close is not None:
        kind, en, _ = pending_close
        order = model.pop()
        stack_elems.pop()
        got = expect_cleanups(order, "%s %s" % (kind, en))
        if any(c in raising for c in got):
            failed_owner.append((kind, en))
    if model.depth == 1 and model.frames[0]["cleanups"]:
        mon.check("run.cleanups_lifo_exactly_once_at_scope_end", False, lambda: W(note="test-run cleanups never ran", pending=model.frames[0]["cleanups"]))
    # scopes opened without after-hook (aborted runs) are not unwound here
    for kind, en in failed_owner:
        if kind == "testrun":
            mon.check("run.raising_cleanup_fails_owner_and_run", bool(obs.verdict) is True, lambda: W(owner="testrun", verdict=obs.verdict))
        else:
            st = obs.elem_status.get(en)
            mon.check("run.raising_cleanup_fails_owner_and_run", st == "error" and bool(obs.verdict) is True,
                      lambda: W(owner=(kind, en), status=st, verdict=obs.verdict))
    if sample:
        mon.sample({"features": RB.case_texts(case), "args": args, "events": [list(map(str, e[:3])) for e in ev[:50]]})

def two_runs_on_one_runner(lab, mon, rng, n):
    """ModelRunner.run() twice on the same runner object: the test-run scope of run 1 ends with run 1 -- its attributes are gone
    and its cleanups have run exactly once (they are not run again at the end of run 2)."""
    for i in range(n):
        case = RB.gen_case(rng, tags=False, p_stop=0.0, p_dry=0.0, gen={"max_features": 2, "p_nonpass": rng.choice([0.0, 0.4])})
        program = case["program"]
        log = []
        runno = [1]
        seen_in_before_all = {}

        def hook_plugin(state, context, name, elem, tag):
            r = runno[0]
            if name == "before_all":
                seen_in_before_all[r] = {k: (k in context) for k in ("from_before_all_1", "from_feature_hook_1", "from_before_all_2")}
                seen_in_before_all[r]["failed"] = bool(context.failed)
                setattr(context, "from_before_all_%d" % r, r)
                context.add_cleanup(lambda r=r: log.append(("testrun-cleanup", r, runno[0])))
            elif name == "before_feature":
                context._set_root_attribute("from_feature_hook_%d" % r, r) if False else None
                context.add_cleanup(lambda r=r, en=elem.name: log.append(("feature-cleanup", r, runno[0], en)))
                context.add_cleanup(lambda r=r: log.append(("testrun-cleanup-from-feature", r, runno[0])), layer="testrun")
        second = {}

        def second_run(st):
            runno[0] = 2
            st.calls[:] = []
            st.outcomes = {t: ("pass" if oc not in ("undefined", "conv") else oc) for t, oc in program["outcomes"].items()}
            second["verdict"] = st.runner.run()
        obs = lab.run(program, args=[], hook_plugins=[hook_plugin], second_run=second_run)
        mon.case(("two-runs", RB.strip_case(case)), True)
        W = lambda **kw: RB.witness(case, **kw)
        if obs.escaped is not None:
            mon.check("tworuns.no_exception_escapes", False, lambda: W(escaped=repr(obs.escaped)))
            continue
        s2 = seen_in_before_all.get(2, {})
        mon.check("tworuns.testrun_scope_of_run1_is_gone", 2 in seen_in_before_all and not s2.get("from_before_all_1") and not s2.get("failed"),
                  lambda: W(visible_in_before_all_of_run_2=s2))
        ran_in = {}
        for rec in log:
            if rec[0].startswith("testrun-cleanup"):
                ran_in.setdefault((rec[0], rec[1]), []).append(rec[2])
        bad = {str(k): v for k, v in ran_in.items() if v != [k[1]] and not (k[0] == "testrun-cleanup-from-feature" and len(v) >= 1 and set(v) == {k[1]})}
        mon.check("tworuns.cleanups_exactly_once_in_their_own_run", not bad and any(k[1] == 1 for k in ran_in),
                  lambda: W(registered_in_run__executed_in_runs=bad, log=log[:12]))

def cleanup_error_then_skip(lab, mon, rng, n):
    """A scenario whose cleanup raised is 'error'.  Later user code (a fail-fast environment) calls feature.skip() because ANOTHER
    scenario failed: the statement says a raising cleanup makes the owning element fail -- it should still be failed afterwards."""
    for i in range(n):
        feat = {"kind": "feature", "tags": [], "name": "F0", "desc": [], "background": None, "file": "f0.feature", "items": [
            {"kind": "scenario", "tags": [], "name": "F0S1", "desc": [], "steps": [{"kw": "Given", "text": "k1 fine"}, {"kw": "Then", "text": "k2 fine"}]},
            {"kind": "scenario", "tags": [], "name": "F0S2", "desc": [], "steps": [{"kw": "Given", "text": "k3 breaks"}, {"kw": "Then", "text": "k4 fine"}]}]}
        program = {"features": [feat], "outcomes": {"k3 breaks": rng.choice(["fail", "error"])}}
        late_skip = i % 2 == 0

        def plug(state, context, name, elem, tag):
            if name == "before_scenario" and elem.name == "F0S1":
                def bad_cleanup():
                    raise RuntimeError("injected cleanup failure")
                context.add_cleanup(bad_cleanup)
            if late_skip and name == "after_scenario" and elem.name == "F0S2":
                context.feature.skip(reason="fail fast")
        obs = lab.run(program, args=[], hook_plugins=[plug])
        case = {"program": program, "args": [], "cfg": {"tags": None, "stop": False, "dry_run": False, "names": None, "cafs": False}}
        mon.case(("cleanup-then-skip", late_skip, program["outcomes"]["k3 breaks"]), True)
        if obs.escaped is not None:
            mon.check("run.no_exception_escapes", False, lambda: RB.witness(case, escaped=repr(obs.escaped)))
            continue
        st = obs.elem_status.get("F0S1")
        mon.check("run.raising_cleanup_fails_owner_and_run", st == "error" and bool(obs.verdict) is True,
                  lambda: dict(owner="F0S1", status=st, verdict=bool(obs.verdict), skip_called_on_owner_after_its_cleanup_failed=late_skip,
                               statuses=obs.elem_status))


def execute_steps_runs(lab, mon, rng, n):
    for i in range(n):
        sub_ok = i % 4 != 3
        feat = {"kind": "feature", "tags": [], "name": "F0", "desc": [], "background": None, "file": "f0.feature", "items": [
            {"kind": "scenario", "tags": [], "name": "F0S1", "desc": [], "steps": [
                {"kw": "Given", "text": "k1 outer with table", "table": {"header": ["h"], "rows": [["outer%d" % i]]}},
                {"kw": "When", "text": "k2 outer with doc", "doc": "outer text %d" % i},
                {"kw": "Then", "text": "k3 plain"}]}]}
        program = {"features": [feat], "outcomes": {"k9 sub fails": "fail"}}
        seen = {}

        def plug(state, context, text):
            if text.startswith("k9"):
                return
            before = (None if context.text is None else str(context.text),
                      None if context.table is None else [list(r.cells) for r in context.table.rows])
            sub = u"Given k9 sub one\n  \"\"\"\n  inner doc\n  \"\"\"\nWhen k9 sub two\n  | x |\n  | inner |\n"
            if not sub_ok and text.startswith("k2"):
                # a sub-step in the MIDDLE does not pass: the nested execution stops there, "k9 sub late" is never called
                sub += u"Then k9 sub fails\nAnd k9 sub late\n"
            try:
                context.execute_steps(sub)
                ok = True
            except AssertionError:
                ok = False
            after = (None if context.text is None else str(context.text),
                     None if context.table is None else [list(r.cells) for r in context.table.rows])
            seen[text] = (before, after, ok)
            if not ok:
                raise AssertionError("sub-step failed")
        obs = lab.run(program, args=[], step_plugins=[plug])
        mon.case(("execute_steps", i, sub_ok), True)
        for text, (before, after, ok) in seen.items():
            if ok:
                mon.check("run.execute_steps_restores_text_table", before == after,
                          lambda: dict(step=text, before=before, after=after))
        if not sub_ok:
            called = [c[1] for c in obs.calls]
            mon.check("run.execute_steps_stops_at_first_failing_substep", "k9 sub fails" in called and "k9 sub late" not in called,
                      lambda: dict(calls=called))
        mon.check("run.execute_steps_outer_values", seen.get("k1 outer with table", ((None, None),))[0][1] == [["outer%d" % i]] and
                  seen.get("k2 outer with doc", ((None, None),))[0][0] == "outer text %d" % i, lambda: dict(seen={k: v[0] for k, v in seen.items()}))


def process_cleanups(mon, rng):
    """`python -m behave` in several process environments (optimised interpreter, ...): a cleanup that the environment registers in
    its k-th hook call runs exactly once -- although it raises."""
    from ..lab.subproc import Project
    case = RB.gen_case(rng, gen={"max_features": 2, "p_nonpass": 0.2, "outcomes": ["fail", "error"], "p_stepless": 0.0}, p_stop=0.0, p_dry=0.0, tags=False)
    k = rng.randrange(0, 8)
    proj = Project(case["program"], {"cleanup_fault": {"k": k}})
    try:
        envname = RB.pick_environment(rng, mon, ["plain", "optimized", "optimized_by_variable", "warnings_as_errors_for_user_code"])
        res = proj.run(case["args"] + ["-f", "plain"], environment=envname)
    finally:
        proj.close()
    if res.get("timeout"):
        mon.note("subprocess watchdog fired (inconclusive case)")
        return
    hooks = [e for e in res["events"] if e[0] == "hook"]
    if len(hooks) <= k:
        return
    ran = [e for e in res["events"] if e[0] == "cleanup-ran"]
    c2 = dict(case, cleanup_registered_in_hook_call=k, process_environment=envname)
    mon.case(("process-cleanup", RB.strip_case(c2)), True)
    mon.check("process.cleanup_runs_exactly_once", len(ran) == 1,
              lambda: RB.witness(c2, hook=hooks[k][1:], times_run=len(ran), rc=res["rc"], stderr=res["stderr"][-400:]))


def run(spec, mon):
    from ..lab.inproc import RunLab
    tier = spec.get("tier", "quick")
    rng = random.Random(spec["seed"])
    shard, of = spec["shard"], spec["of"]
    hl = HistLab()
    sink = io.StringIO()
    real_stdout = sys.stdout
    sys.stdout = sink            # CLEANUP-ERROR tracebacks are printed by design
    try:
        maxlen = 4 if tier == "quick" else 5
        idx = 0
        for L in range(1, maxlen + 1):
            for ops in itertools.product(OPS, repeat=L):
                idx += 1
                if idx % of != shard:
                    continue
                if tier == "quick" and L == 4 and (idx // of) % 4:
                    continue
                if tier == "thorough" and L == 5 and (idx // of) % 3:
                    continue
                mon.case(("hist", ops), "pop" in ops and any(o.startswith(("cl", "fx")) for o in ops))
                run_history(hl, mon, list(ops))
                if sink.tell() > 1 << 20:
                    sink.seek(0)
                    sink.truncate()
        mon.count("exhaustive_histories_enumerated", idx if shard == 0 else 0)
        ALL = OPS + ["set_none_a", "set_none_a", "create", "cl_nesting", "cl_nesting", "cl_same", "cl_same", "cl_same_layer_f", "cl_same_layer_s", "fx_nested", "push_r", "cl_layer_s", "cl_layer_t", "cl_layer_x", "fx_plain", "fx_composite", "user_mode_raise", "create", "scoped_ok", "scoped_exc", "scoped_ki", "scoped_exit", "fx_partial", "fx_partial", "fx_method", "cl_same_fn_args", "cl_same_fn_args", "abort", ("get", "aborted"), ("get", "aborted"), ("in", "aborted"),
                     ("set", "c"), ("get", "c"), ("del", "b"), ("in", "b"), ("root", "b"), ("get", "fx_value"), ("assign", "b")]
        for i in range(150 if tier == "quick" else 8000):
            ops = [rng.choice(ALL) for _ in range(rng.randint(5, 40))]
            mon.case(("rand", tuple(map(str, ops))), True)
            run_history(hl, mon, ops, rng, "random")
            sink.seek(0)
            sink.truncate()
    finally:
        sys.stdout = real_stdout
    lab = RunLab()
    outs = [o for o in OUTCOMES if o not in ("ki",)]
    for i in range(40 if tier == "quick" else 1800):
        gen = {"outcomes": outs, "p_nonpass": 0.2, "p_tag": 0.4, "max_features": 2, "p_stepless": 0.0, "p_empty_examples": 0.0}
        case = RB.gen_case(rng, gen=gen, p_stop=0.2, p_dry=0.0, p_noskipped=0.2)
        if i % 6 == 5:
            case = dict(case, hook_fault={"match": ["before_all", None, None], "exc": rng.choice(["Exception", "AssertionError"])})
        if i % 3 == 2 and not case.get("hook_fault"):
            case = dict(case, fixture_tags=True)
        if i % 3 == 1:
            # user data with the names the hooks and steps use as context attributes
            case = dict(case, args=case["args"] + ["-D", "shared=from-userdata", "-D", "other=from-userdata", "-D", "v1=x"])
            mon.seen("userdata", "same_names_as_context_attributes")
        real_run(lab, mon, rng, case, sample=(i == 0 and shard == 0))
    execute_steps_runs(lab, mon, rng, 8 if tier == "quick" else 100)
    for _ in range(2 if tier == "quick" else 30):
        process_cleanups(mon, rng)
    two_runs_on_one_runner(lab, mon, rng, 4 if tier == "quick" else 150)
    if shard == 0:
        cleanup_error_then_skip(lab, mon, rng, 4)
    if spec["shard"] == 0:
        # behave's own acceptance features as workload: the probes of bvm.wild in every behave process they spawn
        from ..wild import run as wild
        wild.feed(mon, ID, spec.get("tier", "quick"))


def replay(case, mon):
    if isinstance(case, dict) and "program" in case:
        from ..lab.inproc import RunLab
        real_run(RunLab(), mon, random.Random(0), case)
    else:
        print("history cases: the witness lists the operation history; re-run the check")


LEVEL_TEXT = ("Exploration with an exhaustive core: every operation history up to the length bound (and random ones to length "
              "40) is applied to a real Context and to a 60-line reference model in lock-step; after every operation the "
              "observable result must agree, at every pop the recorded cleanup log must equal the model's (reverse "
              "registration order, exactly once, all run although some raise), _pop raises iff a cleanup raised and the "
              "stack is one shorter even then; real runs in which hooks and steps at every level set attributes and "
              "register cleanups are checked offline: visibility at every user-code point, cleanups contiguous right after "
              "the owning element's last after-hook, owner 'error' + failed run for raising cleanups; execute_steps must "
              "restore the caller's text/table.")
LEVEL_NOTE = "Trusted: bvm/ref/ctxmodel.py and the offline scope reconstruction in this module; one process, no threads."
TECHNIQUE = "runtime monitoring: lock-step reference model over operation histories + offline trace checker over recorded run events; plus oracle-free invariant probes armed (sitecustomize) in every behave process that the repository's own acceptance features spawn"
