"""C08 -- v1 tag expressions keep their meaning; dialect auto-detection never misreads.

Oracle: CNF formula AST (groups of possibly negated tags) vs. the complete truth table of
make_tag_expression(x, V1 | AUTO_DETECT); every v2 rendering under AUTO_DETECT vs. its AST;
mixed-dialect text must raise TagExpressionError.
"""
from __future__ import annotations

import itertools
import random
import re

from ..gen import tagexpr as T
from . import c07

ID = "C08"
LEVEL = "exploration"
TAGS = ["a", "b", "c"]
UNIVERSE = ["a", "b", "c", "d", "a:2", "a,b"]
SUBSETS = list(T.subsets(UNIVERSE))
SUBSETS2 = c07.SUBSETS
LIMIT = {"a": 2, "b": 3, "c": 1, "d": 5}
RULE = ("CNF formulas: all 1..2 groups x 1..3 alternatives (distinct tags, each possibly negated) over tags %s "
        "exhaustively, 3-group formulas and 4-tag formulas sampled; each rendered as argument list and as one "
        "space-separated string with random decorations ('-' or '~' negation, optional '@', optional ':limit'); "
        "compared on the complete truth table over all subsets of %s under protocols V1 and AUTO_DETECT; plus every "
        "v2 rendering of the C07 tree enumeration under AUTO_DETECT, plus mixed-dialect texts that must be rejected. "
        "A case = (formula, rendering, protocol); non-trivial = at least 2 literals or a negation; distinct by hash."
        % (TAGS, UNIVERSE))
ASSUMPTIONS = [
    "pure old-style = tags from the ordinary alphabet (no bare and/or/not words, no wildcard characters, no parentheses)",
    "limits are consistent per tag (inconsistent limits are documented to raise)",
    "reference evaluator in bvm/gen/tagexpr.py",
]
REQUIRED = {"v1.meaning": {"quick": 3000, "thorough": 50000}, "v1.autodetect_meaning": {"quick": 3000, "thorough": 50000},
            "v2.autodetect_meaning": {"quick": 2000, "thorough": 50000}, "mixed.rejected": {"quick": 300, "thorough": 5000}, "mixed.rejected_by_the_program": {"quick": 60, "thorough": 3000},
            "history.rejected_again": {"quick": 300, "thorough": 5000},
            "history.config_after_other_protocol": {"quick": 200, "thorough": 5000},
            "v1.config_file_meaning": {"quick": 80, "thorough": 2000}, "v1.config_kwarg_meaning": {"quick": 200, "thorough": 4000}}
REQUIRED_SEEN = {"group_shape": ["same_tag_with_both_polarities"], "tag_name_class": ["contains_operator_word", "contains_negation_character", "is_a_constant_word", "name_equals_value"],
                 "config_kwarg_form": ["string:1_groups", "string:2_groups", "list:1_groups", "list:2_groups", "tuple:2_groups"],
                 "config_files_with_tags": ["home_and_project", "project_only"], "config_file_tags_shape": ["toml", "ini", "toml+command_line", "ini+command_line"]}
EXHAUSTIVE = True
EXHAUSTIVE_SCOPE = "all CNFs with <=2 groups x <=3 alternatives over 3 tags; single-group CNFs with every decoration combination"
NSHARDS = {"quick": 8, "thorough": 16}


def plan(tier, seed):
    n = NSHARDS[tier]
    return [{"shard": i, "of": n, "seed": seed * 1000 + i} for i in range(n)]


def group_variants(tags):
    out = []
    for n in (1, 2, 3):
        for sel in itertools.permutations(tags, n):
            for negs in itertools.product([False, True], repeat=n):
                out.append([[neg, t] for neg, t in zip(negs, sel)])
    return out


def classify(name, w):
    if name == "v1.autodetect_meaning":
        text = w.get("case", {}).get("text")
        words = list(text) if isinstance(text, (list, tuple)) else (text or "").split()
        if len(words) == 1 and re.match(r"^@?[A-Za-z0-9_.]+:\d+$", words[0]):
            return "autodetect-single-tag-with-limit"
    return name


class Lab(object):
    def __init__(self):
        from behave.tag_expression import make_tag_expression, TagExpressionProtocol
        from behave.tag_expression.parser import TagExpressionError
        self.make = make_tag_expression
        self.P = TagExpressionProtocol
        self.Error = TagExpressionError


def decor_random(rng):
    memo = {}

    def d(gi, ai):
        if (gi, ai) not in memo:
            memo[(gi, ai)] = {"neg_char": rng.choice("-~"), "at": rng.random() < 0.5,
                              "limit": "use" if rng.random() < 0.25 else None}
        return memo[(gi, ai)]
    return d


def render(groups, decor):
    def dd(gi, ai):
        d = dict(decor(gi, ai))
        if d.get("limit") == "use":
            d["limit"] = LIMIT[groups[gi][ai][1]]
        return d
    return T.render_v1_groups(groups, dd)


RENAME = {"a": "android", "b": "order", "c": "notify", "d": "sandbox"}      # names that CONTAIN the v2 operator words
RENAME_CONST = {"a": "true", "b": "false", "c": "never", "d": "none"}       # names that are words of the expression MODEL (constants)
RENAME_VALUE = {"a": "os=linux", "b": "os=darwin", "c": "k=v,w".replace(",w", ""), "d": "use.with_n=3"}     # name=value tags (active-tag style)
RENAME_PUNCT = {"a": "rev~1", "b": "x-y", "c": "c~", "d": "d-~e"}           # names that CONTAIN (not: start with) the negation characters
_REN = re.compile(r"(?<![A-Za-z])([abcd])(?![A-Za-z])")


def renamed(text, table=None):
    table = table or RENAME
    return _REN.sub(lambda m: table[m.group(1)], text)


def check_cnf(lab, mon, groups, args, sample=False, rename=False):
    table = rename if isinstance(rename, dict) else RENAME
    if rename:
        _renamed = renamed
        renamed_ = lambda t: _renamed(t, table)
        args = [renamed_(a) for a in args]
    ast = T.cnf_to_ast(groups)
    want = T.truth_table(ast, SUBSETS)
    nlits = sum(len(g) for g in groups)
    nontrivial = nlits >= 2 or any(neg for g in groups for neg, _ in g)
    forms = ["list", "string", "tuple"]
    if any("," in a for a in args):
        forms.append("list_spaced")
    for form in forms:
        if form == "tuple":
            text = tuple(args)      # (any sequence of arguments, not only a list)
        elif form == "list_spaced":
            # blanks beside the commas INSIDE one list argument (a quoted --tags="@a, -@b"): still one or-group
            sep = (", ", " , ", " ,")[sum(map(len, args)) % 3]
            text = [a.replace(",", sep) for a in args]
        else:
            text = list(args) if form == "list" else " ".join(args)
        for proto, mname in ((lab.P.V1, "v1.meaning"), (lab.P.AUTO_DETECT, "v1.autodetect_meaning")):
            case = {"kind": "cnf", "groups": groups, "text": text, "protocol": proto.name}
            if rename:
                case["tag_names"] = table
            mon.case(case, nontrivial)
            try:
                e = lab.make(text, proto)
                got = T.truth_table_of((lambda tags: e.check([renamed_(t) for t in tags])) if rename else e.check, SUBSETS)
                mon.check(mname, got == want, lambda: dict(case=case, want=want, got=got, parsed=repr(e)))
                mon.seen("autodetect_class" if proto is lab.P.AUTO_DETECT else "v1_class", type(e).__name__)
            except Exception as ex:
                mon.check(mname, False, dict(case=case, error=repr(ex)))
    if sample:
        mon.sample({"groups": groups, "args": args, "truth_table_bits": want, "universe": UNIVERSE})


def check_v2_auto(lab, mon, ast, rng):
    want = T.truth_table(ast, SUBSETS2)
    for style, at in (("min", False), ("full", True), ("redundant", "mixed")):
        text = T.render_v2(ast, rng, style, at)
        case = {"kind": "v2auto", "ast": ast, "text": text}
        mon.case(case, T.depth(ast) >= 1)
        try:
            e = lab.make(text, lab.P.AUTO_DETECT)
            got = T.truth_table_of(e.check, SUBSETS2)
            mon.check("v2.autodetect_meaning", got == want, lambda: dict(case=case, want=want, got=got, parsed=repr(e)))
        except Exception as ex:
            mon.check("v2.autodetect_meaning", False, dict(case=case, error=repr(ex)))
    parts = T.render_v2_list(ast, rng, "min", False)
    if len(parts) > 1:
        case = {"kind": "v2auto-list", "ast": ast, "text": parts}
        mon.case(case, True)
        try:
            e = lab.make(parts, lab.P.AUTO_DETECT)
            got = T.truth_table_of(e.check, SUBSETS2)
            mon.check("v2.autodetect_meaning", got == want, lambda: dict(case=case, want=want, got=got, parsed=repr(e)))
        except Exception as ex:
            mon.check("v2.autodetect_meaning", False, dict(case=case, error=repr(ex)))


def mixed_texts(rng, ast):
    """Texts that mix the v1 negation prefix with a v2 operator word / parenthesis / wildcard."""
    out = []
    lv = T.leaves(ast)
    text = T.render_v2(ast, rng, rng.choice(["min", "full"]), False)
    has_kw = T.depth(ast) >= 1 or any(T.is_wild(x) for x in lv)
    if has_kw and lv:
        victim = rng.choice(lv)
        pre = rng.choice(["-", "~", "-@", "~@"])
        # replace one whole-word occurrence of the operand
        pat = r"(?<![\w.*?\[\]=-])" + re.escape(victim) + r"(?![\w.*?\[\]=-])"
        new, n = re.subn(pat, lambda m: pre + victim, text, count=1)
        if n:
            out.append(new)
    t = rng.choice(TAGS)
    out.append("%s%s %s %s" % (rng.choice("-~"), t, rng.choice(["and", "or"]), rng.choice(TAGS)))
    out.append("not %s%s" % (rng.choice("-~"), t))
    out.append("%s%s*" % (rng.choice("-~"), t))
    out.append("(%s%s)" % (rng.choice("-~"), t))
    out.append("%s,%s%s and %s" % (rng.choice(TAGS), rng.choice("-~"), t, rng.choice(TAGS)))
    # old-style tags may carry a ':N' limit -- mixed text stays mixed text with one
    lim = rng.choice([1, 3, 12])
    out.append("%s@%s:%d %s @%s" % (rng.choice("-~"), t, lim, rng.choice(["and", "or"]), rng.choice(TAGS)))
    out.append("%s:%d and not %s%s" % (rng.choice(TAGS), lim, rng.choice("-~"), t))
    return out


def check_mixed(lab, mon, text, as_list=False, monitor="mixed.rejected", history=None):
    arg = text.split(" ", 1) if as_list and " " in text else text
    case = {"kind": "mixed", "text": arg}
    if history:
        case["history"] = history
    mon.case(case, True)
    try:
        e = lab.make(arg, lab.P.AUTO_DETECT)
        mon.check(monitor, False, dict(case=case, outcome="accepted", parsed=repr(e)))
    except lab.Error:
        mon.check(monitor, True)
    except Exception as ex:
        mon.check(monitor, False, dict(case=case, outcome="other exception", error=repr(ex)))


def check_mixed_program(lab, mon, rng, texts):
    """The program's answer to mixed text: behave.__main__.main() prints the tag-expression error and returns a failure status."""
    import io
    import os
    import shutil
    import sys
    import tempfile
    import behave.__main__ as bmain
    text = rng.choice(texts)
    args = ["--tags=" + text] if rng.random() < 0.7 else ["--dry-run", "--tags=" + text]      # (a separate word starting with '-' would be an option)
    case = {"kind": "mixed-program", "args": args}
    mon.case(case, True)
    cwd, home = os.getcwd(), os.environ.get("HOME")
    root = tempfile.mkdtemp(prefix="bvm-c08-")
    out, err = sys.stdout, sys.stderr
    saved = getattr(lab.P, "_current", None)
    buf = io.StringIO()
    try:
        os.environ["HOME"] = root
        os.chdir(root)
        sys.stdout = sys.stderr = buf
        try:
            rc = bmain.main(list(args))
        except SystemExit as ex:
            rc = ex.code
        except lab.Error as ex:
            rc = "raised %r" % ex
        except Exception as ex:
            rc = "other exception %r" % ex
    finally:
        sys.stdout, sys.stderr = out, err
        os.chdir(cwd)
        if home is None:
            os.environ.pop("HOME", None)
        else:
            os.environ["HOME"] = home
        shutil.rmtree(root, ignore_errors=True)
        if saved is None:
            lab.P.use(lab.P.DEFAULT)
        else:
            lab.P.use(saved)
    ok = (isinstance(rc, int) and not isinstance(rc, bool) and rc != 0) or (isinstance(rc, str) and rc.startswith("raised"))
    mon.check("mixed.rejected_by_the_program", ok and "TagExpressionError" in buf.getvalue() + str(rc),
              lambda: dict(case=case, returned=rc, output=buf.getvalue()[-400:]))


def parse_history(lab, mon, rng, ast, mixed):
    """The outcome of parsing a text does not depend on what was parsed before: a rejected text is rejected again when it is
    the very next parse (same string, or the argument list that joins to it), also right after a successful parse."""
    v2_text = T.render_v2(ast, rng, "min", False)
    try:
        lab.make(v2_text, lab.P.AUTO_DETECT)                     # a successful auto-detected parse first
    except Exception:
        pass
    for m in mixed:
        first_as_list = rng.random() < 0.3
        check_mixed(lab, mon, m, as_list=first_as_list, monitor="history.rejected_again", history="first")
        check_mixed(lab, mon, m, as_list=first_as_list, monitor="history.rejected_again", history="same text again")
        check_mixed(lab, mon, m, as_list=not first_as_list, monitor="history.rejected_again", history="other argument form of the same text")

def config_history(lab, mon, rng, gv):
    """Configuration objects in one process: one that selects a non-default protocol, then one with the default
    (auto-detect) whose --tags are written in the OTHER dialect: the second is read exactly as if it were alone."""
    from behave.configuration import Configuration
    saved = getattr(lab.P, "_current", None)
    try:
        first_proto = rng.choice([lab.P.V1, lab.P.V2])
        groups1 = [rng.choice(gv)]
        first_text = ",".join(render(groups1, decor_random(rng))) if first_proto is lab.P.V1 else "a and not b"
        try:
            Configuration(["--tags=%s" % first_text], load_config=False, tag_expression_protocol=first_proto)
        except Exception:
            pass
        if first_proto is lab.P.V1:
            ast = T.random_tree(rng, ["a", "b", "c", "d"], rng.choice([1, 2]))
            if ast[0] == "lit":
                ast = ["not", ast]
            text2 = [T.render_v2(ast, rng, "min", rng.random() < 0.5)]
            want = T.truth_table(ast, SUBSETS)
        else:
            groups = [rng.choice(gv) for _ in range(rng.choice([1, 2]))]
            if sum(len(g) for g in groups) < 2 and not any(neg for g in groups for neg, _ in g):
                groups = groups + [[[True, "d"]]]
            text2 = render(groups, lambda gi, ai: {"neg_char": "-", "at": True})
            want = T.truth_table(T.cnf_to_ast(groups), SUBSETS)
        case = {"kind": "config-history", "first": [first_proto.name, first_text], "second_tags": text2}
        mon.case(case, True)
        try:
            c2 = Configuration(["--tags=%s" % t for t in text2], load_config=False)
            got = T.truth_table_of(c2.tag_expression.check, SUBSETS)
            mon.check("history.config_after_other_protocol", got == want, lambda: dict(case=case, want=want, got=got, parsed=repr(c2.tag_expression)))
        except Exception as ex:
            mon.check("history.config_after_other_protocol", False, dict(case=case, error=repr(ex)))
    finally:
        if saved is None:
            if "_current" in lab.P.__dict__:
                try:
                    type.__delattr__(lab.P, "_current")
                except Exception:
                    lab.P.use(lab.P.DEFAULT)
        else:
            lab.P.use(saved)

def config_kwarg_tags(lab, mon, rng, gv):
    """Configuration(args, tags=...) -- the programmatic entry point: one string with blank-separated groups or a list."""
    from behave.configuration import Configuration
    groups = [rng.choice(gv) for _ in range(rng.choice([1, 2, 2, 3]))]
    args = render(groups, lambda gi, ai: {"neg_char": rng.choice("-~"), "at": rng.random() < 0.6})
    form = rng.choice(["string", "list", "tuple"])
    value = " ".join(args) if form == "string" else (list(args) if form == "list" else tuple(args))
    want = T.truth_table(T.cnf_to_ast(groups), SUBSETS)
    saved = getattr(lab.P, "_current", None)
    for proto in (lab.P.V1, lab.P.AUTO_DETECT):
        case = {"kind": "config-kwarg-tags", "tags": value, "protocol": proto.name}
        mon.case(case, True)
        mon.seen("config_kwarg_form", "%s:%d_groups" % (form, min(len(groups), 2)))
        try:
            c = Configuration([], load_config=False, tags=value, tag_expression_protocol=proto)
            got = T.truth_table_of(c.tag_expression.check, SUBSETS)
            mon.check("v1.config_kwarg_meaning", got == want, lambda: dict(case=case, want=want, got=got, parsed=repr(c.tag_expression), tags=c.tags))
        except Exception as ex:
            mon.check("v1.config_kwarg_meaning", False, dict(case=case, error=repr(ex)))
        finally:
            if saved is None:
                if "_current" in lab.P.__dict__:
                    try:
                        type.__delattr__(lab.P, "_current")
                    except Exception:
                        lab.P.use(lab.P.DEFAULT)
            else:
                lab.P.use(saved)


def string_command_line(lab, mon, rng, gv):
    """The whole command line handed over as ONE string (Configuration("..."), behave.__main__.main("...")): old-style groups behind
    --tags= / -t, quoted the way a shell would need it, mean what they mean in an argument list."""
    from behave.configuration import Configuration
    groups = [rng.choice(gv) for _ in range(rng.choice([1, 2, 2]))]
    args = render(groups, lambda gi, ai: {"neg_char": rng.choice("-~"), "at": rng.random() < 0.6})
    words = []
    for a in args:
        q = rng.choice(["'", '"', ""])
        words.append("--tags=%s%s%s" % (q, a, q))      # (always --tags=TEXT: a separate word that starts with '-' is an option for argparse)
    line = " ".join(words + rng.sample(["--no-color", "-D 'k=v w'", "--no-summary"], rng.randint(0, 1)))
    want = T.truth_table(T.cnf_to_ast(groups), SUBSETS)
    saved = getattr(lab.P, "_current", None)
    case = {"kind": "command-line-as-one-string", "text": line, "groups": groups}
    mon.case(case, True)
    mon.seen("command_line_given_as", "one_string")
    try:
        c = Configuration(line, load_config=False)
        got = T.truth_table_of(c.tag_expression.check, SUBSETS)
        mon.check("v1.config_kwarg_meaning", got == want, lambda: dict(case=case, want=want, got=got, parsed=repr(c.tag_expression), tags=c.tags))
    except BaseException as ex:
        mon.check("v1.config_kwarg_meaning", False, dict(case=case, error=repr(ex)))
    finally:
        if saved is None:
            if "_current" in lab.P.__dict__:
                try:
                    type.__delattr__(lab.P, "_current")
                except Exception:
                    lab.P.use(lab.P.DEFAULT)
        else:
            lab.P.use(saved)


def config_file_tags(lab, mon, rng, gv):
    """An old-style expression written into a configuration file (tags = @a,-@b on one line, further groups on further lines)
    means what it means on the command line."""
    import os
    import shutil
    import tempfile
    from behave.configuration import Configuration
    saved = getattr(lab.P, "_current", None)
    cwd, home = os.getcwd(), os.environ.get("HOME")
    root = tempfile.mkdtemp(prefix="bvm-c08-")
    try:
        os.makedirs(os.path.join(root, "home"))
        os.makedirs(os.path.join(root, "work"))
        os.environ["HOME"] = os.path.join(root, "home")
        os.chdir(os.path.join(root, "work"))
        groups = [rng.choice(gv) for _ in range(rng.choice([1, 2]))]
        if not any("," in a for a in render(groups, lambda gi, ai: {"neg_char": "-", "at": True})):
            groups = [[[False, "a"], [True, "b"]]] + groups[:1]
        args = render(groups, lambda gi, ai: {"neg_char": rng.choice("-~"), "at": True})
        fname = rng.choice(["behave.ini", "setup.cfg", "tox.ini", ".behaverc", "pyproject.toml", "pyproject.toml"])
        with open(fname, "w") as fh:
            if fname.endswith(".toml"):
                fh.write("[tool.behave]\ntags = [%s]\n" % ", ".join('"%s"' % a for a in args))
            else:
                fh.write("[behave]\ntags = %s\n" % "\n    ".join(args))
        if rng.random() < 0.4:
            # a second configuration file of lower priority (the user's ~/.behaverc) that has tags of its own: the project's file
            # replaces them, it does not add to them
            home_groups = [rng.choice(gv)]
            home_args = render(home_groups, lambda gi, ai: {"neg_char": "-", "at": True})
            with open(os.path.join(os.environ["HOME"], rng.choice([".behaverc", "behave.ini"])), "w") as fh:
                fh.write("[behave]\ntags = %s\n" % "\n    ".join(home_args))
            mon.seen("config_files_with_tags", "home_and_project")
        else:
            mon.seen("config_files_with_tags", "project_only")
        cmdline = []
        want_groups = groups
        if rng.random() < 0.5:
            # --tags on the command line: the command line IS the expression then (the file's tags only come back through the
            # {config.tags} placeholder, which is not used here)
            want_groups = [rng.choice(gv) for _ in range(rng.choice([1, 2]))]
            cmdline = ["--tags=%s" % a for a in render(want_groups, lambda gi, ai: {"neg_char": rng.choice("-~"), "at": True})]
        elif len(groups) == 1:
            # the file's ONE or-group comes back through the documented placeholder, next to further old-style groups
            others = [rng.choice(gv) for _ in range(rng.choice([0, 1]))]
            cmdline = ["--tags={config.tags}"] + ["--tags=%s" % a for a in render(others, lambda gi, ai: {"neg_char": rng.choice("-~"), "at": True})]
            if rng.random() < 0.5:
                cmdline.reverse()
            want_groups = groups + others
            mon.seen("config_tags_placeholder", "one_group_with_%d_alternatives" % min(len(groups[0]), 3))
        want = T.truth_table(T.cnf_to_ast(want_groups), SUBSETS)
        case = {"kind": "config-file-tags", "file": fname, "tags_lines": args, "command_line": cmdline}
        mon.case(case, True)
        mon.seen("config_file_tags_shape", "%s%s" % ("toml" if fname.endswith(".toml") else "ini", "+command_line" if cmdline else ""))
        try:
            c = Configuration(list(cmdline))
            got = T.truth_table_of(c.tag_expression.check, SUBSETS)
            mon.check("v1.config_file_meaning", got == want, lambda: dict(case=case, want=want, got=got, parsed=repr(c.tag_expression), tags=c.tags))
        except Exception as ex:
            mon.check("v1.config_file_meaning", False, dict(case=case, error=repr(ex)))
    finally:
        os.chdir(cwd)
        if home is None:
            os.environ.pop("HOME", None)
        else:
            os.environ["HOME"] = home
        shutil.rmtree(root, ignore_errors=True)
        if saved is None:
            if "_current" in lab.P.__dict__:
                try:
                    type.__delattr__(lab.P, "_current")
                except Exception:
                    lab.P.use(lab.P.DEFAULT)
        else:
            lab.P.use(saved)


def run(spec, mon):
    lab = Lab()
    tier = spec.get("tier", "quick")
    shard, of = spec["shard"], spec["of"]
    rng = random.Random(spec["seed"])
    gv = group_variants(TAGS)
    idx = 0
    # exhaustive: single groups with every decoration combination
    for g in gv:
        n = len(g)
        for negch in "-~":
            for ats in itertools.product([False, True], repeat=n):
                for lims in itertools.product([None, "use"], repeat=n):
                    idx += 1
                    if idx % of != shard:
                        continue
                    dec = {(0, i): {"neg_char": negch, "at": ats[i], "limit": lims[i]} for i in range(n)}
                    check_cnf(lab, mon, [g], render([g], lambda gi, ai: dec[(gi, ai)]), sample=(idx % 1500 == 0))
    # exhaustive: two groups, random decorations
    reps = 1 if tier == "quick" else 3
    for g1 in gv:
        for g2 in gv:
            idx += 1
            if idx % of != shard:
                continue
            if tier == "quick" and (idx // of) % 4 != 0 and len(g1) + len(g2) > 3:
                continue
            for _ in range(reps):
                check_cnf(lab, mon, [g1, g2], render([g1, g2], decor_random(rng)))
    # sampled: three groups / four tags
    gv4 = group_variants(TAGS + ["d"])
    for _ in range(150 if tier == "quick" else 6000):
        groups = [rng.choice(gv4) for _ in range(rng.choice([2, 3, 3, 4]))]
        check_cnf(lab, mon, groups, render(groups, decor_random(rng)))
        if rng.random() < 0.4:
            groups = [rng.choice(gv4) for _ in range(rng.choice([1, 2]))]
            check_cnf(lab, mon, groups, render(groups, decor_random(rng)), rename=True)
            mon.seen("tag_name_class", "contains_operator_word")
        if rng.random() < 0.4:
            groups = [rng.choice(gv4) for _ in range(rng.choice([1, 2, 2]))]
            dec = decor_random(rng)
            check_cnf(lab, mon, groups, render(groups, lambda gi, ai: dict(dec(gi, ai), limit=None)), rename=RENAME_PUNCT)
            mon.seen("tag_name_class", "contains_negation_character")
        if rng.random() < 0.3:
            groups = [rng.choice(gv4) for _ in range(rng.choice([1, 1, 2]))]
            dec = decor_random(rng)
            check_cnf(lab, mon, groups, render(groups, lambda gi, ai: dict(dec(gi, ai), limit=None)), rename=RENAME_CONST)
            mon.seen("tag_name_class", "is_a_constant_word")
        if rng.random() < 0.3:
            groups = [rng.choice(gv4) for _ in range(rng.choice([1, 1, 2]))]
            dec = decor_random(rng)
            check_cnf(lab, mon, groups, render(groups, lambda gi, ai: dict(dec(gi, ai), limit=None)), rename=RENAME_VALUE)
            mon.seen("tag_name_class", "name_equals_value")
        if rng.random() < 0.5:
            # literals drawn WITH replacement: the same tag twice in one or-group, also with opposite polarity (@a,-@a is
            # always true), and the same tag in several groups
            groups = []
            for _ in range(rng.choice([1, 1, 2])):
                g = [[rng.random() < 0.5, rng.choice(["a", "b"])] for _ in range(rng.choice([2, 3]))]
                groups.append(g)
                if any(t1 == t2 and n1 != n2 for n1, t1 in g for n2, t2 in g):
                    mon.seen("group_shape", "same_tag_with_both_polarities")
            dec = decor_random(rng)
            check_cnf(lab, mon, groups, render(groups, lambda gi, ai: dict(dec(gi, ai), limit=None)))
        if rng.random() < 0.5:
            config_kwarg_tags(lab, mon, rng, gv4)
            string_command_line(lab, mon, rng, gv4)
    # v2 renderings under AUTO_DETECT
    trees = T.enum_trees(c07.OPERANDS, 2, 2) if tier == "quick" else T.enum_trees(c07.OPERANDS, 3, 3)
    for i, ast in enumerate(trees):
        if i % of == shard:
            check_v2_auto(lab, mon, ast, rng)
    for k in range(60 if tier == "quick" else 3000):
        ast = T.random_tree(rng, c07.RANDOM_OPERANDS, rng.choice([1, 2, 3]))
        check_v2_auto(lab, mon, ast, rng)
        for label in sorted(c07.NAME_CLASSES):
            # pure new-style text (at least one operator word) over unusual tag names, escaped where the new dialect demands it
            c07.check_name_class(lab, mon, rng, label, protocol=lab.P.AUTO_DETECT, monitor="v2.autodetect_meaning")
        if k % 6 == 0:
            check_mixed_program(lab, mon, rng, mixed_texts(rng, ast))
        # list form whose argument starts with 'not' and has a top-level 'or': the arguments are and-ed as wholes
        x, y, z = [T.operand(o) for o in rng.sample(c07.OPERANDS, 3)]
        neg_or = ["or", ["not", x], y] if rng.random() < 0.7 else ["or", ["not", x], ["and", y, z]]
        check_v2_auto(lab, mon, ["and", neg_or, z] if rng.random() < 0.5 else ["and", z, neg_or], rng)
        mixed = mixed_texts(rng, ast)
        for m in mixed:
            check_mixed(lab, mon, m, as_list=rng.random() < 0.3)
        parse_history(lab, mon, rng, ast, mixed[:3])
        config_history(lab, mon, rng, gv)
        if rng.random() < 0.4:
            config_file_tags(lab, mon, rng, gv)
        if rng.random() < 0.3:
            # valid texts twice in a row as well (string form, then list form): same truth table both times
            groups = [rng.choice(gv4) for _ in range(rng.choice([1, 2]))]
            args = render(groups, decor_random(rng))
            check_cnf(lab, mon, groups, args)
            check_cnf(lab, mon, groups, args)
    if shard == 0:
        mon.sample({"mixed_examples": mixed_texts(rng, ["and", ["lit", "a"], ["glob", "a*"]])}, force=True)


def replay(case, mon):
    lab = Lab()
    mon.case(case)
    if case["kind"] == "cnf":
        want = T.truth_table(T.cnf_to_ast(case["groups"]), SUBSETS)
        e = lab.make(case["text"], lab.P[case["protocol"]])
        got = T.truth_table_of(e.check, SUBSETS)
        name = "v1.meaning" if case["protocol"] == "V1" else "v1.autodetect_meaning"
        mon.check(name, got == want, dict(case=case, want=want, got=got, parsed=repr(e)))
    elif case["kind"].startswith("v2auto"):
        want = T.truth_table(case["ast"], SUBSETS2)
        e = lab.make(case["text"], lab.P.AUTO_DETECT)
        got = T.truth_table_of(e.check, SUBSETS2)
        mon.check("v2.autodetect_meaning", got == want, dict(case=case, want=want, got=got, parsed=repr(e)))
    else:
        check_mixed(lab, mon, case["text"] if isinstance(case["text"], str) else " ".join(case["text"]))


LEVEL_TEXT = ("Exploration with an exhaustive core: every CNF with <=2 groups x <=3 alternatives over 3 tags (all "
              "decoration combinations for single groups, random decorations otherwise), as argument list and as one "
              "string, under V1 and AUTO_DETECT, complete truth tables; every v2 rendering of the C07 enumeration "
              "under AUTO_DETECT; generated mixed-dialect texts must raise TagExpressionError.")
LEVEL_NOTE = "Trusted: reference evaluator; 'pure old-style' as defined in assumptions; bounded formula size."
TECHNIQUE = "runtime monitoring: differential truth-table oracle over both dialect parsers and the auto-detection heuristic"
