"""C05 -- parser error discipline: only ParserError, with a usable line number."""
from __future__ import annotations

import os
import tempfile
import random
import signal

from ..gen.docgen import DocGen, expected_step_types
from ..gen.render import render_feature, render_fragment

ID = "C05"
LEVEL = "fault_enumeration"
LANGS = ["en", "de", "fr", "ht", "zh-CN", "ru", "em"]      # (em: every keyword is a pictograph -- keyword lines that do not start with a letter)
ENTRY_POINTS = ["feature", "rule", "scenario", "steps", "tags"]
RULE = ("(a) line soups of 1-12 lines drawn from a pool of keyword lines (every structural keyword and step keyword of "
        "%s), tag lines (well formed and malformed), table rows (well formed, ragged, unterminated), doc-string "
        "delimiters, comments, language comments (valid, unknown, empty), free text and blank lines, fed to all five "
        "entry points (parse_feature, parse_rule, parse_scenario, parse_steps, parse_tags); (b) every single-line "
        "insert / delete / duplicate / swap / truncate mutation of valid rendered documents; (c) a fault catalogue "
        "(second Feature, free text after steps, Examples outside an outline, And/But without predecessor, table row "
        "with wrong cell count, malformed tag token, second Background with steps, doc-string / table before any step, "
        "Background after a scenario) injected at EVERY position of valid documents where the abstract tree says it is a "
        "fault: the error must be reported at the injected line. A case = one input text x entry point; non-trivial = "
        "text with >=2 non-blank lines; distinct by hash of (entry point, text)." % LANGS)
ASSUMPTIONS = [
    "a particular message is not demanded; for merely odd inputs no error at all is demanded",
    "termination is judged on CPU time, not on the wall clock: a parser call that uses up 5 CPU-seconds is repeated once with a limit of "
    "40 CPU-seconds (inputs are a few hundred characters and parse in milliseconds); only a call that exhausts that as well is reported "
    "as not terminating, a single firing is inconclusive; a wall-clock alarm around it is inconclusive as well",
]
REQUIRED = {"discipline.only_parser_error": {"quick": 40000, "thorough": 3000000}, "discipline.terminates": {"quick": 40000, "thorough": 3000000},
            "discipline.line_in_text": {"quick": 5000, "thorough": 500000},
            "fault.reported_at_injected_line": {"quick": 1500, "thorough": 100000},
            "mutation.only_parser_error": {"quick": 8000, "thorough": 500000},
            "reuse.parse_after_failure_same_as_fresh": {"quick": 200, "thorough": 15000}}
REQUIRED_SEEN = {"language_argument": ["empty_string", "omitted", "code"], "sub_steps_language": ["de", "fr", "en", "ru"], "filename_argument": ["none", "str_relative", "str_absolute", "path_relative", "path_absolute"], "file_list_shape": ["no_feature_file_before_a_feature"], "faulty_document_form": ["lf", "crlf", "cr", "file_bom", "file_bom_language_comment", "file_cr", "file_bom_blank_first"], "free_text_shape": ["keyword_lookalike_without_colon"], "fault_kind": ["second_feature", "text_after_steps", "examples_outside_outline", "and_without_predecessor",
                                "but_without_predecessor", "ragged_table_row", "malformed_tag", "second_background",
                                "docstring_before_step", "table_before_step", "background_after_scenario", "tags_entry_malformed_tag",
                                "tags_entry_tag_expected"],
                 "entry_point": ENTRY_POINTS, "trailing_colon_option": ["yes", "no"]}
EXHAUSTIVE = True
EXHAUSTIVE_SCOPE = "every catalogued fault kind at every position of each generated document where it is a fault; every single-line mutation of each generated document"
NSHARDS = {"quick": 16, "thorough": 16}


def plan(tier, seed):
    n = NSHARDS[tier]
    return [{"shard": i, "of": n, "seed": seed * 1000 + i} for i in range(n)]


def classify(name, w):
    return name


class Watchdog(Exception):
    pass


def _alarm(signum, frame):
    raise Watchdog()


CPU_LIMIT = 5.0            # CPU-seconds of this (single-threaded) worker for one parser call: first stage
CPU_LIMIT_CONFIRM = 40.0   # second stage, for the same input once more
CONFIRMATIONS = {"left": 2}


def call(fn, *args, **kw):
    """Returns ('ok', value) | ('parser_error', exc) | ('other', exc) | ('watchdog', None).

    Termination is judged on the CPU time the call consumes (ITIMER_VIRTUAL counts only while this process executes), so a loaded
    machine cannot make it fire; a generous wall-clock alarm stays around it as the outer guard."""
    from behave.parser import ParserError
    limit = kw.pop("_cpu_limit", 0.5 if CONFIRMATIONS.get("confirmed") else CPU_LIMIT)
    signal.signal(signal.SIGALRM, _alarm)
    signal.signal(signal.SIGVTALRM, _alarm)
    signal.alarm(int(limit * 6) + 60)
    signal.setitimer(signal.ITIMER_VIRTUAL, limit)
    try:
        return "ok", fn(*args, **kw)
    except ParserError as ex:
        return "parser_error", ex
    except Watchdog:
        return "watchdog", None
    except Exception as ex:      # the observation this property is about
        return "other", ex
    finally:
        signal.setitimer(signal.ITIMER_VIRTUAL, 0)
        signal.alarm(0)


def judge_termination(mon, fn, args, witness):
    """A call used up CPU_LIMIT CPU-seconds: the same input once more with CPU_LIMIT_CONFIRM.  Texts here are a few hundred
    characters long and parse in milliseconds; one that burns 40 CPU-seconds does not terminate in any practical sense."""
    if CONFIRMATIONS["left"] <= 0:
        mon.note("parser watchdog fired again (not re-examined, inconclusive)")
        return
    CONFIRMATIONS["left"] -= 1
    import time
    t0 = time.process_time()
    kind, _val = call(fn, *args, _cpu_limit=CPU_LIMIT_CONFIRM)
    used = time.process_time() - t0
    if kind == "watchdog" and used >= CPU_LIMIT_CONFIRM * 0.9:
        mon.check("discipline.terminates", False, lambda: dict(witness(), cpu_seconds_used=round(used, 1), note="no result after that much CPU time"))
        CONFIRMATIONS["confirmed"] = True      # (the rest of this worker's inputs get a short first stage: the verdict is in)
    else:
        mon.note("parser watchdog fired once, the repetition finished after %.1f CPU-seconds (inconclusive)" % used)


def entry(P, name):
    return {"feature": P.parse_feature, "rule": P.parse_rule, "scenario": P.parse_scenario, "steps": P.parse_steps,
            "tags": P.parse_tags}[name]


def check_text(mon, P, ep, text, lang=None, monitor="discipline", extra=None):
    nlines = max(1, len(text.splitlines()))
    fn = entry(P, ep)
    if ep == "tags":
        kind, val = call(fn, text)
    else:
        kind, val = call(fn, text, lang) if lang is not None else call(fn, text)
        mon.seen("language_argument", "empty_string" if lang == "" else ("omitted" if lang is None else "code"))
    mon.seen("entry_point", ep)
    mon.seen("outcome", "%s/%s" % (ep, kind))
    nonblank = len([l for l in text.splitlines() if l.strip()])
    mon.case((ep, lang, text), nonblank >= 2)
    W = lambda **k: dict(entry_point=ep, language=lang, text=text, **dict(extra or {}, **k))
    if kind == "watchdog":
        mon.count("watchdog")
        judge_termination(mon, fn, (text,) if (ep == "tags" or lang is None) else (text, lang), W)
        return kind, val
    mon.check("discipline.terminates", True)
    mon.check(monitor + ".only_parser_error", kind != "other",
              lambda: W(exception=repr(val), exception_type=type(val).__name__, where=where_of(val)))
    if kind == "parser_error":
        line = getattr(val, "line", None)
        mon.check("discipline.line_in_text", isinstance(line, int) and 1 <= line <= nlines,
                  lambda: W(error_line=line, n_lines=nlines, message=str(val)[:200]))
    return kind, val


def where_of(ex):
    import traceback
    tb = traceback.extract_tb(ex.__traceback__)
    fr = [f for f in tb if "behave" in f.filename]
    return ["%s:%s" % (f.name, f.lineno) for f in fr[-3:]]


# ---------------------------------------------------------------------------
def keyword_lookalike(kws, rng):
    steps_kw = [w.strip().lower() for t in ("given", "when", "then", "and", "but") for w in kws[t] if w.strip() != "*"]
    raw_kw = [w.lower() for t in ("given", "when", "then", "and", "but") for w in kws[t] if w.strip() != "*"]
    if rng.random() < 0.4:
        # a step keyword followed by punctuation instead of the blank that belongs to it ("Then: ...", "And/or ...") is free text
        cands = [w for t in ("given", "when", "then", "and", "but") for w in kws[t] if w.endswith(" ") and w.strip() != "*"]
        for _ in range(10):
            if not cands:
                break
            text = rng.choice(cands).strip() + rng.choice([": the basket is empty", "/or pay later", "? never.", ". done", "\tx", "- x", ", x"])
            if not any(text.lower().startswith(k) for k in raw_kw) and text[0] not in "@#|*\"'":
                return text
    for _ in range(10):
        alias = rng.choice(kws[rng.choice(["feature", "rule", "background", "scenario", "scenario_outline", "examples"])])
        text = alias + rng.choice(["s", ".", "2", "x", " x", "e", "n"])
        low = text.lower()
        if ":" in text or any(low.startswith(k) for k in steps_kw) or text[0] in "@#|*\"'":
            continue
        return text
    return None


def line_pool(kws, rng):
    pool = []
    for kind in ("feature", "rule", "background", "scenario", "scenario_outline", "examples"):
        for alias in kws[kind]:
            pool.append("%s: %s" % (alias, rng.choice(["", "title", "x y"])))
            pool.append("  %s:" % alias)
    for t in ("given", "when", "then", "and", "but"):
        for alias in kws[t]:
            pool.append("    %s%s" % (alias, rng.choice(["a step", "another <x>", "x"])))
    pool += ["@tag", "@a @b", "  @a @b # comment", "@a b", "@", "@ a", "@@x", "x @a", "@a\t@b", "@a#b"]
    pool += ["| a | b |", "| 1 | 2 |", "| 1 |", "| 1 | 2 | 3 |", "|", "||", "| a | b", "  | x \\| y | z |", "| \\", "|a|b|"]
    pool += ['"""', "'''", '  """', '"""text', "   '''", '""" trailing', 'x """']
    # rows whose closing pipe is missing or followed by a comment, with long cells (a URL, a checksum, a path)
    pool += ["| https://example.org/reports/2024/quarterly-summary.html?lang=en&format=pdf", "| 3f786850e387550fdab836ed7e6dc881de23001b | ok  # sha1 of the file",
             "  | /var/lib/application/data/cache/objects/ab/cdef0123456789.bin"]
    pool += ["# comment", "#", "# language: en", "# language: de", "# language: zz", "# language:", "#language:fr", "# Language: ru",
             "  # language: en", "# language: {de}", "@fixture.{name} notatag", "@t{0} @u{}", "  {\"k\": 1}", "# language: DE", "# language: En", "# language: zh-cn", "# language: EN-PIRATE", "# language: de "]
    pool += ["free text", "  indented text", "Feature", "Scenario", "Given", "And", "* ", "*", ":", "::", "\t", "   ", "",
             "Ünïcödé", "Examples", "Rule", "Background"]
    return pool


def soups(mon, P, rng, n, i18n):
    pools = {lang: line_pool(i18n.languages[lang], rng) for lang in LANGS}
    for i in range(n):
        lang = LANGS[i % len(LANGS)]
        pool = pools[lang]
        k = rng.randint(1, 12)
        lines = [rng.choice(pool) for _ in range(k)]
        if rng.random() < 0.3:
            lines.insert(0, rng.choice(["Feature: f", "# language: %s" % lang, "@t"]))
        text = "\n".join(lines) + rng.choice(["", "\n"])
        ep = ENTRY_POINTS[(i // len(LANGS)) % len(ENTRY_POINTS)]
        if ep == "tags":
            text = rng.choice(["@tag", "@a @b", "@a b", " ", "", "x", "@a\n@b", "@a # c", "  @a", "\n", "@a\nb", "@", "# only comment"]) \
                if rng.random() < 0.7 else text
        # the language argument: a code, omitted, or the empty string (what an empty 'lang =' setting hands over: the default language)
        check_text(mon, P, ep, text, (lang if rng.random() < 0.85 else "") if ep != "tags" and rng.random() < 0.7 else None)


def mutations(mon, P, rng, ndocs, i18n):
    for d in range(ndocs):
        lang = rng.choice(LANGS)
        kws = i18n.languages[lang]
        a = DocGen(rng, lang, kws).feature()
        text, _ = render_feature(a, rng, layout=(d % 2 == 0))
        lines = text.splitlines()
        n = len(lines)
        muts = []
        for i in range(n):
            muts.append(("delete", i, lines[:i] + lines[i + 1:]))
            muts.append(("duplicate", i, lines[:i + 1] + lines[i:]))
            if i + 1 < n:
                muts.append(("swap", i, lines[:i] + [lines[i + 1], lines[i]] + lines[i + 2:]))
            if len(lines[i]) > 2:
                cut = rng.randint(1, len(lines[i]) - 1)
                muts.append(("truncate", i, lines[:i] + [lines[i][:cut]] + lines[i + 1:]))
            ins = rng.choice(["@x", "| z |", '"""', "Feature: again", "Examples:", "And x", "text", "# language: en", "Background:"])
            muts.append(("insert", i, lines[:i] + [ins] + lines[i:]))
        for kind, i, new in muts:
            check_text(mon, P, "feature", "\n".join(new) + "\n", lang, monitor="mutation",
                       extra={"mutation": kind, "at_line": i + 1})
            mon.seen("mutation_kind", kind)


# ---------------------------------------------------------------------------
def fault_injection(mon, P, rng, ndocs, i18n):
    """Insert ONE grammar violation into a valid document at a position where the abstract tree says it is a fault."""
    for d in range(ndocs):
        lang = "en" if d % 2 == 0 else rng.choice(LANGS)
        kws = i18n.languages[lang]
        gen = DocGen(rng, lang, kws, p_doc=0.15, p_table=0.15)
        a = gen.feature()
        text, lines = render_feature(a, None, False)       # canonical layout: one element per line, known positions
        src = text.splitlines()
        injections = []     # (kind, insert_before_line (1-based), text, expected_error_line)

        def after_last_line_of_step(key, st):
            ln = lines[key]
            if st.get("doc") is not None:
                ln = lines[key + ("doc",)] + len(st["doc"].split("\n")) + 1
            if st.get("table") is not None:
                ln = max(v for k, v in lines.items() if k[:len(key) + 1] == key + ("table",))
            return ln

        def visit_scenarios(c, key, has_bg_steps):
            bg = c.get("background")
            own = bool(bg and bg["steps"])
            has = has_bg_steps or own
            for i, it in enumerate(c["items"]):
                k = key + ("item", i)
                if it["kind"] == "rule":
                    # an Examples block directly below a Rule header (after its description): never inside an outline,
                    # whatever statement came before the rule
                    rfirst = lines[k] + 1 + len(it.get("desc") or [])
                    injections.append(("examples_outside_outline", rfirst, "    %s: stray" % kws["examples"][0], rfirst))
                    visit_scenarios(it, k, has)
                    continue
                # first line after the scenario header (+description)
                first = lines[k] + 1 + len(it.get("desc") or [])
                if not it["steps"]:
                    pass
                if not has and True:
                    injections.append(("and_without_predecessor", first, "    %sx" % kws["and"][-1], first))
                    injections.append(("but_without_predecessor", first, "    %sx" % kws["but"][-1], first))
                if it["steps"]:
                    last = it["steps"][-1]
                    end = after_last_line_of_step(k + ("step", len(it["steps"]) - 1), last)
                    if it["kind"] == "scenario":
                        injections.append(("examples_outside_outline", end + 1, "    %s:" % kws["examples"][0], end + 1))
                        # ... also a TAGGED stray Examples section (tag lines and a comment in front of it): the fault is the Examples line
                        injections.append(("examples_outside_outline", end + 1, "    @x1 @x2\n    # why\n    @x3\n    %s:" % kws["examples"][0], end + 4))
                    if last.get("doc") is None and last.get("table") is None:
                        injections.append(("text_after_steps", end + 1, "    free text that is not a step", end + 1))
                    for si, st in enumerate(it["steps"]):
                        if st.get("table") is not None and st["table"]["rows"]:
                            sk = k + ("step", si, "table")
                            rl = lines[sk + ("row", 1)]
                            ncol = len(st["table"]["header"])
                            injections.append(("ragged_table_row", rl, "      |" + " x |" * (ncol + 1), rl))
                if it.get("tags"):
                    tl = lines[k + ("tag", 0)]
                    injections.append(("malformed_tag", tl, rng.choice(["  @ok notatag", "  @bug#7 notatag", "  @c# @ok nota#tag", "  @fixture.{name} nota{tag}", "  @ok {0}"]), tl))
            if c["items"] and c["items"][0]["kind"] != "rule":
                k0 = key + ("item", 0)
                it0 = c["items"][0]
                if it0["steps"] and it0["steps"][-1].get("doc") is None and it0["steps"][-1].get("table") is None:
                    end = after_last_line_of_step(k0 + ("step", len(it0["steps"]) - 1), it0["steps"][-1])
                    injections.append(("background_after_scenario", end + 1, "  %s:" % kws["background"][0], end + 1))
            if bg and bg["steps"]:
                bk = key + ("background",)
                last = bg["steps"][-1]
                if last.get("doc") is None and last.get("table") is None:
                    end = after_last_line_of_step(bk + ("step", len(bg["steps"]) - 1), last)
                    injections.append(("second_background", end + 1, "  %s:" % kws["background"][0], end + 1))

        visit_scenarios(a, (), False)
        injections = [x for x in injections if x]
        # a second Feature line anywhere after the first one (outside doc-strings)
        in_doc = set()
        for key, ln in lines.items():
            if key and key[-1] == "doc":
                pass
        doc_ranges = []
        def collect_docs(c, key):
            def steps_of(node, k):
                for si, st in enumerate(node.get("steps") or []):
                    if st.get("doc") is not None:
                        s = lines[k + ("step", si, "doc")]
                        doc_ranges.append((s, s + len(st["doc"].split("\n")) + 1))
            if c.get("background"):
                steps_of(c["background"], key + ("background",))
            for i, it in enumerate(c["items"]):
                k = key + ("item", i)
                if it["kind"] == "rule":
                    collect_docs(it, k)
                else:
                    steps_of(it, k)
        collect_docs(a, ())
        # a second Feature line is a fault wherever free text is not allowed, i.e. right after a step (after its
        # doc-string / table); after a Feature/Rule/Scenario/Background header it would be a description line
        def after_steps(c, key):
            def of(node, k):
                for si, st in enumerate(node.get("steps") or []):
                    yield after_last_line_of_step(k + ("step", si), st) + 1
            if c.get("background"):
                for x in of(c["background"], key + ("background",)):
                    yield x
            for i, it in enumerate(c["items"]):
                k = key + ("item", i)
                if it["kind"] == "rule":
                    for x in after_steps(it, k):
                        yield x
                else:
                    for x in of(it, k):
                        yield x
                    if it["kind"] == "outline":
                        for ei, ex in enumerate(it["examples"]):
                            if ex.get("header") is not None:
                                ek = k + ("examples", ei, "table")
                                yield max(v for kk, v in lines.items() if kk[:len(ek)] == ek) + 1
        for ln in sorted(set(after_steps(a, ()))):
            injections.append(("second_feature", ln, "%s: again" % kws["feature"][rng.randrange(len(kws["feature"]))], ln))
            if rng.random() < 0.6:
                # free text that merely LOOKS like a structural keyword (no colon; an alias with a plural s, a full stop, a
                # digit ...) is still free text where only steps / tables / the next statement may follow
                lk = keyword_lookalike(kws, rng)
                if lk:
                    injections.append(("text_after_steps", ln, "    " + lk, ln))
                    mon.seen("free_text_shape", "keyword_lookalike_without_colon")
        # doc-string / table before any step: through parse_steps (in a feature such a line would be description)
        some_steps = gen.steps(rng.randint(1, 3), False)
        stext, _ = render_fragment("steps", some_steps)
        for kind, first in (("docstring_before_step", '"""'), ("table_before_step", "| a | b |")):
            t2 = first + "\n" + stext
            k, val = call(P.parse_steps, t2, lang)
            mon.case(("fault", kind, t2), True)
            mon.seen("fault_kind", kind)
            if k == "watchdog":
                continue
            mon.check("fault.only_parser_error", k != "other", lambda: dict(fault=kind, text=t2, exception=repr(val)))
            mon.check("fault.reported_at_injected_line", k == "parser_error" and val.line == 1,
                      lambda: dict(fault=kind, text=t2, outcome=k, error_line=getattr(val, "line", None), want_line=1))
        # multi-line tag texts through the parse_tags entry point: blank / whitespace-only / comment lines before the fault
        for _ in range(3):
            pool = ["@a @b", "  @c", "", "   ", "# a comment", "@d  # trailing comment", "\t@e @f.g"]
            tl = [rng.choice(pool) for _ in range(rng.randint(1, 6))]
            at = rng.randrange(len(tl) + 1)
            kind = rng.choice(["malformed_tag", "tag_expected"])
            tl.insert(at, rng.choice(["  @ok notatag", "  @bug#7 notatag", "  @f.{name} nota{tag}"]) if kind == "malformed_tag" else rng.choice(["  notatag @x", "  {not} a tag"]))
            t3 = "\n".join(tl)
            k, val = call(P.parse_tags, t3)
            mon.case(("fault", "tags", t3), True)
            mon.seen("fault_kind", "tags_entry_" + kind)
            if k != "watchdog":
                mon.check("fault.only_parser_error", k != "other", lambda: dict(fault=kind, text=t3, exception=repr(val)))
                mon.check("fault.reported_at_injected_line", k == "parser_error" and val.line == at + 1,
                          lambda: dict(fault=kind, entry="parse_tags", text=t3, outcome=k, error_line=getattr(val, "line", None),
                                       want_line=at + 1))
        for kind, at, newline, want_line in injections:
            new = src[:at - 1] + [newline] + src[at - 1:]
            t2 = "\n".join(new) + "\n"
            # the same faulty document in the forms a file can have: LF / CRLF / CR line ends, as text or read from a file,
            # with a byte-order mark, with a language comment in front -- the fault is reported at the same (shifted) line
            form = rng.choice(["lf", "lf", "lf", "crlf", "cr", "file_bom", "file_bom_language_comment", "file_cr", "file_bom_blank_first"])
            shift = 0
            if form in ("lf", "crlf", "cr"):
                t_form = t2 if form == "lf" else t2.replace("\n", "\r\n" if form == "crlf" else "\r")
                # the filename that goes with the text: none, a string or a pathlib.Path, relative or absolute
                import pathlib
                fn_form = rng.choice(["none", "none", "str_relative", "str_absolute", "path_relative", "path_absolute"])
                fn_arg = {"none": None, "str_relative": "features/x.feature", "str_absolute": "/proj/features/x.feature",
                          "path_relative": pathlib.Path("features/x.feature"), "path_absolute": pathlib.Path("/proj/features/x.feature")}[fn_form]
                mon.seen("filename_argument", fn_form)
                k, val = call(P.parse_feature, t_form, lang) if fn_arg is None else call(P.parse_feature, t_form, lang, fn_arg)
            else:
                body = t2
                kwargs = {"language": lang}
                if form == "file_bom_language_comment":
                    body, shift, kwargs = "# language: %s\n" % lang + t2, 1, {}
                elif form == "file_bom_blank_first":
                    body, shift = "\n" + t2, 1
                if form == "file_cr":
                    data = body.replace("\n", "\r").encode("utf-8")
                else:
                    data = b"\xef\xbb\xbf" + body.encode("utf-8")
                fd, path = tempfile.mkstemp(prefix="bvm-c05-", suffix=".feature")
                try:
                    with os.fdopen(fd, "wb") as fh:
                        fh.write(data)
                    k, val = call(P.parse_file, path, **kwargs)
                finally:
                    os.unlink(path)
            want_line = want_line + shift
            mon.case(("fault", kind, form, t2), True)
            mon.seen("fault_kind", kind)
            mon.seen("faulty_document_form", form)
            W = lambda **kw: dict(fault=kind, injected_at=at, injected_line=newline, language=lang, document_form=form, text=t2, **kw)
            if k == "watchdog":
                mon.count("watchdog")
                continue
            if k == "other":
                mon.check("fault.only_parser_error", False, lambda: W(exception=repr(val), where=where_of(val)))
                continue
            mon.check("fault.only_parser_error", True)
            if k == "ok":
                mon.check("fault.reported_at_injected_line", False, lambda: W(outcome="accepted without error"))
                continue
            mon.check("fault.reported_at_injected_line", val.line == want_line,
                      lambda: W(error_line=val.line, want_line=want_line, message=str(val)[:200]))


def dump_feature(f):
    """Structural dump of a parsed feature (for comparing two parses of the same text)."""
    if f is None:
        return None

    def steps(sts):
        return [(s.keyword, s.step_type, s.name, s.line, None if s.text is None else str(s.text),
                 None if s.table is None else (list(s.table.headings), [list(r.cells) for r in s.table.rows])) for s in sts]

    def item(it):
        kind = type(it).__name__
        if kind == "Rule":
            return ("rule", it.name, list(it.tags), None if it.background is None else steps(it.background.steps),
                    [item(x) for x in it.run_items])
        ex = [(e.name, list(e.tags), None if e.table is None else (list(e.table.headings), [list(r.cells) for r in e.table.rows]))
              for e in getattr(it, "examples", [])]
        return (kind, it.keyword, it.name, list(it.tags), it.line, steps(it.steps), ex)
    return (f.keyword, f.name, list(f.tags), None if f.background is None else steps(f.background.steps),
            [item(x) for x in f.run_items])


def file_lists(mon, P, rng, n, i18n):
    """The file-list entry point (behave.runner_util.parse_features, what `behave features/` uses): files that hold no feature
    at all (empty, comments only, a language line only) are legal -- they yield no feature and disturb nobody."""
    import shutil
    from behave import runner_util
    for i in range(n):
        root = tempfile.mkdtemp(prefix="bvm-c05-files-")
        try:
            kws = i18n.languages["en"]
            names, nreal = [], 0
            for j in range(rng.randint(2, 4)):
                path = os.path.join(root, "f%d.feature" % j)
                if rng.random() < 0.45:
                    body = rng.choice(["", "\n\n", "# only a comment\n", "# language: de\n", "# language: en\n\n# nothing yet\n", "   \n\t\n"])
                    kind = "no_feature"
                else:
                    body = render_feature(DocGen(rng, "en", kws).feature(), rng, layout=False)[0]
                    kind = "feature"
                    nreal += 1
                with open(path, "w", encoding="utf-8") as fh:
                    fh.write(body)
                names.append((path, kind))
            shape = "".join("n" if k == "no_feature" else "F" for _p, k in names)
            k_, v_ = call(runner_util.parse_features, [p_ for p_, _k in names])
            mon.case(("file-list", shape, i), True)
            mon.check("discipline.only_parser_error", k_ != "other",
                      lambda: dict(entry="runner_util.parse_features", files=shape, exception=repr(v_), where=where_of(v_) if k_ == "other" else None))
            if k_ == "ok":
                mon.check("filelist.one_feature_per_file_that_has_one", len(v_) == nreal, lambda: dict(files=shape, features=len(v_), want=nreal))
            mon.seen("file_list_shape", "no_feature_file_before_a_feature" if "nF" in shape else "other")
        finally:
            shutil.rmtree(root, ignore_errors=True)


def parser_reuse(mon, P, rng, n, i18n):
    """Histories on ONE Parser object (as context.execute_steps does with feature.parser): a parse that failed
    must not influence the next parse."""
    bad_texts = ["Feature: f\n  Scenario: s\n    Given a table\n      | a | b |\n      | 1 |\n",
                 "Feature: f\n  Scenario: s\n    Given x\n      \"\"\"\n      open doc-string\n",
                 "Feature: f\n  Scenario: s\n    And nothing before\n", "Feature: f\n  @a b\n  Scenario: s\n",
                 "Feature: f\n  Scenario Outline: o\n    Given <x>\n    Examples:\n      | x |\n      | 1 | 2 |\n"]
    bad_steps = ["Given a table\n  | a | b |\n  | 1 |\n", "And nothing before\n", "| a |\n", "Given x\n  \"\"\"\n  open\n"]
    for i in range(n):
        lang = "en"
        kws = i18n.languages[lang]
        gen = DocGen(rng, lang, kws)
        good = render_feature(gen.feature(), rng, layout=(i % 2 == 0))[0]
        kind0, val0 = call(P.Parser().parse, good)
        if kind0 != "ok":
            # (a valid document: nothing but a model may come back -- an internal exception is the observation C05 is about)
            mon.check("reuse.only_parser_error", kind0 != "other", lambda: dict(history=[], text=good, exception=repr(val0)))
            continue
        fresh = dump_feature(val0)
        p = P.Parser()
        history = []
        for _ in range(rng.randint(1, 3)):
            bad = rng.choice(bad_texts)
            history.append(bad)
            kind, val = call(p.parse, bad)
            mon.check("reuse.only_parser_error", kind in ("parser_error", "ok"), lambda: dict(history=history, exception=repr(val)))
        kind, val = call(p.parse, good)
        mon.case(("reuse", tuple(history), good), True)
        mon.check("reuse.parse_after_failure_same_as_fresh", kind == "ok" and dump_feature(val) == fresh,
                  lambda: dict(history=history, text=good, outcome=kind, exception=repr(val) if kind != "ok" else None))
        # the same for parse_steps on a reused parser (context.execute_steps)
        steps = gen.steps(rng.randint(1, 4), False)
        stext = render_fragment("steps", steps)[0]
        k_, v_ = call(P.Parser(variant="steps").parse_steps, stext)
        if k_ != "ok":
            mon.check("reuse.only_parser_error", k_ != "other", lambda: dict(history=[], steps_text=stext, exception=repr(v_)))
            continue
        fresh_steps = [(s.keyword, s.name, None if s.text is None else str(s.text),
                        None if s.table is None else [list(r.cells) for r in s.table.rows]) for s in v_]
        p2 = P.Parser(variant="steps")
        hist2 = []
        for _ in range(rng.randint(1, 2)):
            bad = rng.choice(bad_steps)
            hist2.append(bad)
            call(p2.parse_steps, bad)
        kind, val = call(p2.parse_steps, stext)
        got = None if kind != "ok" else [(s.keyword, s.name, None if s.text is None else str(s.text),
                                          None if s.table is None else [list(r.cells) for r in s.table.rows]) for s in val]
        mon.check("reuse.parse_steps_after_failure_same_as_fresh", got == fresh_steps,
                  lambda: dict(history=hist2, text=stext, outcome=kind, exception=repr(val) if kind != "ok" else None))


UNUSUAL_BUT_LEGAL = [
    "Feature: f\n  Scenario Outline: no steps\n    Examples:\n      | x |\n      | 1 |\n",
    "Feature: f\n  Scenario Outline: no steps\n    Examples: one\n      | x |\n      | 1 |\n    Examples: two\n      | x |\n",
    "Feature: f\n  Rule: r\n    Scenario Template: t\n      Examples:\n        | a | b |\n        | 1 | 2 |\n    Scenario: after\n      Given x:\n",
    "Feature: only a title\n",
    "Feature: f\n  Background:\n  Scenario: s\n    Given step with colon:\n      | a |\n      | 1 |\n",
    "Feature: f\n  Scenario: s\n    Given step with colon:\n      \"\"\"\n      text\n      \"\"\"\n",
]


def unusual_documents(mon, P):
    """Legal documents of unusual shape, with and without trailing text that is a fault: a model or a ParserError, nothing else."""
    for doc in UNUSUAL_BUT_LEGAL:
        for tail in ("", "free text that is not a step\n", "Feature: again\n", "      | 1 |\n"):
            for ep in ("feature", "rule", "scenario", "steps"):
                text = doc + tail
                if ep != "feature":
                    text = "\n".join(text.split("\n")[1:])      # fragment entry points get the text below the Feature line
                check_text(mon, P, ep, text, monitor="discipline")


def sub_step_faults(mon, P, rng, n, i18n):
    """Sub-steps handed to context.execute_steps() from a step of a running feature are parsed like any other steps text --
    in the language of the feature they run in: valid localized sub-steps run, a malformed table row among them is a ParserError
    at its line."""
    from ..lab.inproc import RunLab
    lab = RunLab()
    for i in range(n):
        lang = rng.choice(["de", "fr", "en", "de", "ru"])
        kws = i18n.languages[lang]
        first = lambda kind: [k for k in kws[kind] if k.strip() != "*"][0]
        feature_text = u"# language: %s\n%s: F\n  %s: S\n    %sk2 outer step\n" % (lang, kws["feature"][0], kws["scenario"][0], first("given"))
        nsteps = rng.randint(1, 4)
        lines, want_calls = [], []
        for j in range(nsteps):
            kind = "given" if j == 0 else rng.choice(["when", "then", "and", "but"])
            lines.append(u"%sk%d sub step" % (first(kind), 4 + 2 * j))
            want_calls.append("k%d sub step" % (4 + 2 * j))
        fault_line = None
        if i % 2 == 0:
            at = rng.randrange(len(lines)) + 1
            lines[at:at] = [u"  | a | b |", u"  | 1 | 2 | 3 |"]          # a row with one cell too many
            fault_line = at + 2
        sub = u"\n".join(lines) + u"\n"
        seen = {}

        def plug(state, context, text):
            if text.startswith("k2"):
                try:
                    context.execute_steps(sub)
                    seen["result"] = ("ok", None)
                except P.ParserError as ex:
                    seen["result"] = ("parser_error", ex.line)
                except Exception as ex:      # (a failing sub-step surfaces as AssertionError: not expected here)
                    seen["result"] = ("other", repr(ex))
        try:
            feature = P.parse_feature(feature_text, filename="sub.feature")
            obs = lab.run({"features": [], "outcomes": {}}, args=[], features=[feature], step_plugins=[plug])
        except Exception as ex:
            mon.check("substeps.parsed_in_the_language_of_their_feature", False, lambda: dict(language=lang, error=repr(ex), feature=feature_text))
            continue
        mon.case(("sub-steps", lang, sub), True)
        mon.seen("sub_steps_language", lang)
        got = seen.get("result")
        calls = [c[1] for c in obs.calls if c[1] != "k2 outer step"]
        W = lambda **kw: dict(language=lang, feature=feature_text, sub_steps=sub, outcome=got, calls=calls, escaped=repr(obs.escaped), **kw)
        if fault_line is None:
            mon.check("substeps.parsed_in_the_language_of_their_feature", got == ("ok", None) and calls == want_calls, lambda: W(want_calls=want_calls))
        else:
            mon.check("substeps.fault_reported_at_its_line", got == ("parser_error", fault_line), lambda: W(want_line=fault_line))
        # the single-step entry point parse_step(text, language=..., filename=...): one localized step, alone or with a malformed table row
        one = u"%sk4 single step\n" % first("given")
        bad = one + u"  | a | b |\n  | 1 | 2 | 3 |\n"
        for text1, want1 in ((one, ("ok", "k4 single step")), (bad, ("parser_error", 3))):
            kw1 = {"language": lang} if i % 3 else {"language": lang, "filename": "features/one.feature"}
            try:
                st1 = P.parse_step(text1, **kw1)
                got1 = ("ok", getattr(st1, "name", None))
            except P.ParserError as ex:
                got1 = ("parser_error", ex.line)
            except Exception as ex:
                got1 = ("other", repr(ex))
            mon.case(("parse_step", lang, text1, tuple(sorted(kw1))), True)
            mon.check("substeps.single_step_entry_point", got1 == want1, lambda: dict(language=lang, text=text1, arguments=sorted(kw1), got=got1, want=want1))


def run(spec, mon):
    if spec["shard"] % 4 == 3:
        # the documented environment option (read when behave.parser is imported): steps may end with a colon
        os.environ["BEHAVE_STRIP_STEPS_WITH_TRAILING_COLON"] = "yes"
        mon.seen("trailing_colon_option", "yes")
    else:
        os.environ.pop("BEHAVE_STRIP_STEPS_WITH_TRAILING_COLON", None)
        mon.seen("trailing_colon_option", "no")
    from behave import parser as P, i18n
    import logging
    logging.getLogger("behave").disabled = True      # 'Malformed table row' warnings are by design
    tier = spec.get("tier", "quick")
    rng = random.Random(spec["seed"])
    unusual_documents(mon, P)
    soups(mon, P, rng, 3500 if tier == "quick" else 200000, i18n)
    mutations(mon, P, rng, 3 if tier == "quick" else 150, i18n)
    fault_injection(mon, P, rng, 12 if tier == "quick" else 700, i18n)
    parser_reuse(mon, P, rng, 20 if tier == "quick" else 1500, i18n)
    file_lists(mon, P, rng, 12 if tier == "quick" else 400, i18n)
    sub_step_faults(mon, P, rng, 10 if tier == "quick" else 300, i18n)
    if spec["shard"] == 0:
        mon.sample({"soup": "@a b\n| 1 |\nScenario:\n  And x\n", "entry_point": "steps"})
        mon.sample({"fault": "second_feature", "text": "Feature: f\n  Scenario: s\n    Given x\nFeature: again\n", "expected_error_line": 4})


def replay(case, mon):
    from behave import parser as P
    if isinstance(case, dict) and "text" in case:
        print(call(entry(P, case.get("entry_point", "feature")), case["text"]))
    else:
        print("re-run the check with the same seed")


LEVEL_TEXT = ("Fault enumeration: (a) tens of thousands of hostile line soups in six languages through all five parser entry "
              "points, (b) every single-line insert/delete/duplicate/swap/truncate mutation of valid generated documents, "
              "(c) each catalogued grammar fault injected at every position where the abstract tree says it is a fault. "
              "Monitors: nothing but ParserError may come out, its line lies inside the text, injected faults are reported "
              "at the injected line; a SIGALRM watchdog guards termination (inconclusive when it fires).")
LEVEL_NOTE = "Trusted: the fault catalogue's notion of 'is a fault here' (derived from the abstract tree); line pool is finite."
TECHNIQUE = "runtime monitoring: grammar-fault injection at enumerated positions + exception-type/line-range monitors on hostile inputs"
