"""C20 -- configuration precedence: command line over config file over defaults; userdata."""
from __future__ import annotations

import io
import logging
import os
import re
import random
import shutil
import sys
import tempfile

ID = "C20"
LEVEL = "exploration"

# hand-written option table (NOT derived from behave.configuration.OPTIONS)
#   dest: (kind, default, positive flag(s), negative flag(s))
BOOLS = {
    "show_skipped": (True, ["--show-skipped"], ["--no-skipped"]),
    "show_snippets": (True, ["--snippets"], ["--no-snippets"]),
    "show_multiline": (True, ["--multiline"], ["--no-multiline"]),
    "stdout_capture": (True, ["--capture"], ["--no-capture"]),
    "stderr_capture": (True, ["--capture-stderr"], ["--no-capture-stderr"]),
    "log_capture": (True, ["--logcapture"], ["--no-logcapture"]),
    "summary": (True, ["--summary"], ["--no-summary"]),
    "show_source": (True, ["--show-source"], ["--no-source"]),
    "show_timings": (True, ["--show-timings"], ["-T", "--no-timings"]),
    "junit": (False, ["--junit"], ["--no-junit"]),
    "dry_run": (False, ["-d", "--dry-run"], []),
    "stop": (False, ["--stop"], []),
    "logging_clear_handlers": (False, ["--logging-clear-handlers"], []),
}
SCALARS = {
    # dest: (default, flag, [(text on cmdline / in file, expected attribute value)])
    "junit_directory": ("reports", "--junit-directory", [("out/junit", "out/junit"), ("rep2", "rep2")]),
    "jobs": (1, "--jobs", [("3", 3), ("7", 7), ("0", 0), ("1", 1)]),      # (0 is a legal number of jobs: "positive" means not negative here)
    "logging_level": (logging.INFO, "--logging-level", [("DEBUG", logging.DEBUG), ("ERROR", logging.ERROR), ("warning", logging.WARNING)]),
    "logging_format": ("%(levelname)s:%(name)s:%(message)s", "--logging-format", [("%(name)s:%(message)s", "%(name)s:%(message)s"), ("LOG %(levelname)s", "LOG %(levelname)s")]),
    "logging_datefmt": (None, "--logging-datefmt", [("%H:%M", "%H:%M"), ("%Y", "%Y")]),
    "logging_filter": (None, "--logging-filter", [("foo,bar", "foo,bar"), ("-baz", "-baz")]),
    "stage": (None, "--stage", [("develop", "develop"), ("product", "product")]),
    "lang": (None, "--lang", [("de", "de"), ("fr", "fr")]),
    "color": ("auto", "--color", [("always", "always"), ("off", "off"), ("never", "never")]),
}
FILE_ONLY = {
    "default_format": ("pretty", [("plain", "plain"), ("progress", "progress")]),
    "scenario_outline_annotation_schema": (u"{name} -- @{row.id} {examples.name}", [("{name} [{row.id}]", "{name} [{row.id}]"), ("{name} -- @{row.id} \"{examples.name}\"", "{name} -- @{row.id} \"{examples.name}\"")]),
    "tag_expression_protocol": ("auto_detect", [("v1", "V1"), ("v2", "V2"), ("auto_detect", "AUTO_DETECT")]),
}
LISTS = {
    # dest: (flag, candidate values)
    "format": ("-f", ["plain", "json", "progress", "null", "tags"]),
    "name": ("-n", ["alpha", "be.*ta", "S[0-9]+", "x,y", "one two"]),
    "tags": ("-t", ["a", "b", "not c", "a or b", "@a,@b", "x,y"]),     # (a comma inside ONE value is part of the value)
}
INI_NAMES = ["behave.ini", ".behaverc", "setup.cfg", "tox.ini"]
RULE = ("each case builds a scratch HOME and working directory, writes one or two configuration files (behave.ini, "
        ".behaverc, setup.cfg, tox.ini, pyproject.toml; in the working directory and/or in HOME) with a random subset of "
        "~30 options, adds a random subset of options on the command line (booleans with their --no- counterparts, "
        "scalars, choices, append options, paths / outfiles / format coupling), constructs Configuration(args) and compares "
        "every attribute of a hand-written option table: command line, else (highest-priority) file, else default; all "
        "(file value, command-line flag) pairs for every boolean exhaustively; -D strings over names/values with quotes, "
        "'=' and padding; userdata getters. A case = one Configuration; non-trivial = >=1 option in a file and >=1 on "
        "the command line; distinct by hash of (files, args).")
ASSUMPTIONS = [
    "the option table in this module is the documented behaviour (docs/behave.rst), not derived from OPTIONS",
    "documented couplings only: --junit forces the three capture switches on; -q/-w/--steps-catalog are exercised alone",
    "for append options given in a file AND on the command line only 'command-line values come last, in order' is demanded",
    "file precedence: working directory over HOME; within one directory behave.ini > .behaverc > setup.cfg > tox.ini > pyproject.toml",
]
REQUIRED = {"precedence.attribute": {"quick": 20000, "thorough": 1500000}, "bool.file_x_cmdline_pairs": {"quick": 200, "thorough": 200},
            "paths.relative_to_config_file": {"quick": 150, "thorough": 8000}, "list.order": {"quick": 400, "thorough": 20000},
            "userdata.define_parsing": {"quick": 2000, "thorough": 100000}, "userdata.cmdline_overrides_file": {"quick": 300, "thorough": 15000},
            "userdata.getters": {"quick": 1500, "thorough": 60000}, "userdata.namespace_view": {"quick": 500, "thorough": 20000}, "precedence.options_around_a_bare_color": {"quick": 200, "thorough": 8000}, "outputs.paired_with_formatters_in_order": {"quick": 300, "thorough": 10000}, "couplings.documented": {"quick": 100, "thorough": 4000}, "embedded.explicit_command_line_is_the_command_line": {"quick": 300, "thorough": 8000}}
REQUIRED_SEEN = {"color_in_force": ["auto", "always", "off", "never"], "file_patterns_in_force": ["include", "exclude", "include+exclude"], "userdata_changed_with": ["update", "item_assignment", "config.update_userdata"], "stage_decided_by": ["cmdline", "file", "environment", "default", "cmdline_with_BEHAVE_STAGE_set", "file_with_BEHAVE_STAGE_set"], "embedded_args": ["none_means_sys_argv", "empty_list", "empty_str", "empty_tuple", "given"], "outfile_list_shape": ["stdout_placeholder_before_a_file"], "bare_color_position": ["first", "middle", "last"], "namespace_view_made": ["before_the_data", "after_the_data"],
                 "define_value_shape": ["different_quote_characters_at_the_ends"], "namespace_name_shape": ["name_starts_with_namespace_text"], "config_file_kind": ["behave.ini", ".behaverc", "setup.cfg", "tox.ini", "pyproject.toml"],
                 "config_file_place": ["cwd", "home"], "source_deciding": ["cmdline", "file", "default"]}
EXHAUSTIVE = True
EXHAUSTIVE_SCOPE = "all (file value in {absent,true,false}) x (command-line flag in {absent,positive,negative}) pairs for every boolean option"
NSHARDS = {"quick": 16, "thorough": 16}


def plan(tier, seed):
    n = NSHARDS[tier]
    return [{"shard": i, "of": n, "seed": seed * 1000 + i} for i in range(n)]


def classify(name, w):
    return name


# ---------------------------------------------------------------------------
def ini_text(values, userdata=None):
    lines = ["[behave]"]
    for k, v in values.items():
        if isinstance(v, list):
            lines.append("%s = %s" % (k, ("\n    ".join(v)) if v else ""))
        elif isinstance(v, bool):
            lines.append("%s = %s" % (k, "true" if v else "false"))
        else:
            lines.append("%s = %s" % (k, str(v).replace("%", "%%") if k not in ("logging_format", "logging_datefmt") else v))
    if userdata:
        lines.append("")
        lines.append("[behave.userdata]")
        for k, v in userdata.items():
            lines.append("%s = %s" % (k, v.replace("%", "%%")))
    return "\n".join(lines) + "\n"


def toml_text(values, userdata=None):
    def q(s):
        return '"' + str(s).replace("\\", "\\\\").replace('"', '\\"') + '"'
    lines = ["[tool.behave]"]
    for k, v in values.items():
        if isinstance(v, list):
            lines.append("%s = [%s]" % (k, ", ".join(q(x) for x in v)))
        elif isinstance(v, bool):
            lines.append("%s = %s" % (k, "true" if v else "false"))
        else:
            lines.append("%s = %s" % (k, q(v)))
    if userdata:
        lines.append("")
        lines.append("[tool.behave.userdata]")
        for k, v in userdata.items():
            # (numbers may be written as native TOML numbers: user data is text all the same -- "2.5", "42")
            native = isinstance(v, str) and re.fullmatch(r"(0|[1-9]\d*)(\.\d+)?", v) is not None and len(k) % 2 == 0
            lines.append("%s = %s" % (q(k), v if native else q(v)))
    return "\n".join(lines) + "\n"


class Scratch(object):
    def __init__(self):
        self.root = tempfile.mkdtemp(prefix="bvm-cfg-")
        self.home = os.path.join(self.root, "home")
        self.cwd = os.path.join(self.root, "work", "proj")
        os.makedirs(self.home)
        os.makedirs(self.cwd)
        self.saved = (os.getcwd(), os.environ.get("HOME"), dict((k, v) for k, v in os.environ.items() if k.startswith("BEHAVE_")))

    def enter(self):
        os.chdir(self.cwd)
        os.environ["HOME"] = self.home
        for k in list(os.environ):
            if k.startswith("BEHAVE_"):
                del os.environ[k]

    def leave(self):
        os.chdir(self.saved[0])
        if self.saved[1] is None:
            os.environ.pop("HOME", None)
        else:
            os.environ["HOME"] = self.saved[1]
        os.environ.update(self.saved[2])
        shutil.rmtree(self.root, ignore_errors=True)

    def clear_files(self):
        for d in (self.home, self.cwd):
            for n in INI_NAMES + ["pyproject.toml"]:
                p = os.path.join(d, n)
                if os.path.exists(p):
                    os.remove(p)


def make_config(args, **kwargs):
    """Construct Configuration(args) with process-wide state saved/restored.  Returns (config | None, error)."""
    from behave.configuration import Configuration
    from behave.model import ScenarioOutline
    from behave.tag_expression import TagExpressionProtocol as TEP
    saved_schema = ScenarioOutline.annotation_schema
    saved_tep = TEP.__dict__.get("_current", None)
    out, err = sys.stdout, sys.stderr
    sys.stdout = sys.stderr = io.StringIO()
    try:
        return Configuration(list(args), **kwargs), None
    except SystemExit as ex:
        return None, "SystemExit(%s): %s" % (ex.code, sys.stderr.getvalue()[-300:])
    except Exception as ex:
        return None, repr(ex)
    finally:
        sys.stdout, sys.stderr = out, err
        ScenarioOutline.annotation_schema = saved_schema
        if saved_tep is None:
            if "_current" in TEP.__dict__:
                try:
                    type.__delattr__(TEP, "_current")
                except Exception:
                    TEP.use(TEP.DEFAULT)
        else:
            TEP.use(saved_tep)


PRIORITY = ["behave.ini", ".behaverc", "setup.cfg", "tox.ini", "pyproject.toml"]


def random_case(mon, sc, rng, sample=False):
    sc.clear_files()
    # ---- files -------------------------------------------------------------------------------
    files = []          # (place, name, values)
    nfiles = rng.choice([0, 1, 1, 1, 2, 2, 3])
    taken = set()
    for _ in range(nfiles):
        place = rng.choice(["cwd", "cwd", "home"])
        name = rng.choice(PRIORITY)
        if (place, name) in taken:
            continue
        taken.add((place, name))
        values = {}
        for dest, (default, pos, neg) in BOOLS.items():
            if rng.random() < 0.25:
                values[dest] = rng.random() < 0.5
        for dest, (default, flag, cands) in SCALARS.items():
            if rng.random() < 0.25:
                values[dest] = rng.choice(cands)
        for dest, (default, cands) in FILE_ONLY.items():
            if rng.random() < 0.2:
                values[dest] = rng.choice(cands)
        for dest, (flag, cands) in LISTS.items():
            if rng.random() < 0.25:
                values[dest] = rng.sample(cands, rng.randint(1, 3))
        if rng.random() < 0.2:
            values["default_tags"] = [rng.choice(["x", "not y"])]
        if rng.random() < 0.25:
            values["paths"] = rng.sample(["features", "more/feat", "../other", "/abs/feat"], rng.randint(1, 2))
        if "format" in values and rng.random() < 0.5:
            values["outfiles"] = ["out%d.txt" % i for i in range(rng.randint(1, len(values["format"])))]
        files.append((place, name, values))
    for place, name, values in files:
        d = sc.cwd if place == "cwd" else sc.home
        raw = {k: (v[0] if isinstance(v, tuple) else v) for k, v in values.items()}
        text = toml_text(raw) if name == "pyproject.toml" else ini_text(raw)
        with open(os.path.join(d, name), "w", encoding="utf-8") as fh:
            fh.write(text)
        mon.seen("config_file_kind", name)
        mon.seen("config_file_place", place)
    # effective file value per dest: highest priority file that has it (later update() wins)
    order = sorted(files, key=lambda f: (0 if f[0] == "cwd" else 1, PRIORITY.index(f[1])))
    file_value, file_dir = {}, {}
    for place, name, values in reversed(order):
        for k, v in values.items():
            file_value[k] = v
            file_dir[k] = sc.cwd if place == "cwd" else sc.home
    # format/outfiles coupling is per file: outfiles belong to the same file as format
    for place, name, values in order:
        if "format" in values:
            pass
    # ---- command line -----------------------------------------------------------------------------
    args = []
    cmd = {}
    for dest, (default, pos, neg) in BOOLS.items():
        if rng.random() < 0.2:
            choice = rng.choice(["pos", "neg"]) if neg else "pos"
            args.append(rng.choice(pos if choice == "pos" else neg))
            cmd[dest] = (choice == "pos")
    for dest, (default, flag, cands) in SCALARS.items():
        if rng.random() < 0.2:
            text, val = rng.choice(cands)
            if dest == "color" and rng.random() < 0.3:
                args.append(rng.choice(["-C", "--no-color"]))
                cmd[dest] = "off"
            else:
                args.extend([flag, text] if (rng.random() < 0.5 and not text.startswith("-")) else ["%s=%s" % (flag, text)])
                cmd[dest] = val
    cmd_lists = {}
    for dest, (flag, cands) in LISTS.items():
        if rng.random() < 0.2:
            vals = rng.sample(cands, rng.randint(1, 2))
            for v in vals:
                args.extend([flag, v] if rng.random() < 0.5 else ["%s=%s" % ({"-f": "--format", "-n": "--name", "-t": "--tags"}[flag], v)])
            cmd_lists[dest] = vals
    cmd_paths = None
    if rng.random() < 0.2:
        cmd_paths = rng.sample(["cmd/features", "x.feature", "a/b/c.feature:12"], rng.randint(1, 2))
        args.extend(cmd_paths)
    # the process environment: BEHAVE_STAGE is the fallback for a stage that neither the command line nor a file names
    env_stage = rng.choice(["ci", "nightly"]) if rng.random() < 0.3 else None
    if env_stage:
        os.environ["BEHAVE_STAGE"] = env_stage
    try:
        config, err = make_config(args)
    finally:
        os.environ.pop("BEHAVE_STAGE", None)
    case = {"files": [(p, n, {k: (v[0] if isinstance(v, tuple) else v) for k, v in vals.items()}) for p, n, vals in files], "args": args,
            "environment": {"BEHAVE_STAGE": env_stage} if env_stage else {}}
    mon.case(case, bool(files) and bool(args))
    if config is None:
        mon.check("precedence.constructs", False, dict(case=case, error=err))
        return
    W = lambda **kw: dict(case=case, **kw)
    eff_stage, stage_src = (cmd["stage"], "cmdline") if "stage" in cmd else ((file_value["stage"][1], "file") if "stage" in file_value
                                                                             else ((env_stage, "environment") if env_stage else (None, "default")))
    mon.seen("stage_decided_by", stage_src + ("_with_BEHAVE_STAGE_set" if env_stage and stage_src in ("cmdline", "file") else ""))
    mon.check("precedence.stage_selects_steps_dir_and_environment_file",
              config.steps_dir == ("%s_steps" % eff_stage if eff_stage else "steps") and
              config.environment_file == ("%s_environment.py" % eff_stage if eff_stage else "environment.py"),
              lambda: W(stage=eff_stage, decided_by=stage_src, steps_dir=config.steps_dir, environment_file=config.environment_file))
    # what the colour setting in force means for a stream: on / always = coloured, off / never = plain, auto = coloured on a terminal
    class _Stream(object):
        def __init__(self, tty):
            self.tty = tty

        def isatty(self):
            return self.tty
    col = config.color
    for tty in (True, False):
        want_col = True if col in ("on", "always") else (False if col in ("off", "never") else tty)
        got_col = config.has_colored_mode(file=_Stream(tty))
        mon.check("color.setting_in_force_decides_for_terminal_and_pipe", bool(got_col) == want_col,
                  lambda: W(color=col, stream="terminal" if tty else "pipe", coloured=got_col, want=want_col))
    mon.seen("color_in_force", str(col))
    junit_on = cmd.get("junit", file_value.get("junit", False))
    for dest, (default, pos, neg) in BOOLS.items():
        if dest in cmd:
            want, src = cmd[dest], "cmdline"
        elif dest in file_value:
            want, src = file_value[dest], "file"
        else:
            want, src = default, "default"
        if junit_on and dest in ("stdout_capture", "stderr_capture", "log_capture"):
            mon.check("couplings.documented", getattr(config, dest) is True, lambda: W(option=dest, note="--junit forces capture on", got=getattr(config, dest)))
            continue
        got = getattr(config, dest)
        mon.check("precedence.attribute", got == want, lambda: W(option=dest, got=got, want=want, decided_by=src))
        mon.seen("source_deciding", src)
    for dest, (default, flag, cands) in SCALARS.items():
        if dest in cmd:
            want, src = cmd[dest], "cmdline"
        elif dest in file_value:
            want, src = file_value[dest][1], "file"
        else:
            want, src = default, "default"
            if dest == "stage" and env_stage:
                want, src = env_stage, "environment"
        got = getattr(config, dest)
        mon.check("precedence.attribute", got == want, lambda: W(option=dest, got=got, want=want, decided_by=src))
    for dest, (default, cands) in FILE_ONLY.items():
        want = file_value[dest][1] if dest in file_value else default
        got = getattr(config, dest)
        if dest == "tag_expression_protocol":
            got = str(getattr(got, "name", got)).upper()      # (enum member from ini files, its name from pyproject.toml)
            want = "AUTO_DETECT" if dest not in file_value else want
        mon.check("precedence.attribute", got == want, lambda: W(option=dest, got=got, want=want))
    # ---- lists ---------------------------------------------------------------------------------------
    for dest in ("format", "name"):
        got = getattr(config, dest) or []
        fv = list(file_value.get(dest, []))
        cv = cmd_lists.get(dest)
        if cv is None:
            want_ok = list(got) == fv or (dest == "format" and not fv and not got)
            mon.check("list.order", want_ok, lambda: W(option=dest, got=list(got), want=fv, note="file values in file order"))
        else:
            mon.check("list.order", list(got)[-len(cv):] == cv, lambda: W(option=dest, got=list(got), cmdline=cv, note="command-line values last, in order"))
    # tags: command line overrides file tags entirely (file tags are available as {config.tags})
    if "tags" in cmd_lists:
        mon.check("precedence.attribute", list(config.tags) == cmd_lists["tags"], lambda: W(option="tags", got=config.tags, want=cmd_lists["tags"]))
    elif "tags" in file_value:
        mon.check("precedence.attribute", list(config.tags) == list(file_value["tags"]), lambda: W(option="tags", got=config.tags, want=file_value["tags"], decided_by="file"))
    # ---- paths / outfiles relative to the config file ------------------------------------------------------
    if cmd_paths is not None:
        mon.check("precedence.attribute", list(config.paths) == [os.path.normpath(p) for p in cmd_paths], lambda: W(option="paths", got=config.paths, want=cmd_paths))
    elif "paths" in file_value:
        want = [os.path.normpath(os.path.join(file_dir["paths"], p)) for p in file_value["paths"]]
        got_abs = [os.path.abspath(p) for p in config.paths]      # (a file in the working directory yields cwd-relative paths)
        mon.check("paths.relative_to_config_file", got_abs == want, lambda: W(option="paths", got=list(config.paths), got_abs=got_abs, want=want))
    if "format" in file_value and "format" not in cmd_lists:
        # outfiles of the file that decided 'format'
        src = next((f for f in order if "format" in f[2]), None)
        if src is not None and file_value["format"] is src[2]["format"]:
            d = sc.cwd if src[0] == "cwd" else sc.home
            fmts = src[2]["format"]
            outs = list(src[2].get("outfiles", []))
            outs = outs + ["%s.output" % f for f in fmts[len(outs):]]
            want = [os.path.normpath(os.path.join(d, o)) for o in outs[:len(fmts)]]
            higher = [f for f in order[:order.index(src)] if "outfiles" in f[2]]
            if not higher:
                got = [os.path.abspath(getattr(o, "name", None) or "?") for o in config.outputs]
                mon.check("paths.relative_to_config_file", got == want, lambda: W(option="outfiles", got=got, want=want))
    if sample:
        mon.sample({"files": case["files"], "args": args, "observed": {k: getattr(config, k) for k in ("show_skipped", "junit", "color", "jobs", "format", "paths")}})


def bool_pairs(mon, sc, shard, of):
    idx = 0
    for dest, (default, pos, neg) in BOOLS.items():
        for fval in (None, True, False):
            for flag in [None] + pos + neg:
                for fname in ("behave.ini", "pyproject.toml"):
                    idx += 1
                    if idx % of != shard:
                        continue
                    sc.clear_files()
                    if fval is not None:
                        text = toml_text({dest: fval}) if fname.endswith(".toml") else ini_text({dest: fval})
                        with open(os.path.join(sc.cwd, fname), "w") as fh:
                            fh.write(text)
                    args = [flag] if flag else []
                    config, err = make_config(args)
                    case = {"option": dest, "file": fname if fval is not None else None, "file_value": fval, "flag": flag}
                    mon.case(("pair", dest, fval, flag, fname), fval is not None and flag is not None)
                    if config is None:
                        mon.check("bool.file_x_cmdline_pairs", False, dict(case=case, error=err))
                        continue
                    want = (flag in pos) if flag else (fval if fval is not None else default)
                    got = getattr(config, dest)
                    if dest in ("stdout_capture", "stderr_capture", "log_capture") and getattr(config, "junit", False):
                        continue
                    mon.check("bool.file_x_cmdline_pairs", got == want, dict(case=case, got=got, want=want))


def userdata_cases(mon, sc, rng, n):
    from behave.userdata import parse_user_define, UserData
    names = ["foo", "person.name", "a_b", "x1", "Ünï"]
    values = ["bar", "Alice and Bob", "42", "3.5", "true", "a=b", "", "x y  z", "it's", 'say "hi"', "=", "1e3", "off", " padded ",
              # one quote character at each end, but of DIFFERENT kinds: not a quoted value, nothing is stripped
              "'Alice' says \"hello\"", "\"quoted\" isn't", "'x\"", "\"'"]
    for i in range(n):
        name = rng.choice(names)
        value = rng.choice(values)
        style = rng.choice(["plain", "padded", "whole_dq", "whole_sq", "value_dq", "value_sq", "bare", "padded_value_q"])
        expect_value = value.strip()
        if style == "plain":
            text = "%s=%s" % (name, value)
        elif style == "padded":
            text = "  %s  =  %s  " % (name, value)
        elif style == "whole_dq":
            text = '"%s=%s"' % (name, value)
        elif style == "whole_sq":
            text = "'%s=%s'" % (name, value)
        elif style == "value_dq":
            text = '%s="%s"' % (name, value)
            expect_value = value
        elif style == "value_sq":
            text = "%s='%s'" % (name, value)
            expect_value = value
        elif style == "padded_value_q":
            text = '%s = "%s"' % (name, value)
            expect_value = value
        else:
            text = name
            expect_value = "true"
        # the documented forms are only unambiguous when the value itself is not quote-wrapped / quote-terminated
        v_ = value.strip()
        if style in ("plain", "padded", "whole_dq", "whole_sq") and v_[:1] in "\"'" and v_[-1:] == v_[:1] and len(v_) > 1:
            continue        # (wrapped in a PAIR of quotes: the pair would be taken for quoting)
        if v_[:1] in ("'", '"') and v_[-1:] in ("'", '"') and v_[:1] != v_[-1:] and len(v_) > 1:
            mon.seen("define_value_shape", "different_quote_characters_at_the_ends")
        if style in ("whole_dq",) and value.endswith('"'):
            continue
        if style in ("whole_sq",) and value.endswith("'"):
            continue
        if style in ("plain", "padded") and ((text.strip().startswith('"') and text.strip().endswith('"')) or (text.strip().startswith("'") and text.strip().endswith("'"))):
            continue
        mon.case(("define", text), style != "plain")
        try:
            got = parse_user_define(text)
            mon.check("userdata.define_parsing", got == (name, expect_value), lambda: dict(text=text, style=style, got=got, want=(name, expect_value)))
        except Exception as ex:
            mon.check("userdata.define_parsing", False, dict(text=text, style=style, error=repr(ex)))
        mon.seen("define_style", style)
    # ---- -D overrides [behave.userdata] ----------------------------------------------------------------
    file_names = names[:4] + ["BASE_URL", "camelCase"]        # user-data names are case-sensitive
    for i in range(max(20, n // 8)):
        sc.clear_files()
        fdata = {k: rng.choice(["f1", "42", "yes", "0.5", "2.5"]) for k in rng.sample(file_names, rng.randint(1, 3))}
        fname = rng.choice(["behave.ini", "pyproject.toml", "setup.cfg"])
        text = toml_text({}, fdata) if fname.endswith(".toml") else ini_text({}, fdata)
        with open(os.path.join(rng.choice([sc.cwd, sc.home]), fname), "w", encoding="utf-8") as fh:
            fh.write(text)
        defines = {k: rng.choice(["c1", "7", "no", "2.5"]) for k in rng.sample(names + ["BASE_URL", "camelCase"], rng.randint(0, 3))}
        args = []
        for k, v in defines.items():
            args.extend(["-D", "%s=%s" % (k, v)] if rng.random() < 0.5 else ["--define", "%s=%s" % (k, v)])
        config, err = make_config(args)
        case = {"file": fname, "file_userdata": fdata, "args": args}
        mon.case(("userdata", fname, tuple(sorted(fdata.items())), tuple(args)), bool(defines))
        if config is None:
            mon.check("userdata.cmdline_overrides_file", False, dict(case=case, error=err))
            continue
        want = dict(fdata)
        want.update(defines)
        got = dict(config.userdata)
        mon.check("userdata.cmdline_overrides_file", got == want, lambda: dict(case=case, got=got, want=want))
    # ---- what the reporters built by the Configuration read from user data: -D wins over the file there, too ------------
    for i in range(max(8, n // 30)):
        sc.clear_files()
        file_fmt = rng.choice(["v1", "v1A", "v2", "v3"])
        cmd_fmt = rng.choice([None, "v1B", "v2", "v3"])
        fdata = {"behave.reporter.summary.output_format": file_fmt, "behave.reporter.junit.show_hostname": rng.choice(["true", "false"])}
        cmd_host = rng.choice([None, "true", "false"])
        fname = rng.choice(["behave.ini", "pyproject.toml"])
        with open(os.path.join(sc.cwd, fname), "w", encoding="utf-8") as fh:
            fh.write(toml_text({}, fdata) if fname.endswith(".toml") else ini_text({}, fdata))
        args = ["--junit"]
        if cmd_fmt:
            args += ["-D", "behave.reporter.summary.output_format=%s" % cmd_fmt]
        if cmd_host:
            args += ["-D", "behave.reporter.junit.show_hostname=%s" % cmd_host]
        config, err = make_config(args)
        case = {"file": fname, "file_userdata": fdata, "args": args}
        mon.case(("reporter-userdata", fname, tuple(sorted(fdata.items())), tuple(args)), True)
        if config is None:
            mon.check("userdata.reporters_see_cmdline_definitions", False, dict(case=case, error=err))
            continue
        got = {}
        for rep in config.reporters:
            if type(rep).__name__.startswith("SummaryReporter"):
                got["summary.output_format"] = rep.output_format
            if type(rep).__name__ == "JUnitReporter":
                got["junit.show_hostname"] = rep.show_hostname
        want = {"summary.output_format": cmd_fmt or file_fmt,
                "junit.show_hostname": (cmd_host or fdata["behave.reporter.junit.show_hostname"]) == "true"}
        mon.check("userdata.reporters_see_cmdline_definitions", got == want, lambda: dict(case=case, got=got, want=want))
    # ---- -D on top of user data handed in by an embedding program (Configuration(..., userdata=...)) ---------------
    for i in range(max(10, n // 20)):
        sc.clear_files()
        base = {k: rng.choice(["p1", "9", "off"]) for k in rng.sample(file_names, rng.randint(1, 3))}
        defines = {k: rng.choice(["c1", "7", "yes"]) for k in rng.sample(names + ["BASE_URL"], rng.randint(1, 3))}
        args = []
        for k, v in defines.items():
            args.extend(["-D", "%s=%s" % (k, v)])
        kind = rng.choice(["UserData", "dict"])
        given = UserData(dict(base)) if kind == "UserData" else dict(base)
        config, err = make_config(args, load_config=False, userdata=given)
        case = {"userdata_kwarg": kind, "given": base, "args": args}
        mon.case(("userdata-kwarg", kind, tuple(sorted(base.items())), tuple(args)), True)
        if config is None:
            mon.check("userdata.cmdline_overrides_given", False, dict(case=case, error=err))
            continue
        want = dict(base)
        want.update(defines)
        got = dict(config.userdata)
        mon.check("userdata.cmdline_overrides_given", got == want, lambda: dict(case=case, got=got, want=want))
    # ---- the namespace view on user data (UserDataNamespace("app", config.userdata)): "{namespace}.{name}" ----------------
    from behave.userdata import UserDataNamespace
    for i in range(max(10, n // 10)):
        sc.clear_files()
        ns = rng.choice(["app", "db", "my.scope", "log"])
        short = rng.choice([["timeout", "%s_timeout" % ns.replace(".", "_"), "%sname" % ns.split(".")[0], "%sly" % ns, "retries"],
                            ["name", "%s" % ns, "%s.inner" % ns, "x"]])
        universe = ["%s.%s" % (ns, k) for k in short] + list(short) + ["other.%s" % short[0]]
        fdata = {k: rng.choice(["5", "7", "12"]) for k in rng.sample(universe, rng.randint(1, 4))}
        fname = rng.choice(["behave.ini", "setup.cfg"])
        with open(os.path.join(sc.cwd, fname), "w", encoding="utf-8") as fh:
            fh.write(ini_text({}, fdata))
        defines = {k: rng.choice(["21", "34"]) for k in rng.sample(universe, rng.randint(0, 3))}
        args = []
        for k, v in defines.items():
            args.extend(["-D", "%s=%s" % (k, v)])
        config, err = make_config(args)
        case = {"namespace": ns, "file": fname, "file_userdata": fdata, "args": args}
        mon.case(("userdata-namespace", ns, tuple(sorted(fdata.items())), tuple(args)), True)
        if config is None:
            mon.check("userdata.namespace_view", False, dict(case=case, error=err))
            continue
        merged = dict(fdata)
        merged.update(defines)
        view = UserDataNamespace(ns, config.userdata)
        if i % 3 == 0:
            # the other order (documented: config.update_userdata(...) in before_all): the view is made while there is no user data
            # at all, the data arrives later -- the view is a VIEW
            sc.clear_files()
            config, err = make_config([])
            if config is None or dict(config.userdata):
                continue
            view = UserDataNamespace(ns, config.userdata)
            config.update_userdata(dict(merged))
            case = dict(case, order="view made on empty user data, data added afterwards")
            mon.seen("namespace_view_made", "before_the_data")
        else:
            mon.seen("namespace_view_made", "after_the_data")
        for k in short:
            full = "%s.%s" % (ns, k)
            want = (full in merged, merged.get(full, "dflt"), int(merged[full]) if full in merged else -1)
            try:
                got = (k in view, view.get(k, "dflt"), view.getint(k, -1))
            except Exception as ex:
                got = repr(ex)
            mon.check("userdata.namespace_view", got == want,
                      lambda: dict(case=case, name=k, scoped_name=full, got=got, want=want, userdata=dict(config.userdata)))
            if k.startswith(ns.split(".")[0]):
                mon.seen("namespace_name_shape", "name_starts_with_namespace_text")
        want_keys = sorted(k[len(ns) + 1:] for k in merged if k.startswith(ns + "."))
        got_keys = sorted(view.keys())
        mon.check("userdata.namespace_view", got_keys == want_keys and len(view) == len(want_keys),
                  lambda: dict(case=case, got_keys=got_keys, want_keys=want_keys, length=len(view)))
    # ---- typed getters --------------------------------------------------------------------------------------
    for i in range(n):
        raw = rng.choice(["007", "08080", "-012", "+08", "0x10", "1_000", "00", "42", "-7", "3.5", "abc", "", "true", "Yes", "off", "0", "1", "2", " 12 ", "1e3", "no ", "maybe"])
        ud = UserData({"k": raw})
        for getter, conv, default in (("getint", int, 0), ("getfloat", float, 0.0), ("getbool", None, False)):
            if conv is not None:
                try:
                    want = ("value", conv(raw))
                except ValueError:
                    want = ("ValueError", None)
            else:
                t = raw.lower().strip()
                want = ("value", True) if t in ("yes", "true", "on", "1") else (("value", False) if t in ("no", "false", "off", "0") else ("ValueError", None))
            try:
                got = ("value", getattr(ud, getter)("k"))
            except ValueError:
                got = ("ValueError", None)
            except Exception as ex:
                got = (repr(ex), None)
            mon.case(("getter", getter, raw), True)
            mon.check("userdata.getters", got == want, lambda: dict(raw=raw, getter=getter, got=got, want=want))
            # a default given by the caller is for a MISSING name only: a defined value (also one that converts to 0 / 0.0 /
            # False) is returned converted
            for dflt in (True, None, 99, "dflt"):
                try:
                    got2 = ("value", getattr(ud, getter)("k", dflt))
                except ValueError:
                    got2 = ("ValueError", None)
                except Exception as ex:
                    got2 = (repr(ex), None)
                ok2 = got2 == want and (want[0] != "value" or type(got2[1]) is type(want[1]))
                mon.check("userdata.getters", ok2, lambda: dict(raw=raw, getter=getter, default=dflt, got=got2, want=want))
            d = rng.choice([5, None, "dflt"])
            got_d = getattr(ud, getter)("missing", d)
            mon.check("userdata.getters", got_d is d or got_d == d, lambda: dict(getter=getter, missing=True, default=d, got=got_d))
        mon.check("userdata.getters", UserData({"k": 5}).getint("k") == 5 and UserData({"k": True}).getbool("k") is True and
                  UserData({"k": "x"}).getas(str.upper, "k", valuetype=int) == "X", dict(note="values of the right type are returned as they are; getas converts"))


def userdata_histories(mon, sc, rng):
    """Histories on ONE user-data object: a typed getter reads, the data changes (update() / item assignment /
    config.update_userdata(), which re-applies the -D definitions on top), the getter reads again -- it converts what is there NOW."""
    from behave.userdata import UserData

    def read(ud):
        out = []
        for getter, name in (("getfloat", "timeout"), ("getbool", "verbose"), ("getint", "n")):
            try:
                out.append(getattr(ud, getter)(name))
            except ValueError:
                out.append("ValueError")
        return out
    first, second = {"timeout": "1.5", "verbose": "no", "n": "3"}, {"timeout": "2.5", "verbose": "yes", "n": "x"}
    for how in ("update", "item_assignment", "config.update_userdata"):
        sc.clear_files()
        if how == "config.update_userdata":
            config, err = make_config([])
            if config is None:
                mon.check("userdata.history_getter_reads_current_value", False, dict(how=how, error=err))
                continue
            config.update_userdata(dict(first))
            ud = config.userdata
        else:
            ud = UserData(dict(first))
        r1 = read(ud)
        if how == "update":
            ud.update(second)
        elif how == "item_assignment":
            for k_, v_ in second.items():
                ud[k_] = v_
        else:
            config.update_userdata(dict(second))
        r2 = read(ud)
        mon.case(("userdata-history", how), True)
        mon.seen("userdata_changed_with", how)
        mon.check("userdata.history_getter_reads_current_value", r1 == [1.5, False, 3] and r2 == [2.5, True, "ValueError"],
                  lambda: dict(changed_with=how, first_read=r1, second_read=r2, want=[[1.5, False, 3], [2.5, True, "ValueError"]]))
    # data loaded by user code (JSON / YAML: real booleans and numbers) handed to config.update_userdata(): a -D definition of the same
    # name still wins -- as the text it is, read by the typed getters like any text
    for text, want_b in (("false", False), ("no", False), ("off", False), ("0", False), ("true", True), ("yes", True)):
        sc.clear_files()
        config, err = make_config(["-D", "use_cache=%s" % text, "-D", "retries=5"])
        if config is None:
            mon.check("userdata.command_line_definition_wins_over_loaded_data", False, dict(error=err))
            continue
        config.update_userdata({"use_cache": not want_b, "retries": 3, "other": True})
        try:
            got = (config.userdata.getbool("use_cache"), config.userdata.getint("retries"), config.userdata.getbool("other"))
        except Exception as ex:
            got = repr(ex)
        mon.case(("userdata-loaded", text), True)
        mon.check("userdata.command_line_definition_wins_over_loaded_data", got == (want_b, 5, True),
                  lambda: dict(definition="-D use_cache=%s" % text, loaded={"use_cache": not want_b, "retries": 3}, got=got, want=[want_b, 5, True]))


def include_exclude(mon, sc, rng, n):
    """--include / --exclude (include_re / exclude_re in a file), alone and TOGETHER, from any mix of command line and file: a feature
    file is left out iff the include pattern in force does not match it or the exclude pattern in force does."""
    import re as _re
    names = ["features/alpha.feature", "features/alpha_slow.feature", "features/beta.feature", "features/sub/slow_beta.feature", "features/gamma.feature"]
    pats = ["alpha", "slow", "beta", "a", "sub/", "^features/[ab]", "zzz"]
    for i in range(n):
        sc.clear_files()
        inc_f, exc_f = rng.choice([None, None] + pats), rng.choice([None, None] + pats)
        inc_c, exc_c = rng.choice([None, None] + pats), rng.choice([None, None] + pats)
        lines = ["[behave]"] + (["include_re = %s" % inc_f] if inc_f else []) + (["exclude_re = %s" % exc_f] if exc_f else [])
        if len(lines) > 1:
            with open(os.path.join(sc.cwd, "behave.ini"), "w") as fh:
                fh.write("\n".join(lines) + "\n")
        args = (["-i", inc_c] if inc_c else []) + (["--exclude=%s" % exc_c] if exc_c else [])
        config, err = make_config(args)
        case = {"file": lines[1:], "args": args}
        mon.case(("include-exclude", tuple(lines[1:]), tuple(args)), True)
        if config is None:
            mon.check("files.include_and_exclude_patterns_together", False, dict(case=case, error=err))
            continue
        inc, exc = inc_c or inc_f, exc_c or exc_f
        mon.seen("file_patterns_in_force", ("include" if inc else "") + ("+" if inc and exc else "") + ("exclude" if exc else "") or "none")
        want = {nm: bool((inc and _re.search(inc, nm) is None) or (exc and _re.search(exc, nm) is not None)) for nm in names}
        got = {nm: bool(config.exclude(nm)) for nm in names}
        mon.check("files.include_and_exclude_patterns_together", got == want, lambda: dict(case=case, include=inc, exclude=exc, left_out=got, want=want))


def couplings(mon, sc, rng, n):
    for i in range(n):
        sc.clear_files()
        which = ["-q", "--quiet", "-w", "--wip", "--steps-catalog"][i % 5]
        config, err = make_config([which])
        mon.case(("coupling", which), True)
        if config is None:
            mon.check("couplings.documented", False, dict(option=which, error=err))
            continue
        if which in ("-q", "--quiet"):
            ok = config.show_source is False and config.show_snippets is False
        elif which in ("-w", "--wip"):
            ok = config.stop is True and config.stdout_capture is False and config.log_capture is False and config.default_format == "plain" \
                and "wip" in str(config.tags)
        else:
            ok = config.dry_run is True and config.summary is False and list(config.format or []) == ["steps.catalog"]
        mon.check("couplings.documented", ok, lambda: dict(option=which, show_source=config.show_source, show_snippets=config.show_snippets,
                                                        stop=config.stop, format=config.format, dry_run=config.dry_run, summary=config.summary,
                                                        tags=str(config.tags)))

def formatter_outputs(mon, sc, rng, n):
    """-f FORMAT -o FILE pairs: the i-th output belongs to the i-th formatter; '-' stands for standard output and keeps its
    place in that list (formatters behind the last -o write to standard output, too)."""
    for i in range(n):
        sc.clear_files()
        k = rng.randint(1, 4)
        formats = [rng.choice(["plain", "json", "progress", "progress2", "steps.doc", "rerun"]) for _ in range(k)]
        nout = rng.randint(0, k)
        outs = [rng.choice(["-", "-", "report%d.txt" % j, "out/r%d.json" % j]) for j in range(nout)]
        # (formatters named in a configuration file WITHOUT an outfile get a file of their own, "<format>.output": only
        #  complete format / outfile lists are written into files here)
        from_file = rng.random() < 0.3 and nout == k
        args = []
        if from_file:
            with open(os.path.join(sc.cwd, "behave.ini"), "w", encoding="utf-8") as fh:
                fh.write("[behave]\nformat = %s\noutfiles = %s\n" % ("\n    ".join(formats), "\n    ".join(outs)))
        else:
            for j, f in enumerate(formats):
                args += ["-f", f]
                if j < nout:
                    args += ["-o", outs[j]]
        config, err = make_config(args)
        case = {"kind": "formatter outputs", "formats": formats, "outfiles": outs, "given_in": "behave.ini" if from_file else "command line"}
        mon.case(("outputs", tuple(formats), tuple(outs), from_file), True)
        if any(o == "-" for o in outs[:-1]) and any(o != "-" for o in outs):
            mon.seen("outfile_list_shape", "stdout_placeholder_before_a_file")
        if config is None:
            mon.check("outputs.paired_with_formatters_in_order", False, dict(case=case, error=err))
            continue
        got = [("-" if o.name is None else os.path.relpath(o.name, sc.cwd)) for o in config.outputs]
        # (without any -o there is one output: standard output)
        mon.check("outputs.paired_with_formatters_in_order", list(config.format or []) == formats and got == (outs or ["-"]),
                  lambda: dict(case=case, got_formats=config.format, got_outputs=got))


def bare_color(mon, sc, rng, n):
    """'--color' without a value (documented) at any position of the command line: the options around it are in force as
    written (over what the configuration file says), nothing of them becomes a path."""
    for i in range(n):
        sc.clear_files()
        with open(os.path.join(sc.cwd, "behave.ini"), "w", encoding="utf-8") as fh:
            fh.write("[behave]\nstdout_capture = true\nshow_timings = true\nstop = false\ncolor = never\n")
        others = [["--no-capture"], ["--no-timings"], ["--stop"], ["-D", "x=1"], ["--define", "y=2"]]
        rng.shuffle(others)
        others = others[:rng.randint(0, 4)]
        pos = rng.randint(0, len(others))
        args = [a for grp in others[:pos] for a in grp] + ["--color"] + [a for grp in others[pos:] for a in grp]
        config, err = make_config(args)
        case = {"kind": "bare --color", "args": args}
        mon.case(("bare-color", tuple(args)), True)
        mon.seen("bare_color_position", "last" if pos == len(others) else ("first" if pos == 0 else "middle"))
        if config is None:
            mon.check("precedence.options_around_a_bare_color", False, dict(case=case, error=err))
            continue
        flat = [a for grp in others for a in grp]
        want = {"stdout_capture": "--no-capture" not in flat, "show_timings": "--no-timings" not in flat, "stop": "--stop" in flat,
                "userdata": dict(([("x", "1")] if "x=1" in flat else []) + ([("y", "2")] if "y=2" in flat else [])), "paths": []}
        got = {"stdout_capture": config.stdout_capture, "show_timings": config.show_timings, "stop": config.stop,
               "userdata": dict(config.userdata), "paths": list(config.paths)}
        mon.check("precedence.options_around_a_bare_color", got == want and config.color != "never",
                  lambda: dict(case=case, got=got, want=want, color=config.color))


def embedded_main(mon, sc, rng, n):
    """behave started from another program: main(args) / Configuration(args) with an EXPLICIT command line -- also an empty one,
    as list, tuple or string -- while the host program has arguments of its own in sys.argv.  Only None means 'take sys.argv'.
    The configuration that main() hands to run_behave is recorded at that boundary."""
    import behave.__main__ as bmain
    from behave.configuration import Configuration
    for i in range(n):
        sc.clear_files()
        file_who = rng.choice([None, "file"])
        if file_who:
            with open(os.path.join(sc.cwd, "behave.ini"), "w", encoding="utf-8") as fh:
                fh.write("[behave]\nstop = false\n[behave.userdata]\nwho = file\n")
        host = rng.choice([["--stop", "-D", "who=host"], ["--no-capture", "-n", "Second", "-D", "who=host"], ["--dry-run", "--stop"],
                           ["--env=staging"], ["serve", "--port", "8080"]])
        explicit = [[], "", (), ["-D", "x=1"], "-D x=1", ("--no-timings",), None][i % 7]
        given = ["--stop", "-D", "who=host", "--no-capture"] if explicit is None else host
        entry = ("main", "Configuration")[(i // 7) % 2]
        case = {"entry": entry, "explicit_args": repr(explicit), "host_program_argv": ["run_tests.py"] + given, "behave.ini": bool(file_who)}
        mon.case(("embedded", entry, repr(explicit), tuple(given), file_who), True)
        seen = []
        saved = (sys.argv, bmain.run_behave, sys.stdout, sys.stderr)
        from behave.model import ScenarioOutline
        from behave.tag_expression import TagExpressionProtocol as TEP
        saved_schema = ScenarioOutline.annotation_schema
        sys.argv = ["run_tests.py"] + given
        sys.stdout = sys.stderr = io.StringIO()
        err = None
        try:
            if entry == "main":
                bmain.run_behave = lambda config, runner_class=None: (seen.append(config), 0)[1]
                bmain.main(explicit)
            else:
                seen.append(Configuration(explicit))
        except BaseException as ex:      # noqa  (SystemExit of the argument parser included)
            err = repr(ex) + " " + sys.stderr.getvalue()[-200:]
        finally:
            sys.argv, bmain.run_behave, sys.stdout, sys.stderr = saved
            ScenarioOutline.annotation_schema = saved_schema
            TEP.use(TEP.DEFAULT)
        if not seen:
            mon.check("embedded.explicit_command_line_is_the_command_line", False, dict(case=case, error=err or "no configuration reached run_behave"))
            continue
        config = seen[0]
        if explicit is None:
            want = {"stop": True, "stdout_capture": False, "dry_run": False, "name": [], "show_timings": True, "who": "host", "x": None}
            mon.seen("embedded_args", "none_means_sys_argv")
        else:
            flat = explicit.split() if isinstance(explicit, str) else list(explicit)
            want = {"stop": False, "stdout_capture": True, "dry_run": False, "name": [], "show_timings": "--no-timings" not in flat,
                    "who": file_who, "x": "1" if "x=1" in flat else None}
            mon.seen("embedded_args", "empty_" + type(explicit).__name__ if not flat else "given")
        got = {"stop": bool(config.stop), "stdout_capture": bool(config.stdout_capture), "dry_run": bool(config.dry_run), "name": list(config.name or []),
               "show_timings": bool(config.show_timings), "who": config.userdata.get("who"), "x": config.userdata.get("x")}
        mon.check("embedded.explicit_command_line_is_the_command_line", got == want, lambda: dict(case=case, got=got, want=want))


def console_formatter(mon, sc, rng, n):
    """The formatter that ends up on the console when the configuration file names formatters (with output files) and the
    command line does not: the default formatter -- and --wip / --steps-catalog on the command line decide what that is."""
    from behave.__main__ import run_behave
    for i in range(n):
        sc.clear_files()
        file_formats = rng.choice([["json"], ["progress", "json"], ["plain"]])
        values = {"format": file_formats, "outfiles": ["out/r%d.txt" % j for j in range(len(file_formats))]}
        file_default = rng.choice([None, "progress2", "progress3"])
        if file_default:
            values["default_format"] = file_default
        fname = rng.choice(["behave.ini", "pyproject.toml", ".behaverc"])
        text = toml_text(values) if fname.endswith(".toml") else ini_text(values)
        with open(os.path.join(sc.cwd, fname), "w", encoding="utf-8") as fh:
            fh.write(text)
        mode = rng.choice([[], ["--wip"], ["-w"], ["--steps-catalog"], ["-f", "progress"]])
        config, err = make_config(list(mode))
        case = {"file": fname, "file_values": values, "args": mode}
        mon.case(("console", fname, tuple(file_formats), file_default, tuple(mode)), True)
        if config is None:
            mon.check("console.formatter_follows_command_line", False, dict(case=case, error=err))
            continue
        out, errs = sys.stdout, sys.stderr
        sys.stdout = sys.stderr = io.StringIO()
        try:
            try:
                run_behave(config)          # there is nothing to run in the scratch directory: it ends right after the setup part
            except BaseException as ex:      # noqa
                pass
        finally:
            sys.stdout, sys.stderr = out, errs
        got = list(config.format or [])
        if mode in (["--wip"], ["-w"]):
            want = file_formats + ["plain"]
        elif mode == ["--steps-catalog"]:
            want = None      # (the catalog mode appends its own formatter; covered by couplings.documented)
        elif mode == ["-f", "progress"]:
            want = file_formats + ["progress"]
        else:
            want = file_formats + [file_default or "pretty"]
        if want is not None:
            mon.check("console.formatter_follows_command_line", got == want, lambda: dict(case=case, got=got, want=want))


def run(spec, mon):
    tier = spec.get("tier", "quick")
    rng = random.Random(spec["seed"])
    sc = Scratch()
    sc.enter()
    try:
        bool_pairs(mon, sc, spec["shard"], spec["of"])
        for i in range(90 if tier == "quick" else 5500):
            random_case(mon, sc, rng, sample=(i == 3 and spec["shard"] == 0))
        userdata_cases(mon, sc, rng, 250 if tier == "quick" else 8000)
        userdata_histories(mon, sc, rng)
        include_exclude(mon, sc, rng, 40 if tier == "quick" else 1500)
        bare_color(mon, sc, rng, 20 if tier == "quick" else 600)
        formatter_outputs(mon, sc, rng, 25 if tier == "quick" else 800)
        couplings(mon, sc, rng, 10 if tier == "quick" else 300)
        console_formatter(mon, sc, rng, 12 if tier == "quick" else 300)
        embedded_main(mon, sc, rng, 28 if tier == "quick" else 700)
    finally:
        sc.leave()


def replay(case, mon):
    print("configuration cases depend on files written at run time; the witness lists files and arguments; re-run the check")


LEVEL_TEXT = ("Exploration with an exhaustive boolean core: every case runs in a scratch HOME and working directory inside a "
              "worker process; random subsets of ~30 options are written to one to three configuration files (all five "
              "supported file names, working directory and HOME) and to the command line; every attribute of a hand-written "
              "option table is compared (command line, else highest-priority file, else default), list order, paths and "
              "outfiles resolved against the directory of the file that named them, documented couplings; all file-value x "
              "flag pairs for every boolean; -D parsing in every documented style; -D over [behave.userdata]; typed getters.")
LEVEL_NOTE = "Trusted: the option table, the file-priority order and the ini/toml writers of this module."
TECHNIQUE = "runtime monitoring: differential oracle (hand-written option table) over Configuration objects built in scratch environments"
