"""C16 -- JUnit reports are well-formed XML with counters that match their test cases."""
from __future__ import annotations

import glob
import os
import re
import random
import shutil
import tempfile
import xml.parsers.expat

from . import runbase as RB
from ..gen import hostile
from ..gen.prog import OUTCOMES

ID = "C16"
LEVEL = "exploration"
RULE = ("runs of C01-C03 style programs with --junit (hook errors and raising cleanups included) whose feature / rule / "
        "scenario / step names, assertion and exception messages and captured stdout / stderr / logging are drawn from "
        "a hostile alphabet (XML metacharacters, CDATA terminators, C0/C1 controls that survive splitlines, astral "
        "characters, non-characters, ANSI escapes, non-ASCII); show_skipped on/off and the behave.reporter.junit.* "
        "switches at random; every TESTS-*.xml is parsed with expat (independent of the ElementTree serialiser). "
        "A case = one run; non-trivial = at least one hostile string reached a report and >=2 test cases; distinct by "
        "hash of (program, args, messages).")
ASSUMPTIONS = [
    "names in feature files stay single-line (characters that str.splitlines() treats as line boundaries are excluded)",
    "a scenario that errored through a raising cleanup has no responsible step or hook to name: only the error entry is demanded",
    "timestamps, host names, durations are not compared",
]
REQUIRED = {"testcases.scenario_whose_sub_step_did_not_pass_is_not_reported_passed": {"quick": 20, "thorough": 1000}, "xml.well_formed": {"quick": 600, "thorough": 30000}, "testcases.match_scenarios": {"quick": 600, "thorough": 30000},
            "counters.match_entries": {"quick": 600, "thorough": 30000}, "problem.entry_names_step_or_hook": {"quick": 300, "thorough": 15000},
            "reporter.never_raises": {"quick": 600, "thorough": 30000},
            "testcases.scenario_whose_cleanup_raised_is_not_reported_passed": {"quick": 30, "thorough": 1500}}
REQUIRED_SEEN = {"hook_fault_kind": ["keyboard_interrupt"], "background_shape": ["feature_and_rule_backgrounds"], "nested_sub_step": ["undefined", "fail", "error"], "feature_file_name_class": ["dotted"], "row_name_schema": ["{name}"], "captured_output_size": ["beyond_64KiB"], "testcase_status": ["passed", "failed", "error", "hook_error", "skipped", "untested"],
                 "hostile_class_in_report": ["xml_meta", "cdata_end", "c0", "c1", "ansi", "astral", "non_ascii", "format_meta"]}
NSHARDS = {"quick": 16, "thorough": 16}


def plan(tier, seed):
    n = NSHARDS[tier]
    return [{"shard": i, "of": n, "seed": seed * 1000 + i} for i in range(n)]


def classify(name, w):
    return name


def hostile_program(case, rng, p=0.6):
    """Append hostile text to element names and step texts (consistently in the outcome table)."""
    program = case["program"]
    suffix = {}

    def visit(node):
        if rng.random() < p and node.get("name") is not None:
            node["name"] = node["name"] + " " + hostile.name(rng)
        for st in node.get("steps", []) or []:
            if rng.random() < p * 0.6:
                tok = st["text"].split(" ")[0]
                sfx = " " + hostile.name(rng)
                suffix[tok] = sfx
                st["text"] = st["text"] + sfx
        bg = node.get("background")
        if bg:
            for st in bg["steps"]:
                if rng.random() < p * 0.3:
                    tok = st["text"].split(" ")[0]
                    sfx = " " + hostile.name(rng)
                    suffix[tok] = sfx
                    st["text"] = st["text"] + sfx
        for it in node.get("items", []) or []:
            visit(it)
    for f in program["features"]:
        f.pop("_text", None)
        visit(f)
    for table in ("outcomes", "flavour"):
        if table in program:
            program[table] = {(k + suffix.get(k.split(" ")[0], "")): v for k, v in program[table].items()}
    return case


class Expat(object):
    """Independent XML reader: well-formedness + a tiny tree."""
    def __init__(self):
        self.root = None
        self.stack = []

    def parse(self, data):
        p = xml.parsers.expat.ParserCreate()
        p.StartElementHandler = self.start
        p.EndElementHandler = self.end
        p.CharacterDataHandler = self.chars
        p.Parse(data, True)
        return self.root

    def start(self, name, attrs):
        node = {"tag": name, "attrs": attrs, "children": [], "text": ""}
        if self.stack:
            self.stack[-1]["children"].append(node)
        else:
            self.root = node
        self.stack.append(node)

    def end(self, name):
        self.stack.pop()

    def chars(self, data):
        if self.stack:
            self.stack[-1]["text"] += data


def xml_canon(text):
    """Characters that are not XML 1.0 Chars (or are 'discouraged' by the XML spec) appear in a report as
    'U+<decimal code point>' (behave's documented replacement): canonicalise a model string the same way."""
    out = []
    for c in text:
        o = ord(c)
        valid = o in (0x9, 0xA, 0xD) or 0x20 <= o <= 0xD7FF or 0xE000 <= o <= 0xFFFD or 0x10000 <= o <= 0x10FFFF
        discouraged = 0x7F <= o <= 0x84 or 0x86 <= o <= 0x9F or 0xFDD0 <= o <= 0xFDDF or (o & 0xFFFE) == 0xFFFE
        out.append("U+%04d" % o if (not valid or discouraged) else c)
    return "".join(out)


def classes_in(text):
    out = set()
    if any(x in text for x in ("<", ">", "&", '"')):
        out.add("xml_meta")
    if "]]" in text:
        out.add("cdata_end")
    if any(ord(c) < 0x20 and c not in "\n\r\t" for c in text) or "U+00" in text:
        out.add("c0")
    if any(0x7f <= ord(c) < 0xa0 for c in text) or "U+0127" in text or "U+01" in text:
        out.add("c1")
    if "\x1b" in text or "[31m" in text or "[0m" in text:
        out.add("ansi")
    if any(ord(c) > 0xffff for c in text):
        out.add("astral")
    if any(0xa0 <= ord(c) <= 0xffff for c in text):
        out.add("non_ascii")
    if "%" in text or "{" in text:
        out.add("format_meta")
    return out


def run_case(lab, mon, case, rng, messages, noisy, sample=False):
    from behave.reporter.junit import JUnitReporter
    outdir = tempfile.mkdtemp(prefix="bvm-junit-")
    args = case["args"] + ["--junit", "--junit-directory", outdir]
    raised = []

    class Guard(object):
        """reporter.feature()/end() are not guarded by the runner: record what they raise, keep the run going."""
        def __init__(self, inner):
            self.inner = inner

        def feature(self, feature):
            try:
                self.inner.feature(feature)
            except Exception as ex:
                raised.append("feature(%s): %r" % (feature.name, ex))

        def end(self):
            try:
                self.inner.end()
            except Exception as ex:
                raised.append("end(): %r" % (ex,))

    def reporters(config):
        config.base_dir = os.getcwd()
        return [Guard(JUnitReporter(config))]

    def printer(state, context, text):
        if text in noisy:
            out, err, log = noisy[text]
            import logging
            import sys
            sys.stdout.write(out + "\n")
            sys.stderr.write(err + "\n")
            logging.getLogger("bvm.hostile").warning("%s", log)
    kw = {}
    nested = case.get("nested") or {}
    nest_state = {"busy": False}
    nested_victim = []      # (feature name, scenario name) whose step ran a non-passing sub-step through context.execute_steps()

    def nest_plugin(state, context, text):
        if text in nested and not nest_state["busy"]:
            nest_state["busy"] = True
            nested_victim.append((context.feature.name, context.scenario.name))
            try:
                context.execute_steps(u"Given %s\n" % nested[text])
            finally:
                nest_state["busy"] = False
    cleanup_victim = []     # (feature name, scenario name) of the scenario whose own cleanup the harness makes raise
    if case.get("hook_fault"):
        kw["hook_fault"] = case["hook_fault"]
    if case.get("cleanup_plan"):
        target = case["cleanup_plan"]["register_in"]

        def plug(state, context, name, elem, tag):
            if name == target and not state.faults_fired:
                state.faults_fired.append(("cleanup", name))
                if name in ("before_scenario", "after_scenario"):
                    cleanup_victim.append((context.feature.name, elem.name))

                def bad_cleanup():
                    raise RuntimeError("cleanup " + hostile.text(random.Random(1), 2))
                context.add_cleanup(bad_cleanup)
        kw["hook_plugins"] = [plug]
    executed = {}       # (feature name, scenario name) -> status seen in after_scenario, i.e. on the object that really ran

    def note_executed(state, context, name, elem, tag):
        if name == "after_scenario":
            executed[(context.feature.name, elem.name)] = elem.status.name
    kw.setdefault("hook_plugins", []).append(note_executed)
    if case.get("flip_show_skipped") is not None:
        # an environment.py that switches config.show_skipped in before_all: the reporter follows the live setting
        def flip(state, context, name, elem, tag, value=case["flip_show_skipped"]):
            if name == "before_all":
                context.config.show_skipped = value
        kw["hook_plugins"].append(flip)
    try:
        if case.get("row_name_schema"):
            kw["config_kwargs"] = {"scenario_outline_annotation_schema": case["row_name_schema"]}
        obs = lab.run(case["program"], args=args, reporters=reporters, step_plugins=[printer] + ([nest_plugin] if nested else []), messages=messages, **kw)
        W = lambda **k: RB.witness(case, messages={a: b for a, b in list(messages.items())[:3]}, **k)
        if obs.escaped is not None:
            mon.check("run.no_exception_escapes", False, lambda: W(escaped=repr(obs.escaped)))
            return
        mon.check("reporter.never_raises", not raised, lambda: W(raised=raised[:3], statuses=obs.elem_status))
        RB.check_identity(mon, obs, case, prefix="testcases")
        show_skipped = obs.config.show_skipped
        ud = case["args"]
        for j, a in enumerate(ud):
            if a == "-D" and j + 1 < len(ud) and ud[j + 1].startswith("behave.reporter.junit.show_skipped_always="):
                if ud[j + 1].endswith("=true"):
                    show_skipped = True     # documented switch: show skipped scenarios whatever --no-skipped says
        files = sorted(glob.glob(os.path.join(outdir, "TESTS-*.xml")))
        by_feature = {}
        hostile_seen = set()
        ncases = 0
        for path in files:
            with open(path, "rb") as fh:
                data = fh.read()
            try:
                root = Expat().parse(data)
            except xml.parsers.expat.ExpatError as ex:
                line = getattr(ex, "lineno", 0)
                bad = data.decode("utf-8", "replace").splitlines()[max(0, line - 1):line]
                mon.check("xml.well_formed", False, lambda: W(file=os.path.basename(path), error=str(ex), line=[repr(b)[:300] for b in bad]))
                continue
            mon.check("xml.well_formed", root is not None and root["tag"] == "testsuite", lambda: W(file=os.path.basename(path)))
            by_feature[os.path.basename(path)] = root
        # which model feature belongs to which file: f<i>.feature -> TESTS-f<i>.xml
        for f in obs.features:
            # documented naming: the feature's path below the base directory without its extension, '/' -> '.'
            fname = "TESTS-%s.xml" % os.path.splitext(f.filename)[0].replace("\\", "/").replace("/", ".")
            root = by_feature.get(fname)
            fstatus = f.status.name
            expected_file = not (fstatus == "skipped" and not show_skipped)
            if fname in [os.path.basename(p) for p in files] and root is None:
                continue        # ill-formed: already reported
            if any(r.startswith("feature(%s)" % f.name) for r in raised):
                continue        # reporter raised for this feature: already reported
            mon.check("report.exists_iff_reported", (root is not None) == expected_file,
                      lambda: W(feature=f.name, status=fstatus, file_present=root is not None, show_skipped=show_skipped))
            if root is None:
                continue
            cases = [c for c in root["children"] if c["tag"] == "testcase"]
            ncases += len(cases)
            want = []
            for s in f.walk_scenarios():
                st = s.status.name
                if st != "skipped" or show_skipped:
                    want.append((s.name or "", st))
            got = [(c["attrs"].get("name"), c["attrs"].get("status")) for c in cases]
            # attribute values are normalised by XML (tab/newline -> blank): compare modulo that
            norm = lambda t: xml_canon((t[0] or "").replace("\t", " ").replace("\n", " ").replace("\r", " "))
            mon.check("testcases.match_scenarios", [(norm(g), g[1]) for g in got] == [(norm(w), w[1]) for w in want],
                      lambda: W(feature=f.name, got=got[:6], want=want[:6]))
            # what was observed WHILE the scenarios ran (the model walked after the run could have been rebuilt in between)
            by_name = {}
            for g in got:
                by_name.setdefault(norm(g), []).append(g[1])
            for (fn, sn), st_run in executed.items():
                if fn != f.name or st_run not in ("passed", "failed", "error", "hook_error"):
                    continue
                reported = by_name.get(norm((sn, None)), [])
                if len(reported) == 1:
                    mon.check("testcases.executed_scenario_reported_as_executed", reported[0] not in ("untested", "skipped"),
                              lambda: W(feature=f.name, scenario=sn, status_when_it_ran=st_run, reported=reported[0]))
                    if st_run == "passed" and not case.get("hook_fault") and (fn, sn) not in cleanup_victim and not case.get("cleanup_plan"):
                        # nothing can go wrong for a scenario after its after_scenario hook saw it passed (no hook fault, no raising
                        # cleanup in this run): what a LATER scenario does must not change its test case
                        mon.check("testcases.scenario_that_passed_is_reported_passed", reported[0] == "passed",
                                  lambda: W(feature=f.name, scenario=sn, status_when_it_ran=st_run, reported=reported[0]))
                        # ... nor the step results shown in it (the "@scenario.begin ... @scenario.end" block of system-out)
                        hit_ = [c for c in cases if norm((c["attrs"].get("name"), None)) == norm((sn, None))]
                        if len(hit_) == 1:
                            so_ = "".join(x.get("text") or "" for x in hit_[0]["children"] if x["tag"] == "system-out")
                            if "@scenario.begin" in so_ and "@scenario.end" in so_:
                                block_ = so_.split("@scenario.begin", 1)[1].split("@scenario.end", 1)[0]
                                shown_ = re.findall(r"\.\.\. (passed|failed|error|skipped|untested|undefined|pending|hook_error)\b", block_)
                                mon.check("testcases.steps_of_a_scenario_that_passed_are_shown_passed", all(x == "passed" for x in shown_),
                                          lambda: W(feature=f.name, scenario=sn, step_results_shown=shown_, block=block_[-400:]))
            for (fn, sn) in nested_victim:
                if fn != f.name:
                    continue
                hit = [c for c in cases if norm((c["attrs"].get("name"), None)) == norm((sn, None))]
                if len(hit) == 1 and (fn, sn) in executed:
                    # a step of this scenario ran a sub-step that did not pass: the step and with it the scenario did not pass
                    c = hit[0]
                    st_c = c["attrs"].get("status")
                    has_problem = any(x["tag"] in ("error", "failure") for x in c["children"])
                    mon.check("testcases.scenario_whose_sub_step_did_not_pass_is_not_reported_passed",
                              st_c not in ("passed", "skipped", "untested") and has_problem,
                              lambda: W(feature=f.name, scenario=sn, sub_step=nested, reported_status=st_c, entries=[x["tag"] for x in c["children"]]))
            # the harness's own call log: a scenario in which a step function WAS called and failed its assertion / raised (sync,
            # async, async with a timeout) has a test case that says so
            outcomes_ = case["program"]["outcomes"]
            bad_calls = {}
            for sn_, text_ in obs.calls:
                if outcomes_.get(text_) in ("fail", "error"):
                    bad_calls.setdefault(sn_, text_)
            for s_ in f.walk_scenarios():
                # (the call log knows scenarios by title: only titles that occur once in the whole run are judged -- a row-name schema
                #  may give rows of different features the same title)
                if s_.name in bad_calls and sum(1 for ff in obs.features for x in ff.walk_scenarios() if x.name == s_.name) == 1:
                    hit = [c for c in cases if norm((c["attrs"].get("name"), None)) == norm((s_.name, None))]
                    if len(hit) == 1:
                        c = hit[0]
                        st_c = c["attrs"].get("status")
                        has_problem = any(x["tag"] in ("error", "failure") for x in c["children"])
                        mon.seen("failing_step_function_flavour", case["program"].get("flavour", {}).get(bad_calls[s_.name], "sync") +
                                 ("_with_timeout" if bad_calls[s_.name][:1] == "a" and int(bad_calls[s_.name].split(" ")[0][1:]) % 2 else ""))
                        mon.check("testcases.scenario_with_a_step_that_was_called_and_failed_is_not_reported_passed",
                                  st_c not in ("passed", "skipped", "untested") and has_problem,
                                  lambda: W(feature=f.name, scenario=s_.name, failing_step=bad_calls[s_.name], reported_status=st_c,
                                            entries=[x["tag"] for x in c["children"]]))
            for (fn, sn) in cleanup_victim:
                if fn != f.name:
                    continue
                hit = [c for c in cases if norm((c["attrs"].get("name"), None)) == norm((sn, None))]
                if len(hit) == 1 and (fn, sn) in executed:
                    # the harness made a cleanup of this scenario raise: the scenario ended in an error-class status and its
                    # test case says so (status and <error> entry), whatever its steps did
                    c = hit[0]
                    st_c = c["attrs"].get("status")
                    has_problem = any(x["tag"] in ("error", "failure") for x in c["children"])
                    mon.check("testcases.scenario_whose_cleanup_raised_is_not_reported_passed",
                              st_c not in ("passed", "skipped", "untested") and has_problem,
                              lambda: W(feature=f.name, scenario=sn, reported_status=st_c, entries=[x["tag"] for x in c["children"]]))
            for g in got:
                mon.seen("testcase_status", g[1])
            A = root["attrs"]
            n_fail = sum(1 for c in cases if any(x["tag"] == "failure" for x in c["children"]))
            n_err = sum(1 for c in cases if any(x["tag"] == "error" for x in c["children"]))
            n_skip = sum(1 for c in cases if any(x["tag"] == "skipped" for x in c["children"]))
            counters = {"tests": A.get("tests"), "failures": A.get("failures"), "errors": A.get("errors"), "skipped": A.get("skipped")}
            entries = {"tests": str(len(cases)), "failures": str(n_fail), "errors": str(n_err), "skipped": str(n_skip)}
            mon.check("counters.match_entries", counters == entries, lambda: W(feature=f.name, counters=counters, entries=entries))
            # failed / errored scenarios carry a failure / error entry naming the step or hook
            scen_by_name = {}
            for s in f.walk_scenarios():
                scen_by_name.setdefault(norm((s.name or "", None)), []).append(s)
            for c in cases:
                st = c["attrs"].get("status")
                nm = norm((c["attrs"].get("name"), None))
                ss = scen_by_name.get(nm, [])
                text_all = c["attrs"].get("name", "") + "".join(x["text"] + " ".join(x["attrs"].values()) for x in c["children"])
                hostile_seen |= classes_in(text_all)
                if st in ("failed",) or st in RB.ERROR_CLASS:
                    tag = "failure" if st == "failed" else "error"
                    probs = [x for x in c["children"] if x["tag"] == tag]
                    ok = len(probs) == 1
                    named = False
                    if ok and len(ss) == 1:
                        s = ss[0]
                        body = probs[0]["text"] + " " + probs[0]["attrs"].get("message", "")
                        bad_steps = [x for x in s.all_steps if x.status.name in (("failed",) if st == "failed" else RB.ERROR_CLASS)]
                        if bad_steps:
                            x = bad_steps[0]
                            # the step is identified by its keyword and unique token (the rest of a hostile name is
                            # legitimately rewritten: invalid characters -> U+XXXX, ANSI escapes stripped)
                            named = ("Failing step: %s %s " % (x.keyword, x.name.split(" ")[0])) in body
                        elif s.hook_failed:
                            named = "HOOK-ERROR in " in body
                        else:
                            named = True      # cleanup error: nothing to name
                    elif ok:
                        named = True
                    mon.check("problem.entry_names_step_or_hook", ok and named,
                              lambda: W(scenario=c["attrs"].get("name"), status=st, entries=[x["tag"] for x in c["children"]],
                                        message=(probs[0]["attrs"].get("message") if probs else None),
                                        text=(probs[0]["text"][:300] if probs else None)))
        for cl in hostile_seen:
            mon.seen("hostile_class_in_report", cl)
        mon.case((RB.strip_case(case), sorted(messages.items())[:5]), bool(hostile_seen) and ncases >= 2)
        if sample and files:
            with open(files[0], "rb") as fh:
                mon.sample({"features": RB.case_texts(case)[:1], "args": args[:-1], "report_head": fh.read(1500).decode("utf-8", "replace")})
    finally:
        shutil.rmtree(outdir, ignore_errors=True)


def run(spec, mon):
    from ..lab.inproc import RunLab
    lab = RunLab()
    tier = spec.get("tier", "quick")
    rng = random.Random(spec["seed"])
    n = 50 if tier == "quick" else 2200
    for i in range(n):
        gen = {"p_nonpass": 0.4, "max_features": 2, "p_table": 0.2, "p_doc": 0.2}
        if i % 4 == 3:
            # outlines with several Examples sections, some of them header-only (no data rows)
            gen.update({"p_outline": 0.6, "max_examples": 3, "p_empty_examples": 0.4})
        if i % 4 == 0:
            # a feature Background AND rule Backgrounds (the rule's scenarios inherit the outer steps), densely tagged so that a tag
            # selection takes some scenarios of a rule and leaves others: every scenario has step results of its own
            gen.update({"p_background": 0.9, "p_rule_background": 0.9, "max_rules": 2, "max_items": 3, "p_tag": 0.6})
            mon.seen("background_shape", "feature_and_rule_backgrounds")
        case = RB.gen_case(rng, gen=gen, p_stop=0.15, p_dry=0.05, p_noskipped=0.5, p_names=0.1)
        case = hostile_program(case, rng, p=0.5 if i % 3 else 0.0)
        ud = []
        for sw in ("show_hostname", "show_multiline", "show_scenarios", "show_tags", "show_timings", "show_timestamp", "show_skipped_always"):
            if rng.random() < 0.3:
                ud += ["-D", "behave.reporter.junit.%s=%s" % (sw, rng.choice(["true", "false"]))]
        case["args"] = case["args"] + ud
        messages, noisy = {}, {}
        for text, oc in case["program"]["outcomes"].items():
            if oc in ("fail", "error") and rng.random() < 0.8:
                messages[text] = "msg " + hostile.text(rng)
            if rng.random() < 0.4:
                noisy[text] = (hostile.text(rng, sep=" "), hostile.text(rng, sep=" "), hostile.text(rng, sep=" "))
        if i % 5 == 1 and len(case["program"]["features"]) >= 2:
            # feature files with dots in their names / below dotted directories: every feature still gets its own document
            names = rng.choice([["checkout.cart.feature", "checkout.payment.feature"], ["api.v2/f0.feature", "api.v2/f1.feature"],
                                ["a.b.c.feature", "a.feature"], ["v1.2/x.y.feature", "v1.2/x.z.feature"]])
            for f, nm in zip(case["program"]["features"], names):
                f["file"] = nm
                f.pop("_text", None)
            mon.seen("feature_file_name_class", "dotted")
        if i % 10 == 7 and case["program"]["outcomes"]:
            # a very chatty step: captured output far beyond 64 KiB with CDATA terminators spread over it (whatever block size a
            # writer works with, some ']]>' straddles a block boundary)
            victim = rng.choice(sorted(case["program"]["outcomes"]))
            filler = "x" * rng.randint(60000, 60002)
            big = filler + "]]>" * 4000 + "y" * rng.randint(50000, 50002) + "]]>" * 3000
            noisy[victim] = (big, "e" * rng.randint(65530, 65540) + "]]>]]>", "log ]]> " + "z" * 70000 + "]]>")
            mon.seen("captured_output_size", "beyond_64KiB")
        mode = i % 4
        if mode == 1 and not case["cfg"]["dry_run"]:
            obs0 = lab.run(case["program"], args=case["args"])
            if obs0.hooks:
                case = dict(case, hook_fault={"k": rng.randrange(len(obs0.hooks)), "exc": rng.choice(["Exception", "AssertionError"]),
                                              "message": hostile.text(rng, sep=" ") if rng.random() < 0.7 else ""})
                inner = [k for k, h in enumerate(obs0.hooks) if not h[0].endswith("_all")]
                if inner and rng.random() < 0.3:
                    # the user interrupts the run (Ctrl-C) while a hook is running: the run is aborted, what ran so far -- the
                    # interrupted feature included -- is reported
                    case = dict(case, hook_fault={"k": rng.choice(inner), "exc": "KeyboardInterrupt"})
                    mon.seen("hook_fault_kind", "keyboard_interrupt")
        elif mode == 2 and not case["cfg"]["dry_run"]:
            case = dict(case, cleanup_plan={"register_in": rng.choice(["before_scenario", "before_feature", "after_scenario", "before_rule"])})
        if i % 6 == 4:
            # the configured name schema for outline rows; under '{name}' the rows of an outline share one name -- each row is a
            # scenario and has a test case of its own all the same
            case = dict(case, row_name_schema=rng.choice(["{name}", "{name}", "{name} <{examples.name}>", "{examples.name}"]))
            mon.seen("row_name_schema", case["row_name_schema"])
        if i % 6 == 2:
            case = dict(case, flip_show_skipped=rng.choice([True, False]))
            mon.seen("show_skipped_changed_at_runtime", str(case["flip_show_skipped"]))
        if mode == 0 and not case["cfg"]["dry_run"] and not case.get("row_name_schema"):
            # a passing step that runs a sub-step through context.execute_steps(); the sub-step fails, raises or is undefined
            cands = [t for t, oc in case["program"]["outcomes"].items() if oc == "pass" and t[0] == "k"]
            if cands:
                sub_kind = rng.choice(["undefined", "fail", "error", "error"])
                sub = ("u9%d sub step" if sub_kind == "undefined" else "k9%d sub step") % rng.randrange(1000, 9999)
                if sub_kind != "undefined":
                    case["program"]["outcomes"][sub] = sub_kind
                case = dict(case, nested={rng.choice(cands): sub})
                mon.seen("nested_sub_step", sub_kind)
        run_case(lab, mon, case, rng, messages, noisy, sample=(i == 0 and spec["shard"] == 0))


def replay(case, mon):
    from ..lab.inproc import RunLab
    lab = RunLab()
    run_case(lab, mon, case, random.Random(0), case.get("messages", {}), {})


LEVEL_TEXT = ("Exploration: real runs with the JUnit reporter on, names/messages/captured output drawn from a hostile "
              "alphabet, hook errors and cleanup errors included; every report file is parsed with an independent XML "
              "parser (expat) for well-formedness; test cases are compared with the model's scenarios (order, rows, "
              "skipped ones iff shown, status attribute), the four counters with the counted entries, and every failed/"
              "errored test case must carry exactly one failure/error entry naming the failing step or hook; the "
              "reporter must never raise.")
LEVEL_NOTE = "Trusted: expat; the comparison modulo XML attribute-value normalisation and the documented character replacement."
TECHNIQUE = "runtime monitoring: hostile-input workload, independent XML parser as well-formedness oracle, report-vs-model conservation checks"
