"""C01 -- run verdict: no false green, no false red."""
from __future__ import annotations

import itertools
import os
import random
import re

from . import runbase as RB
from ..gen.prog import OUTCOMES
from ..ref import runmodel

ID = "C01"
LEVEL = "exploration"
RULE = ("random feature trees (1-2 features x 0-2 rules x backgrounds at both levels x scenarios/outlines with tagged "
        "examples) x outcome assignments over {pass, assert-fail, exception, pending, undefined, skip-scenario, "
        "KeyboardInterrupt, converter error; sync/async} x tag expressions in both dialects x --stop/--dry-run/@wip; "
        "each additionally with one raising hook (k-th hook call of the fault-free run) or one raising cleanup; "
        "thorough adds the exhaustive scope (1 feature, <=2 scenarios x <=2 steps, every outcome at every position, "
        "with/without background, --stop, --dry-run, @wip) and more subprocess runs (process exit code). "
        "A case = one execution; non-trivial = >=2 scenario instances and (a non-pass outcome, a fault, or a "
        "de-selected scenario); distinct by hash of (program, args, fault).")
ASSUMPTIONS = [
    "reference model bvm/ref/runmodel.py (selection, step order, outcome table, --stop/abort cut) written from the statements",
    "a dry-run executes nothing but looks every step of every selected scenario up: an undefined step found there counts as "
    "'a selected scenario runs into an undefined step' and makes the run fail; a dry-run without one succeeds",
    "hook/cleanup fault cases demand 'failed' only when the injected fault actually fired",
]
REQUIRED = {"wild.no_success_verdict_with_failed_elements": {"quick": 8, "thorough": 300}, "verdict.matches_model": {"quick": 1500, "thorough": 100000}, "verdict.structural": {"quick": 1000, "thorough": 80000},
            "fault.hook_makes_run_fail": {"quick": 300, "thorough": 20000}, "fault.cleanup_makes_run_fail": {"quick": 100, "thorough": 5000},
            "exit_code.matches_model": {"quick": 12, "thorough": 300},
            "verdict.failing_sub_step_of_execute_steps_makes_run_fail": {"quick": 200, "thorough": 10000}}
REQUIRED_SEEN = {"nested_block_shape": ["alone", "first_of_three", "middle_of_three", "last_of_three"], "features_named_by_list_file": ["wildcard_line", "explicit_names"], "only_cause": ["failed_scenario", "aborted", "aborted_without_failed_scenario", "hook_failure", "cleanup_failure",
                                "undefined_dry_run"],
                 "verdict": ["failed", "success"], "file_filter": ["include+exclude:file_matching_both"],
                 "nested_sub_step_outcome": ["fail", "error", "pending", "undefined", "pass"], "tag_name_class": ["contains_operator_word", "rendered_from_special_placeholder"],
                 "raising_hook_decoration": ["capture"], "location_selection": ["twins_addressed_by_line"], "raising_cleanup_registered_as": ["own_function", "same_function_other_arguments"]}
NSHARDS = {"quick": 16, "thorough": 16}
NONTRIVIAL = "see RULE"


def plan(tier, seed):
    n = NSHARDS[tier]
    return [{"shard": i, "of": n, "seed": seed * 1000 + i} for i in range(n)]


def nontrivial(case, pred, fault=False):
    n = len(pred.instances)
    desel = any(not v for v in pred.selected.values())
    return n >= 2 and (RB.nonpass_count(case) > 0 or fault or desel)


def autoretry_verdict(lab, mon, case):
    """The documented auto-retry recipe (behave.contrib.scenario_autoretry on everything feature.scenarios lists, outlines
    included) with deterministic outcomes: what failed fails again, so the run verdict is the one without the recipe."""
    from behave.contrib.scenario_autoretry import patch_scenario_with_autoretry

    def pre_run(st):
        for f in st.features:
            for container in [f] + list(f.rules):
                for s in container.scenarios:
                    patch_scenario_with_autoretry(s, max_attempts=2)
    obs = lab.run(case["program"], args=case["args"], pre_run=pre_run)
    pred = runmodel.predict(case["program"], case["cfg"])
    mon.case(("autoretry", RB.strip_case(case)), nontrivial(case, pred))
    if obs.escaped is not None:
        mon.check("verdict.no_exception_escapes", False, lambda: RB.witness(case, recipe="autoretry", escaped=repr(obs.escaped)))
        return
    if pred.aborted or obs.runner.aborted:
        return
    mon.check("verdict.same_with_autoretry_recipe", bool(obs.verdict) in pred.verdict,
              lambda: RB.witness(case, recipe="scenario_autoretry on feature.scenarios", got=bool(obs.verdict), want=sorted(pred.verdict)))


def nested_verdict(lab, mon, rng):
    """A passing step that runs further steps with context.execute_steps(): when such a sub-step fails an assertion, raises, is
    pending (outside @wip) or is undefined, a selected scenario ran into it -- the run must be red; with passing sub-steps the
    verdict is the one of the plain program."""
    case = RB.gen_case(rng, gen={"p_nonpass": 0.0, "p_wip": 0.0}, p_dry=0.0, p_stop=0.2)
    cands = [t for t, oc in case["program"]["outcomes"].items() if oc == "pass" and t[0] == "k"]
    if not cands:
        return
    outer = rng.choice(cands)
    sub_outcome = rng.choice(["fail", "error", "pending", "undefined", "pass", "error", "pending"])
    sub = ("u9%d sub step" if sub_outcome == "undefined" else "k9%d sub step") % rng.randrange(1000, 9999)
    if sub_outcome != "undefined":
        case["program"]["outcomes"][sub] = sub_outcome
    nest = {"busy": False}

    def plugin(state, context, text):
        if text == outer and not nest["busy"]:
            nest["busy"] = True
            try:
                context.execute_steps(block)
            finally:
                nest["busy"] = False
    # the sub-step alone, or in a block between / in front of passing sub-steps (the block stops at the first one that does not pass)
    shape = rng.choice(["alone", "first_of_three", "middle_of_three", "last_of_three"])
    others = ["k9%d sub step" % rng.randrange(10000, 99999) for _ in range(2)]
    for o_ in others:
        case["program"]["outcomes"][o_] = "pass"
    order = {"alone": [sub], "first_of_three": [sub] + others, "middle_of_three": [others[0], sub, others[1]], "last_of_three": others + [sub]}[shape]
    block = u"".join(u"%s %s\n" % (("Given" if j_ == 0 else "And"), t_) for j_, t_ in enumerate(order))
    mon.seen("nested_block_shape", shape)
    obs = lab.run(case["program"], args=case["args"], step_plugins=[plugin])
    c2 = dict(case, nested={"outer_step": outer, "sub_steps": order, "sub_step_outcome": sub_outcome})
    mon.case(("nested", RB.strip_case(case), outer, sub_outcome), True)
    if obs.escaped is not None:
        mon.check("verdict.no_exception_escapes", False, lambda: RB.witness(c2, escaped=repr(obs.escaped)))
        return
    reached = any(t == outer for _n, t in obs.calls)
    if not reached:
        mon.count("nested.outer_step_not_selected")
        return
    want = sub_outcome != "pass"
    mon.check("verdict.failing_sub_step_of_execute_steps_makes_run_fail", bool(obs.verdict) == want,
              lambda: RB.witness(c2, got=bool(obs.verdict), want=want, statuses=obs.elem_status))
    mon.seen("nested_sub_step_outcome", sub_outcome)


def run_fault_free(lab, mon, case, sample=False):
    obs = lab.run(case["program"], args=case["args"])
    pred = runmodel.predict(case["program"], case["cfg"])
    mon.case(("ff", RB.strip_case(case)), nontrivial(case, pred))
    RB.check_verdict(mon, case, obs, pred)
    # which disjunct was the only cause
    if obs.escaped is None and obs.verdict:
        causes = []
        if any(pred.scen_failed.values()):
            causes.append("failed_scenario")
        if obs.runner.aborted:
            causes.append("aborted")
        if case["cfg"]["dry_run"] and not any(pred.scen_failed.values()):
            causes.append("undefined_dry_run")
        if len(causes) == 1:
            mon.seen("only_cause", causes[0])
            if causes[0] == "aborted":
                mon.seen("only_cause", "aborted_without_failed_scenario")
        elif "aborted" in causes:
            mon.seen("only_cause", "aborted")
    if sample:
        mon.sample({"features": RB.case_texts(case), "args": case["args"], "outcomes": case["program"]["outcomes"],
                    "verdict_failed": bool(obs.verdict), "model_verdict": sorted(pred.verdict)})
    return obs, pred


def run_hook_fault(lab, mon, case, obs0, pred, rng, ks):
    for k in ks:
        exc = rng.choice(["Exception", "AssertionError"])
        fault = {"k": k, "exc": exc}
        obs = lab.run(case["program"], args=case["args"], hook_fault=fault)
        c2 = dict(case, hook_fault=fault)
        mon.case(("hook", RB.strip_case(c2)), nontrivial(case, pred, True))
        mon.check("fault.no_exception_escapes", obs.escaped is None, lambda: RB.witness(c2, escaped=repr(obs.escaped)))
        if obs.escaped is not None:
            continue
        if obs.faults_fired:
            mon.check("fault.hook_makes_run_fail", bool(obs.verdict) is True,
                      lambda: RB.witness(c2, fired=obs.faults_fired, statuses=obs.elem_status))
            mon.seen("hook_faulted", obs.faults_fired[0][1])
            if not any(pred.scen_failed.values()) and not obs.runner.aborted:
                mon.seen("only_cause", "hook_failure")
        else:
            mon.count("fault.not_reached")


def run_cleanup_fault(lab, mon, case, obs0, pred, rng, n):
    nh = len(obs0.hooks)
    if nh == 0:
        return
    for _ in range(n):
        k = rng.randrange(nh)
        ran = []

        style = rng.choice(["own_function", "own_function", "same_function_other_arguments"])

        def plug(state, context, name, elem, tag, k=k, ran=ran, style=style):
            if state.hook_count - 1 == k:
                if style == "same_function_other_arguments":
                    # one clean-up function registered twice with different arguments (release("a"), release("b")): two
                    # cleanups -- the second one is the one that raises
                    def release(which):
                        if which == "b":
                            ran.append(1)
                            raise RuntimeError("injected cleanup failure in release(%r)" % which)
                    context.add_cleanup(release, "a")
                    context.add_cleanup(release, "b")
                    return

                def bad_cleanup():
                    ran.append(1)
                    raise RuntimeError("injected cleanup failure")
                context.add_cleanup(bad_cleanup)
        obs = lab.run(case["program"], args=case["args"], hook_plugins=[plug])
        c2 = dict(case, cleanup_plan={"register_at_hook": k, "hook": list(obs0.hooks[k])})
        mon.case(("cleanup", RB.strip_case(c2)), nontrivial(case, pred, True))
        mon.check("fault.no_exception_escapes", obs.escaped is None, lambda: RB.witness(c2, escaped=repr(obs.escaped)))
        if obs.escaped is not None:
            continue
        mon.seen("raising_cleanup_registered_as", style)
        if style == "same_function_other_arguments":
            mon.check("fault.cleanup_makes_run_fail", bool(ran) and bool(obs.verdict) is True,
                      lambda: RB.witness(c2, registered="release('a'), release('b') -- release('b') raises", raising_call_ran=len(ran),
                                         verdict=obs.verdict, statuses=obs.elem_status))
        elif ran:
            mon.check("fault.cleanup_makes_run_fail", bool(obs.verdict) is True,
                      lambda: RB.witness(c2, statuses=obs.elem_status))
            mon.check("fault.cleanup_runs_once", len(ran) == 1, lambda: RB.witness(c2, ran=len(ran)))
            mon.seen("cleanup_registered_in", obs0.hooks[k][0])
            if not any(pred.scen_failed.values()) and not obs.runner.aborted:
                mon.seen("only_cause", "cleanup_failure")
        else:
            mon.count("fault.cleanup_not_run")


def exhaustive_cases(shard, of):
    """1 feature, 1..2 scenarios x 1..2 steps (+ optional 1-step background), every outcome at every position."""
    idx = 0
    outs = OUTCOMES
    for nsc in (1, 2):
        for nst in (1, 2):
            for bg in (None, "pass", "fail", "undefined"):
                for combo in itertools.product(outs, repeat=nsc * nst):
                    for variant in range(4):      # plain, --stop, --dry-run, @wip
                        idx += 1
                        if idx % of != shard:
                            continue
                        yield nsc, nst, bg, combo, variant


def build_exhaustive(nsc, nst, bg, combo, variant):
    n = [0]
    outcomes = {}

    def step(oc):
        n[0] += 1
        tok = {"undefined": "u", "conv": "b"}.get(oc, "k") + str(n[0])
        text = "%s does it" % tok
        outcomes[text] = oc
        return {"kw": "Given", "text": text}
    feat = {"kind": "feature", "tags": ["wip"] if variant == 3 else [], "name": "F0", "desc": [], "file": "f0.feature",
            "background": ({"kind": "background", "name": "", "desc": [], "steps": [step(bg)]} if bg else None), "items": []}
    it = iter(combo)
    for s in range(nsc):
        feat["items"].append({"kind": "scenario", "tags": [], "name": "F0S%d" % s, "desc": [],
                              "steps": [step(next(it)) for _ in range(nst)]})
    args = {1: ["--stop"], 2: ["--dry-run"]}.get(variant, [])
    cfg = {"tags": None, "stop": variant == 1, "dry_run": variant == 2, "names": None, "cafs": False}
    return {"program": {"features": [feat], "outcomes": outcomes}, "args": args, "cfg": cfg}


# (every pattern includes the '.feature' suffix: the paths behave matches them against may be absolute, and the random name of
#  the project's temporary directory must not match by accident)
FILE_PATTERNS = [r"f0\.feature", r"f1\.feature", r"f2\.feature", r"f[01]\.feature", r"f[12]\.feature", r"f[02]\.feature",
                 r"f\d\.feature$", r"\.feature"]


def pick_locations(rng, case):
    """file:LINE arguments for two or three plain scenarios of one feature file, two of which carry the SAME title (copy / paste
    twins at different lines are different scenarios).  Returns the program that is left when only those scenarios are kept."""
    import copy
    for f in case["program"]["features"]:
        plain = []          # (key, node)
        for i, it in enumerate(f["items"]):
            if it["kind"] == "scenario":
                plain.append((("item", i), it))
            elif it["kind"] == "rule":
                for j, it2 in enumerate(it["items"]):
                    if it2["kind"] == "scenario":
                        plain.append((("item", i, "item", j), it2))
        if len(plain) < 2:
            continue
        chosen = rng.sample(plain, min(len(plain), rng.choice([2, 2, 3])))
        chosen.sort(key=lambda kv: [x for x in kv[0] if isinstance(x, int)] + [-1])
        # the twins: same title (the outcome table is keyed by step text, so nothing else changes)
        chosen[0][1]["name"] = chosen[1][1]["name"] = "Twin title"
        f.pop("_text", None)
        keep = set(id(n) for _k, n in chosen)
        f2 = copy.deepcopy(f)

        def prune(c_new, c_old):
            items = []
            for n_new, n_old in zip(c_new["items"], c_old["items"]):
                if n_old["kind"] == "rule":
                    prune(n_new, n_old)
                    if n_new["items"]:
                        items.append(n_new)
                elif id(n_old) in keep:
                    items.append(n_new)
            c_new["items"] = items
        prune(f2, f)
        # run order = file order (document order of the chosen scenarios)
        order = sorted(chosen, key=lambda kv: [x for x in kv[0] if isinstance(x, int)])
        return {"file": f["file"], "keys": [k for k, _n in rng.sample(order, len(order))], "names": [n["name"] for _k, n in order],
                "program": dict(case["program"], features=[f2])}
    return None


def pick_file_filter(rng, case, force_both=False):
    """--include / --exclude (command line or configuration file): exclude is applied after include."""
    files = [f["file"] for f in case["program"]["features"]]
    for _ in range(20):
        inc = rng.choice(FILE_PATTERNS + [None])
        exc = rng.choice(FILE_PATTERNS[:6] + [None])
        if force_both and len(files) >= 2:
            # (every fourth shard: a file matched by BOTH patterns for certain -- the case the statement is about)
            inc, exc = rng.choice([r"\.feature", r"f\d\.feature$"]), r"f0\.feature"
        if inc is None and exc is None:
            continue
        keep = [fl for fl in files if (inc is None or re.search(inc, "features/" + fl)) and
                not (exc is not None and re.search(exc, "features/" + fl))]
        if not keep:
            continue
        args, ini = [], []
        for opt, short, key, pat in (("--include", "-i", "include_re", inc), ("--exclude", "-e", "exclude_re", exc)):
            if pat is None:
                continue
            how = rng.choice(["long", "short", "file"])
            if how == "file":
                ini.append("%s = %s" % (key, pat))
            elif how == "long":
                args.append("%s=%s" % (opt, pat))
            else:
                args.extend([short, pat])
        shape = "%s%s" % ("include" if inc else "", "+exclude" if (inc and exc) else ("exclude" if exc else ""))
        both = [fl for fl in files if inc and exc and re.search(inc, "features/" + fl) and re.search(exc, "features/" + fl)]
        if both:
            shape += ":file_matching_both"
        return ({"include": inc, "exclude": exc, "keep": keep, "shape": shape}, args,
                ("[behave]\n" + "\n".join(ini) + "\n") if ini else None)
    return None, [], None


def run(spec, mon):
    from ..lab.inproc import RunLab
    from ..lab.subproc import Project
    lab = RunLab()
    tier = spec.get("tier", "quick")
    rng = random.Random(spec["seed"])
    shard, of = spec["shard"], spec["of"]
    n_random = 120 if tier == "quick" else 6000
    for i in range(n_random):
        gen = {"outcomes": OUTCOMES + ["abort"], "weights": {"abort": 0.4}} if i % 4 == 0 else {}
        if i % 4 == 2:
            # backgrounds that use the examples column, whose heading need not be a word ("service status", "step-outcome")
            gen = dict(gen, p_bg_param=0.6, p_background=0.7, p_outline=0.5, value_columns=["x", "service status", "step-outcome"])
            mon.seen("background_placeholder_column", "possibly_not_a_word")
        if i % 9 == 5:
            # tag names that CONTAIN the operator words of the new dialect (android, order, notify, sandbox), old- and new-style syntax
            alt = ["android", "order", "notify", "sandbox", "b"]
            gen = dict(gen, tags=alt)
        if i % 9 == 2:
            # outlines tagged with the documented special placeholders (@r<row.index>, @q<row.id>, @n<examples.name> ...) and a
            # selection that names the RENDERED tags of single rows
            alt = ["r1", "r2", "q1.1", "q1.2", "q2.1", "nE1", "nE2", "a", "b"]
            gen = dict(gen, p_reserved_tag=0.7, p_outline=0.6)
        case = RB.gen_case(rng, gen=gen, p_user_skip=0.15, p_names=0.15)
        if i % 9 == 2:
            ast, args = RB.random_expr(rng, tags=alt)
            case["cfg"]["tags"] = ast
            case["args"] = args + [a for a in case["args"] if not a.startswith("--tags")]
            def _outlines(c):
                for it in c["items"]:
                    if it["kind"] == "rule":
                        for x in _outlines(it):
                            yield x
                    elif it["kind"] == "outline":
                        yield it
            if any(t[:1] in "rqn" and "<" in t for f in case["program"]["features"] for it in _outlines(f) for t in it["tags"]):
                mon.seen("tag_name_class", "rendered_from_special_placeholder")
        if i % 9 == 5:
            ast, args = RB.random_expr(rng, tags=alt)
            case["cfg"]["tags"] = ast
            case["args"] = args + [a for a in case["args"] if not a.startswith("--tags")]
            mon.seen("tag_name_class", "contains_operator_word")
        if i % 3 == 1:
            nested_verdict(lab, mon, rng)
        if case["program"].get("user_skip"):
            mon.seen("environment_skips_container", "yes")
        obs, pred = run_fault_free(lab, mon, case, sample=(i == 0 and shard < 3))
        if i % 6 == 4 and not case["cfg"]["dry_run"] and not case["program"].get("user_skip") and "ki" not in case["program"]["outcomes"].values() \
                and "abort" not in case["program"]["outcomes"].values() and "skip" not in case["program"]["outcomes"].values():
            autoretry_verdict(lab, mon, case)
        if obs.escaped is not None or case["cfg"]["dry_run"]:
            continue
        nh = len(obs.hooks)
        if not pred.ambiguous_hooks and not obs.runner.aborted:
            # "any single raising hook": a hook call that the run silently omits can never turn the run red -- the injection
            # points offered by the fault-free run have to be the hook calls the selected part of the tree demands
            want_h = sorted((h, repr(e), t) for (h, e, t) in pred.hooks if h.split("_", 1)[1] in ("feature", "rule", "all"))
            got_h = sorted((h, repr(e), t) for (h, e, t) in obs.hooks if h.split("_", 1)[1] in ("feature", "rule", "all"))
            # (extra calls -- e.g. for a container whose own tags match although it has no selected scenario -- are not C01's business)
            mon.check("fault.container_hook_points_as_demanded", all(x in got_h for x in want_h),
                      lambda: RB.witness(case, missing=[x for x in want_h if x not in got_h][:6],
                                         unexpected=[x for x in got_h if x not in want_h][:6]))
        if nh:
            ks = rng.sample(range(nh), min(nh, 2 if tier == "quick" else 4))
            if i % 3 == 2:
                # environment hooks decorated with behave's @capture: a raising decorated hook is a raising hook
                from ..lab.inproc import HOOK_NAMES
                lab.capture_hooks = set(rng.sample(HOOK_NAMES, rng.randint(4, len(HOOK_NAMES))))
                mon.seen("raising_hook_decoration", "capture")
            try:
                run_hook_fault(lab, mon, case, obs, pred, rng, ks)
            finally:
                lab.capture_hooks = None
            if i % 2 == 0:
                run_cleanup_fault(lab, mon, case, obs, pred, rng, 1)
    if tier == "thorough":
        for nsc, nst, bg, combo, variant in exhaustive_cases(shard, of):
            case = build_exhaustive(nsc, nst, bg, combo, variant)
            run_fault_free(lab, mon, case)
            mon.count("exhaustive_cases")
    # ---- subprocess sample: the process exit code --------------------------------------------
    n_sub = 3 if tier == "quick" else 30
    for i in range(n_sub):
        case = RB.gen_case(rng, gen={"max_features": 3, "min_features": 2} if i % 3 == 2 else {"max_features": 2})
        fault = None
        plan = {}
        if i % 3 == 1 and not case["cfg"]["dry_run"]:
            plan["hook_fault"] = {"k": rng.randrange(1, 6), "exc": "Exception"}
        file_filter, extra_args, ini = None, [], None
        if i % 3 == 2:
            file_filter, extra_args, ini = pick_file_filter(rng, case, force_both=(shard % 4 == 0 and i == 2))
        run_program = case["program"]
        loc_plan = None
        if i % 3 == 0:
            loc_plan = pick_locations(rng, case)
        if loc_plan is not None:
            run_program = loc_plan["program"]
            mon.seen("location_selection", "twins_addressed_by_line")
        if file_filter is not None:
            # "the selected part of the run": feature files taken out by --include / --exclude are not part of it
            run_program = dict(case["program"], features=[f for f in case["program"]["features"] if f["file"] in file_filter["keep"]])
            mon.seen("file_filter", file_filter["shape"])
        pred = runmodel.predict(run_program, case["cfg"])
        proj = Project(case["program"], plan)
        try:
            if ini:
                with open(os.path.join(proj.root, "behave.ini"), "w") as fh:
                    fh.write(ini)
            if loc_plan is not None:
                lm = proj.line_maps[loc_plan["file"]]
                extra_args = ["features/%s:%d" % (loc_plan["file"], lm[k]) for k in loc_plan["keys"]]
            listfile = None
            if loc_plan is None and file_filter is None and i % 2 == 1:
                # the features are named by a list file that lives next to them (behave @features/all.txt): explicit names or a
                # wildcard line, both relative to the list file's own directory
                listfile = ("wildcard_line", "explicit_names")[(shard + i // 2) % 2]
                with open(os.path.join(proj.root, "features", "all.txt"), "w") as fh:
                    fh.write("# all features\n" + ("*.feature\n" if listfile == "wildcard_line" else
                                                  "".join("%s\n" % f["file"] for f in case["program"]["features"])))
                extra_args = ["@features/all.txt"]
                mon.seen("features_named_by_list_file", listfile)
            res = proj.run(case["args"] + extra_args + ["-f", "plain"], environment=RB.pick_environment(rng, mon))
        finally:
            proj.close()
        c2 = dict(case, hook_fault=plan.get("hook_fault"), file_filter=file_filter, features_named_by_list_file=listfile)
        if loc_plan is not None:
            c2["locations"] = {"file": loc_plan["file"], "scenarios": loc_plan["names"], "arguments": extra_args}
        mon.case(("sub", RB.strip_case(c2)), nontrivial(case, pred, bool(plan)))
        if res.get("timeout"):
            mon.note("subprocess watchdog fired (inconclusive case)")
            continue
        fired = any(e[0] == "fault-fired" for e in res["events"])
        if plan and fired:
            want = {1}
        elif plan:
            want = {0, 1} if False else {int(v) for v in pred.verdict}
        else:
            want = {int(v) for v in pred.verdict}
        calls = [(e[1], e[2]) for e in res["events"] if e[0] == "step"]
        mon.check("exit_code.matches_model", res["rc"] in want,
                  lambda: RB.witness(c2, rc=res["rc"], want=sorted(want), stderr=res["stderr"][-600:], stdout=res["stdout"][-600:]))
        if not plan and not case["cfg"].get("cafs"):
            mon.check("exit_code.same_calls_as_model", calls == pred.calls, lambda: RB.witness(c2, got=calls, want=pred.calls))
        mon.seen("exit_code", str(res["rc"]))
    if spec["shard"] == 0:
        # behave's own acceptance features as workload: the probes of bvm.wild in every behave process they spawn
        from ..wild import run as wild
        wild.feed(mon, ID, spec.get("tier", "quick"))


def replay(case, mon):
    from ..lab.inproc import RunLab
    lab = RunLab()
    if "program" not in case:
        print("nothing to replay")
        return
    obs = lab.run(case["program"], args=case["args"], hook_fault=case.get("hook_fault"))
    pred = runmodel.predict(case["program"], case["cfg"])
    mon.case(("replay", case))
    if case.get("hook_fault"):
        mon.check("fault.no_exception_escapes", obs.escaped is None, dict(escaped=repr(obs.escaped)))
        if obs.faults_fired:
            mon.check("fault.hook_makes_run_fail", bool(obs.verdict) is True, dict(fired=obs.faults_fired, statuses=obs.elem_status))
    else:
        RB.check_verdict(mon, case, obs, pred)
    print("verdict:", obs.verdict, "model:", sorted(pred.verdict), "calls:", obs.calls)


LEVEL_TEXT = ("Exploration: the real ModelRunner executes generated feature trees under recording step functions and "
              "hooks; the reported verdict is compared with a sequential reference model and, independently, with a "
              "structural reading of the observed step statuses; every program is re-run with single hook faults and "
              "single raising cleanups (verdict must be failed whenever the fault fired, nothing may escape); a sample "
              "runs as `python -m behave` and compares the process exit code. Thorough adds an exhaustive small scope.")
LEVEL_NOTE = ("Trusted: reference model; generated shapes only (small trees, 8 outcomes, 1 fault per run); "
              "dry-run: failed iff a selected scenario has an undefined step.")
TECHNIQUE = "runtime monitoring: reference-model oracle + fault injection over real runner executions (in-process and subprocess); plus oracle-free invariant probes armed (sitecustomize) in every behave process that the repository's own acceptance features spawn"
