"""C03 -- status roll-up of scenario, outline, rule, feature follows the documented table."""
from __future__ import annotations

import itertools
import random

from . import runbase as RB
from ..gen.prog import OUTCOMES, iter_scenario_instances
from ..ref import runmodel, statusdoc

ID = "C03"
LEVEL = "exploration"
STEP_STATUSES = ["untested", "untested_pending", "untested_undefined", "skipped", "passed", "failed", "error",
                 "hook_error", "pending", "pending_warn", "undefined"]
CHILD_STATUSES = ["untested", "skipped", "passed", "failed", "error", "hook_error"]
RULE = ("(a) table oracle: every member of Status vs. the three tables of docs/appendix.status.rst and the five-class "
        "partition; (b) exhaustive injection through the public API on real parsed features: all step-status tuples of "
        "length <=3 over the 11 step statuses for a scenario, all child tuples of length <=3 (quick) / <=4 (thorough) "
        "over {untested, skipped, passed, failed, error, hook_error} for feature, rule and outline, each with own "
        "hook failure on/off; (c) real runs of random programs (tag de-selection, --stop, abort, never-started "
        "features, dry-run, single hook faults, raising cleanups) with the invariant evaluated on the actual children "
        "after the run and inside reporter.feature(); (d) auto-retry and second-run histories with outcomes and hook "
        "faults changing per attempt. A case = one container evaluation; non-trivial = container with >=2 children of "
        ">=2 distinct statuses or an own hook/cleanup failure; distinct by hash of (kind, status tuple, flags) for "
        "injected cases and of (program, args, faults) for runs.")
ASSUMPTIONS = [
    "containers without any child are out of scope (as in the statement)",
    "for a container cut short after some passed children ([passed.., untested..]) only 'not passed, not skipped' is demanded",
    "precedence between error and failed when both occur is not demanded",
    "docs/appendix.status.rst is the documented table",
]
REQUIRED = {"wild.status_rollup_over_actual_children": {"quick": 8, "thorough": 300}, "table.predicates": 20, "table.partition": 14, "table.inner_outer": 15,
            "inject.scenario": {"quick": 1400, "thorough": 1400}, "inject.feature": {"quick": 500, "thorough": 3000},
            "inject.rule": {"quick": 500, "thorough": 3000}, "inject.outline": {"quick": 250, "thorough": 1200},
            "runs.containers_checked": {"quick": 20000, "thorough": 1000000}, "history.latest_run_only": {"quick": 200, "thorough": 8000},
            "history.reset_leaves_nothing": {"quick": 100, "thorough": 4000}}
REQUIRED_SEEN = {"rule_titles": ["two_rules_with_the_same_title_or_none"], "run_cut_short_by": ["abort_in_front_of_outlines_under_tag_selection"], "raising_hook_decoration": ["capture"], "feature_status": ["passed", "failed", "error", "skipped", "untested", "hook_error"],
                 "scenario_status": ["passed", "failed", "error", "skipped", "untested", "hook_error"],
                 "junit_mode": ["on", "off"], "raising_step_hook": ["after_step_of_a_failing_step"], "autoretry_patch_style": ["rows", "as_listed"], "raising_tag_hook": ["tag_on_one_level", "tag_on_several_levels"]}
EXHAUSTIVE = True
EXHAUSTIVE_SCOPE = "all members of Status; all child-status tuples up to the length bound per container kind"
NSHARDS = {"quick": 16, "thorough": 16}
KNOWN = {}


def plan(tier, seed):
    n = NSHARDS[tier]
    return [{"shard": i, "of": n, "seed": seed * 1000 + i} for i in range(n)]


def classify(name, w):
    # mechanism: Scenario.compute_status returns at the first step that is not passed; a skipped/untested step
    # BEFORE a failed/error step masks it (reachable through the status API only, see DESIGN/known findings)
    if name == "inject.scenario" and w.get("kind") == "scenario" and not w.get("hook_failed"):
        ks = w.get("children") or []
        first = next((k for k in ks if k not in ("passed", "pending_warn")), None)
        later_differs = first is not None and any(k != first for k in ks[ks.index(first) + 1:])
        if first in ("skipped",) + tuple(RB.UNTESTED_CLASS) and later_differs \
                and w.get("status") == ("untested" if first in RB.UNTESTED_CLASS else first):
            return "scenario-status-masked-by-earlier-skipped-or-untested-step"
    # mechanism: ScenarioOutline.compute_status has no 'untested' case
    if w.get("kind") == "outline" and w.get("status") == "passed" and w.get("children") is not None:
        ks = w["children"]
        if name.endswith(("nothing_executed_is_untested", "never_passed_with_untested_child", "passed_only_if_all_nonskipped_passed")) \
                and any(k in RB.UNTESTED_CLASS for k in ks):
            return "outline-untested-rows-reported-passed"
    return name


def safe_name(fn):
    """Status name, or a description of the exception the code under observation raised."""
    try:
        return fn().name
    except Exception as ex:     # an internal exception is an observation, not a reason to stop monitoring
        return "EXCEPTION %r" % (ex,)


# ---------------------------------------------------------------------------
def table_oracle(mon, lab):
    from behave.model_core import Status, OuterStatus, ScenarioStatus
    doc = statusdoc.load()
    members = {m.name: m for m in Status}
    mon.check("table.documented_statuses_exist", all(n in members for n in doc["documented"]),
              dict(missing=[n for n in doc["documented"] if n not in members]))
    for name, row in doc["common"].items():
        m = members[name]
        mon.case(("table", name), True)
        mon.check("table.predicates", m.is_error() == row["error"] and m.is_failure() == row["failed"],
                  dict(status=name, doc=row, is_error=m.is_error(), is_failure=m.is_failure()))
    for name, row in doc["steps"].items():
        m = members[name]
        got = {"error": m.is_error(), "untested": m.is_untested(), "pending": m.is_pending(), "undefined": m.is_undefined()}
        mon.case(("table-steps", name), True)
        mon.check("table.predicates", got == row, dict(status=name, doc=row, got=got))
    for name in doc["documented"]:
        m = members[name]
        # has_failed is "error or failure"; final statuses
        mon.check("table.predicates", m.has_failed() == (m.is_error() or m.is_failure()), dict(status=name))
    # five-class partition for every reportable member
    for name, m in members.items():
        if name in ("unknown", "executing"):
            continue
        classes = [m.is_passed(), m.is_failure(), m.is_error(), m is Status.skipped, m.is_untested()]
        mon.case(("partition", name), True)
        mon.check("table.partition", sum(bool(c) for c in classes) == 1,
                  dict(status=name, passed_like=classes[0], failure=classes[1], error=classes[2], skipped=classes[3], untested=classes[4]))
    for inner, outer in doc["inner_outer"].items():
        m = members[inner]
        mon.case(("inner-outer", inner), True)
        got = safe_name(lambda: ScenarioStatus.from_step_status(m))
        mon.check("table.inner_outer", got == outer, dict(inner=inner, doc_outer=outer, got=got, via="ScenarioStatus.from_step_status"))
        if inner in CHILD_STATUSES + ["pending_warn"]:
            got2 = safe_name(lambda: OuterStatus.from_inner_status(m))
            mon.check("table.inner_outer", got2 == outer, dict(inner=inner, doc_outer=outer, got=got2, via="OuterStatus.from_inner_status"))


FEATURE_TEXT = """Feature: F
  Scenario: S1
    Given k1 a
  Scenario: S2
    Given k2 a
  Scenario: S3
    Given k3 a
  Scenario: S4
    Given k4 a
"""
RULE_TEXT = """Feature: F
  Rule: R
    Scenario: S1
      Given k1 a
    Scenario: S2
      Given k2 a
    Scenario: S3
      Given k3 a
    Scenario: S4
      Given k4 a
"""
OUTLINE_TEXT = """Feature: F
  Scenario Outline: O
    Given k1 <x>
    Examples:
      | x |
      | 1 |
      | 2 |
      | 3 |
      | 4 |
"""
SCENARIO_TEXT = """Feature: F
  Scenario: S
    Given k1 a
    When k2 a
    Then k3 a
"""


def inject(mon, lab, tier, shard, of):
    from behave.model_core import Status
    from behave.parser import parse_feature
    S = {m.name: m for m in Status}
    idx = 0
    # -- scenario from step statuses
    for n in (1, 2, 3):
        for tup in itertools.product(STEP_STATUSES, repeat=n):
            for hook_failed in (False, True):
                idx += 1
                if idx % of != shard:
                    continue
                f = parse_feature(SCENARIO_TEXT)
                sc = f.scenarios[0]
                sc.steps[:] = sc.steps[:n]
                for st, name in zip(sc.steps, tup):
                    st.status = S[name]
                sc.hook_failed = hook_failed
                sc.clear_status()
                got = safe_name(lambda: sc.status)
                case = {"kind": "scenario", "children": list(tup), "hook_failed": hook_failed}
                mon.case(case, len(set(tup)) >= 2 or hook_failed)
                # passed* skipped+ is the state a step leaves behind when it skips the rest of its scenario through
                # the public API (scenario.skip()): the scenario then carries the status the user asked for
                k = next((j for j, x in enumerate(tup) if x == "skipped"), None)
                api_shape = k is not None and k > 0 and all(x in RB.PASSED_LIKE for x in tup[:k]) and \
                    all(x == "skipped" for x in tup[k:])
                for name, ok in RB.rollup_checks("scenario", got, list(tup), hook_failed, False, api_shape):
                    mon.check("inject.scenario", ok, dict(case, status=got, rule=name))
                    mon.count("inject.rule." + name)
                # a second read gives the same answer (cached status is coherent)
                again = safe_name(lambda: sc.status)
                mon.check("inject.stable", again == got, dict(case, first=got, second=again))
    # -- containers from child statuses
    maxn = 3 if tier == "quick" else 4
    for kind, text in (("feature", FEATURE_TEXT), ("rule", RULE_TEXT), ("outline", OUTLINE_TEXT)):
        for n in range(1, maxn + 1):
            for tup in itertools.product(CHILD_STATUSES, repeat=n):
                for hook_failed in ((False, True) if kind != "outline" else (False,)):
                    idx += 1
                    if idx % of != shard:
                        continue
                    f = parse_feature(text)
                    if kind == "feature":
                        c = f
                        children = f.scenarios
                        del f.run_items[n:]
                        del f.scenarios[n:]
                    elif kind == "rule":
                        c = f.rules[0]
                        children = c.scenarios
                        del c.run_items[n:]
                        del c.scenarios[n:]
                    else:
                        c = f.scenarios[0]
                        t = c.examples[0].table
                        del t.rows[n:]
                        children = c.scenarios
                    for ch, name in zip(children, tup):
                        if name == "untested":
                            ch.clear_status()
                        elif name == "skipped":
                            ch.mark_skipped()
                        else:
                            ch.set_status(S[name])
                    if kind != "outline":
                        c.hook_failed = hook_failed
                    c.clear_status()
                    got = safe_name(lambda: c.status)
                    actual = [safe_name(lambda ch=ch: ch.status) for ch in children]
                    case = {"kind": kind, "children": actual, "hook_failed": hook_failed}
                    mon.case(case, len(set(tup)) >= 2 or hook_failed)
                    mon.check("inject.children_as_injected", actual == list(tup), dict(case, injected=list(tup)))
                    for name, ok in RB.rollup_checks(kind, got, actual, hook_failed):
                        mon.check("inject." + kind, ok, lambda: dict(case, status=got, rule=name))
                        if not ok:
                            pass
                        mon.count("inject.rule." + name)
                    # the enclosing feature of a rule/outline must follow from the rule/outline status
                    if kind in ("rule", "outline"):
                        f.clear_status()
                        fst = safe_name(lambda: f.status)
                        for name, ok in RB.rollup_checks("feature", fst, [got], False):
                            mon.check("inject.feature_of_" + kind, ok, lambda: dict(case, status=got, feature_status=fst, rule=name))


class CheckingReporter(object):
    """Quiescent point 'inside reporter.feature(feature)'."""
    def __init__(self, mon, lab, case_ref):
        self.mon, self.lab, self.case_ref = mon, lab, case_ref
        self.seen = []

    def feature(self, feature):
        self.seen.append(feature.name)
        RB.check_rollup_live(self.mon, self.lab, None, self.case_ref.get("case"), prefix="rollup_at_reporter",
                             cleanup_failed=self.case_ref.get("cleanup_failed", ()), features=[feature])

    def end(self):
        pass


def real_runs(mon, lab, rng, n, tier):
    for i in range(n):
        gen = {"outcomes": OUTCOMES + ["abort"], "weights": {"abort": 0.3}} if i % 5 == 0 else {}
        if i % 10 == 5:
            # a step that aborts the run from user code (context.abort(), passing otherwise) in front of outlines, under a tag selection
            # that takes some outlines out: what the abort left unexecuted is untested, selected or not
            gen = {"outcomes": ["abort", "fail"], "weights": {"abort": 3.0}, "p_nonpass": 0.25, "p_outline": 0.6, "p_tag": 0.6, "max_items": 4}
            mon.seen("run_cut_short_by", "abort_in_front_of_outlines_under_tag_selection")
        gen["p_stepless"] = 0.0     # childless scenarios are out of scope and would poison their parents
        if i % 4 == 1:
            gen["p_tag"] = 0.7          # densely tagged trees: the same tag on a scenario and on its rule / feature
        if i % 3 == 0:
            # header-only Examples sections next to sections with rows (the outline as a whole is not childless)
            gen.update({"p_empty_examples": 0.4, "max_examples": 3, "outline_min_rows": 1, "p_outline": 0.5})
        else:
            gen["p_empty_examples"] = 0.0
        if i % 3 == 2:
            # backgrounds that mix steps with and without examples placeholders, above outlines with tagged examples
            gen.update({"p_bg_param": 0.6, "p_background": 0.8, "p_outline": 0.5})
        if i % 4 in (0, 3):
            # (not together with injected hook / cleanup faults, whose owners the harness knows by title)
            gen.update({"p_twin_rule_names": 0.5, "max_rules": 3})
        case = RB.gen_case(rng, gen=gen, p_stop=0.3, p_dry=0.15, p_user_skip=0.1, p_names=0.15)
        if case["program"].get("twin_rule_names"):
            mon.seen("rule_titles", "two_rules_with_the_same_title_or_none")
        if rng.random() < 0.3:
            # JUnit reporting switched on (the reporter itself is replaced by the checking reporter below): the runner keeps
            # captured output for every scenario then and takes another path at the end of Scenario.run
            case["args"] = case["args"] + ["--junit"]
            mon.seen("junit_mode", "on")
        else:
            mon.seen("junit_mode", "off")
        ref = {"case": case}
        rep = CheckingReporter(mon, lab, ref)
        mode = i % 4
        kw = {}
        cleanup_failed = set()
        if mode == 1 and not case["cfg"]["dry_run"]:
            obs0 = lab.run(case["program"], args=case["args"])
            if obs0.hooks:
                k = rng.randrange(len(obs0.hooks))
                tag_hooks = [j for j, h in enumerate(obs0.hooks) if h[0].endswith("_tag")]
                if tag_hooks and rng.random() < 0.4:
                    k = rng.choice(tag_hooks)       # tag hooks: the same tag may sit on several nesting levels
                else:
                    # the after_step hook of a step that FAILS on its own (the usual screenshot-on-failure hook, raising)
                    bad_after = [j for j, h in enumerate(obs0.hooks) if h[0] == "after_step" and isinstance(h[1], tuple)
                                 and case["program"]["outcomes"].get(h[1][1]) in ("fail", "error")]
                    if bad_after and rng.random() < 0.4:
                        k = rng.choice(bad_after)
                        mon.seen("raising_step_hook", "after_step_of_a_failing_step")
                kw["hook_fault"] = {"k": k, "exc": rng.choice(["Exception", "AssertionError"])}
                case = dict(case, hook_fault=kw["hook_fault"])
                ref["case"] = case
        elif mode == 2 and not case["cfg"]["dry_run"]:
            # raising cleanup registered from a hook of a feature / rule / scenario
            target = rng.choice(["before_feature", "before_rule", "before_scenario", "after_scenario"])
            fired = []

            def plug(state, context, name, elem, tag, target=target, fired=fired):
                if name == target and not fired and rng.random() < 0.5:
                    fired.append(elem.name)

                    def bad_cleanup():
                        raise RuntimeError("injected cleanup failure")
                    context.add_cleanup(bad_cleanup)
            kw["hook_plugins"] = [plug]
            ref["cleanup_failed"] = fired
            cleanup_failed = fired
            case = dict(case, cleanup_plan={"register_in_first": target})
            ref["case"] = case
        if i % 2 == 0:
            # user hooks may look at statuses while the run is in progress; reading must not freeze them
            def reader(state, context, name, elem, tag):
                for attr in ("feature", "rule", "scenario"):
                    obj = getattr(context, attr, None)
                    if obj is not None:
                        try:
                            _ = obj.status
                        except Exception:
                            pass
            kw.setdefault("hook_plugins", []).append(reader)
            mon.count("runs.with_status_reading_hooks")
        if i % 7 == 3:
            # a "fail fast" environment.py: once a scenario failed, skip() is called on things that ALREADY ran (the scenario
            # itself, its rule, its feature) -- what was executed keeps the status its children give it
            which = rng.choice(["scenario", "feature", "rule"])

            def fail_fast(state, context, name, elem, tag, which=which):
                if name == "after_scenario" and elem.status.has_failed():
                    target = elem if which == "scenario" else (getattr(context, "rule", None) if which == "rule" else None)
                    (target or context.feature).skip(reason="fail fast")
            kw.setdefault("hook_plugins", []).append(fail_fast)
            mon.count("runs.with_skip_called_after_failure")
        lab.capture_hooks = None
        if mode == 1 and i % 8 == 1:
            # the environment's hooks are decorated with behave's @capture (log capture for hooks): what such a hook raises is a hook
            # failure like any other, whether or not it logged anything before
            from ..lab.inproc import HOOK_NAMES
            lab.capture_hooks = set(rng.sample(HOOK_NAMES, rng.randint(4, len(HOOK_NAMES))))
            case = dict(case, capture_decorated_hooks=sorted(lab.capture_hooks))
            ref["case"] = case
            mon.seen("raising_hook_decoration", "capture")
        try:
            obs = lab.run(case["program"], args=case["args"], reporters=lambda config: [rep], **kw)
        finally:
            lab.capture_hooks = None
        mon.case(("run", RB.strip_case(case)), True)
        if obs.escaped is not None:
            mon.check("runs.no_exception_escapes", False, lambda: RB.witness(case, escaped=repr(obs.escaped)))
            continue
        mon.check("runs.reporter_saw_every_feature", rep.seen == [f["name"] for f in case["program"]["features"]],
                  lambda: RB.witness(case, seen=rep.seen))
        before = mon.counters.get("rollup.containers", 0)
        RB.check_rollup_live(mon, lab, obs, case, cleanup_failed=cleanup_failed, hook_failed_names=set(obs.fault_owners))
        for (kk, hname, ename, tag), owner in zip(obs.faults_fired, obs.fault_owners):
            if hname.endswith("_step") and isinstance(ename, tuple) and ename[0] in obs.step_names:
                # a raising before_step / after_step hook: THAT step is hook_error -- whatever its own function did -- and its
                # scenario has an error-class status inside
                names_ = obs.step_names[ename[0]]
                if names_.count(ename[1]) == 1:
                    st_ = obs.step_status[ename[0]][names_.index(ename[1])]
                    sc_ = obs.elem_status.get(ename[0])
                    mon.check("rollup.step_whose_hook_raised_is_hook_error", st_ == "hook_error" and sc_ == "error",
                              lambda: RB.witness(case, hook=hname, step=list(ename), step_status=st_, scenario_status=sc_))
            if hname.endswith("_tag") and owner is not None:
                levels = sum(1 for (h2, e2, t2) in obs.hooks if h2 == "before_tag" and t2 == tag)
                mon.seen("raising_tag_hook", "tag_on_one_level" if levels <= 1 else "tag_on_several_levels")
        RB.check_identity(mon, obs, case, prefix="rollup")
        ncont = len(obs.elem_status)
        mon.count("runs.containers_checked", ncont)
        if i == 0:
            mon.sample({"features": RB.case_texts(case), "args": case["args"], "statuses": obs.elem_status,
                        "step_statuses": obs.step_status})


def histories(mon, lab, rng, n):
    """Re-running yields statuses that depend only on the latest run (auto-retry, hook fault in attempt 1 only)."""
    from behave.contrib.scenario_autoretry import patch_scenario_with_autoretry
    for i in range(n):
        outs = [o for o in OUTCOMES if o not in ("ki", "skip")]
        case = RB.gen_case(rng, tags=False, p_stop=0, p_dry=0, gen={"max_features": 1, "outcomes": outs, "p_nonpass": 0.3, "p_stepless": 0.0, "p_empty_examples": 0.0})
        program = case["program"]
        insts = [x for f in program["features"] for x in iter_scenario_instances(f)]
        victim = rng.choice(insts)["name"]
        hookname = rng.choice(["before_scenario", "after_scenario", "before_step", "after_step"])
        attempt = {}
        base = dict(program["outcomes"])
        # attempt 2 always passes everything that is defined
        second = {t: ("pass" if t[0] in "ka" else oc) for t, oc in base.items()}
        fired = []

        def plug(state, context, name, elem, tag):
            sc = getattr(context, "scenario", None)
            if name == "before_scenario":
                attempt[elem.name] = attempt.get(elem.name, 0) + 1
                state.outcomes = base if attempt[elem.name] == 1 else second
            if sc is not None and sc.name == victim and name == hookname and attempt.get(victim) == 1 and not fired:
                fired.append(name)
                raise RuntimeError("hook fails in attempt 1 only")

        style = "rows" if i % 2 == 0 else "as_listed"

        def pre_run(st, style=style):
            for f in st.features:
                if style == "as_listed":
                    # the documented recipe: everything feature.scenarios / rule.scenarios lists -- outlines as ONE object each
                    for container in [f] + list(f.rules):
                        for s in container.scenarios:
                            patch_scenario_with_autoretry(s, max_attempts=2)
                    continue
                for s in f.walk_scenarios(with_outlines=True):
                    if isinstance(s, lab.ScenarioOutline):
                        _ = s.scenarios
                for s in f.walk_scenarios():
                    patch_scenario_with_autoretry(s, max_attempts=2)
        mon.seen("autoretry_patch_style", style)
        obs = lab.run(program, args=[], hook_plugins=[plug], pre_run=pre_run)
        hist = {"victim": victim, "hook": hookname, "fired": fired, "patched": style}
        mon.case(("retry-hook", RB.strip_case(case), hist), True)
        if obs.escaped is not None:
            mon.check("history.no_exception_escapes", False, lambda: RB.witness(case, escaped=repr(obs.escaped), history=hist))
            continue
        # expected final statuses: as a fresh run of the last attempt of each scenario
        pred1 = runmodel.predict({"features": program["features"], "outcomes": base}, case["cfg"])
        pred2 = runmodel.predict({"features": program["features"], "outcomes": second}, case["cfg"])
        for x in insts:
            name = x["name"]
            retried = attempt.get(name, 0) >= 2
            want = pred2.scen_status[name] if retried else pred1.scen_status[name]
            if name == victim and fired and not retried:
                want = {"hook_error", "error"}     # the faulty attempt was the last one (it did not count as failed? then no retry)
            got = obs.elem_status.get(name)
            mon.check("history.latest_run_only", got in want,
                      lambda: RB.witness(case, scenario=name, got=got, want=sorted(want), attempts=attempt.get(name), history=hist))
        RB.check_rollup_live(mon, lab, obs, case, prefix="history.rollup")

def reset_histories(mon, lab, rng, n):
    """run 1 (failures, hook faults, environment skips) -> reset_model(features) -> every element is untested again, nothing of
    run 1 is left -> run 2 with a different outcome table, cut short or complete: statuses are those of run 2 alone."""
    from behave.model import reset_model
    for i in range(n):
        outs = [o for o in OUTCOMES if o not in ("ki",)]
        case = RB.gen_case(rng, p_dry=0.0, p_stop=0.2, p_user_skip=0.3,
                           gen={"outcomes": outs, "p_nonpass": 0.4, "max_rules": 2, "p_stepless": 0.0, "p_empty_examples": 0.0})
        program = case["program"]
        table2 = {t: (oc if oc in ("undefined", "conv") else rng.choice(["pass", "pass", "pass", "fail", "error"]))
                  for t, oc in program["outcomes"].items()}
        after_reset = {}
        second = {}
        stop2 = rng.random() < 0.5

        def second_run(st):
            reset_model(st.features)
            for f in st.features:
                after_reset[("feature", f.name)] = (RB_sname(f), bool(f.should_skip), bool(f.hook_failed))
                for r in f.rules:
                    after_reset[("rule", r.name)] = (RB_sname(r), bool(r.should_skip), bool(r.hook_failed))
                for sc in f.walk_scenarios(with_outlines=True):
                    after_reset[("scenario", sc.name)] = (RB_sname(sc), bool(getattr(sc, "should_skip", False)),
                                                          bool(getattr(sc, "hook_failed", False)))
                    if not isinstance(sc, lab.ScenarioOutline):
                        for stp in sc.all_steps:
                            after_reset[("step", sc.name, stp.line, stp.name)] = (RB_sname(stp), False, bool(stp.hook_failed))
            st.calls[:] = []
            st.hooks[:] = []
            st.outcomes = table2
            st.user_skip = set()
            st.config.stop = stop2
            second["verdict"] = st.runner.run()
        fault = None
        if i % 2 == 0:
            # run 1 additionally with a raising hook (often a step hook): its traces are gone after the reset as well
            obs0 = lab.run(program, args=case["args"])
            ks = [k for k, h in enumerate(obs0.hooks) if h[0] in ("before_step", "after_step")] or list(range(len(obs0.hooks)))
            if ks:
                fault = {"k": rng.choice(ks), "exc": "Exception"}
        obs = lab.run(program, args=case["args"], second_run=second_run, hook_fault=fault)
        mon.case(("reset", RB.strip_case(case), sorted(table2.items())[:6], stop2, repr(fault)), True)
        W = lambda **kw: RB.witness(case, second_table={k: v for k, v in list(table2.items())[:8]}, **kw)
        if obs.escaped is not None:
            mon.check("history.no_exception_escapes", False, lambda: W(escaped=repr(obs.escaped)))
            continue
        bad = {str(k): v for k, v in after_reset.items() if v != ("untested", False, False)}
        mon.check("history.reset_leaves_nothing", not bad, lambda: W(not_reset=dict(list(bad.items())[:6])))
        cfg2 = dict(case["cfg"], stop=stop2)
        pred = runmodel.predict({"features": program["features"], "outcomes": table2}, cfg2)
        for name, want in pred.scen_status.items():
            got = obs.elem_status.get(name)
            mon.check("history.latest_run_only", got in want,
                      lambda: W(scenario=name, got=got, want=sorted(want), after="reset_model + second run", stop_in_run2=stop2))
        RB.check_rollup_live(mon, lab, obs, case, prefix="history.rollup")


def RB_sname(x):
    try:
        return x.status.name
    except Exception as ex:
        return "EXCEPTION %s" % type(ex).__name__


def run(spec, mon):
    from ..lab.inproc import RunLab
    lab = RunLab()
    tier = spec.get("tier", "quick")
    rng = random.Random(spec["seed"])
    shard, of = spec["shard"], spec["of"]
    if shard == 0:
        table_oracle(mon, lab)
    inject(mon, lab, tier, shard, of)
    real_runs(mon, lab, rng, 150 if tier == "quick" else 6000, tier)
    histories(mon, lab, rng, 25 if tier == "quick" else 800)
    reset_histories(mon, lab, rng, 15 if tier == "quick" else 500)
    if shard == 0:
        mon.sample({"injected": {"kind": "feature", "children": ["passed", "skipped", "hook_error"], "expected": "error"}}, force=True)
    if spec["shard"] == 0:
        # behave's own acceptance features as workload: the probes of bvm.wild in every behave process they spawn
        from ..wild import run as wild
        wild.feed(mon, ID, spec.get("tier", "quick"))


def replay(case, mon):
    from ..lab.inproc import RunLab
    lab = RunLab()
    if isinstance(case, dict) and "program" in case:
        obs = lab.run(case["program"], args=case["args"], hook_fault=case.get("hook_fault"))
        mon.case(("replay", case))
        RB.check_rollup_live(mon, lab, obs, case)
        print(obs.elem_status)
    else:
        print("injected cases are enumerated deterministically: re-run the check")


LEVEL_TEXT = ("Exploration with exhaustive cores: the status predicates and inner->outer mappings are compared with the "
              "tables parsed from docs/appendix.status.rst for every member of the enumeration; every child-status tuple "
              "up to the length bound is injected through the public API into real parsed scenarios, features, rules and "
              "outlines and the computed status checked against the documented roll-up invariant; the same invariant is "
              "evaluated on the actual children of every container of thousands of real runs (de-selection, --stop, "
              "abort, never-started features, dry-run, hook faults, raising cleanups), both after the run and inside "
              "reporter.feature(); auto-retry histories must end in the statuses of the latest attempt.")
LEVEL_NOTE = "Trusted: the invariant in runbase.rollup_checks (written from the statement), the doc parser; bounded tuple length."
TECHNIQUE = "runtime monitoring: invariant checked at quiescent points on live model objects + exhaustive status injection + documented-table oracle; plus oracle-free invariant probes armed (sitecustomize) in every behave process that the repository's own acceptance features spawn"
