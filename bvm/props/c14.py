"""C14 -- summary conservation: every element counted once under its final status."""
from __future__ import annotations

import io
import os
import random
import re

from . import runbase as RB
from ..gen.prog import OUTCOMES

ID = "C14"
LEVEL = "exploration"
FORMATS = ["v1", "v1A", "v1B", "v2", "v3"]
RULE = ("the runs of C01-C03 (random trees, all outcomes, tag de-selection, --stop/abort leaving untested remainders, "
        "never-started features, dry-run, single hook faults, raising cleanups); after each run an independent census "
        "of the model (own tree walk: features, rules, scenarios incl. outline rows, steps incl. per-scenario "
        "background copies) is compared with (a) the tables of the default SummaryReporter and its printed text parsed "
        "back, in the format selected through behave.reporter.summary.output_format and re-printed in all five formats, "
        "(b) the collector-based reporter (SummaryCollector.summary_counts and its printed text), (c) the listed "
        "failing/errored scenarios; a case = one run; non-trivial = >=2 distinct scenario statuses or an untested "
        "remainder; distinct by hash of (program, args, faults).")
ASSUMPTIONS = [
    "an optional part missing from a printed line means count 0",
    "durations are not observed",
    "the census walk in this module is the reference (it shares no code with behave's traversals)",
]
REQUIRED = {"wild.summary_counts_match_census": {"quick": 8, "thorough": 300}, "reporter.tables_match_census": {"quick": 800, "thorough": 40000},
            "reporter.text_matches_census": {"quick": 4000, "thorough": 200000},
            "collector.counts_match_census": {"quick": 800, "thorough": 40000},
            "collector.text_matches_census": {"quick": 4000, "thorough": 200000},
            "lists.failing_and_errored": {"quick": 1600, "thorough": 80000},
            "conservation.sum_equals_elements": {"quick": 3000, "thorough": 150000},
            "collector.delegation_form_counts_match_census": {"quick": 800, "thorough": 40000},
            "process.summary_counts_scenarios_as_the_model": {"quick": 8, "thorough": 150}}
REQUIRED_SEEN = {"examples_tables": ["rows_added_at_run_time"], "formatter_outfile": ["dash_for_stdout", "not_given"], "scenario_status_counted": ["passed", "failed", "error", "hook_error", "skipped", "untested"],
                 "format_printed": FORMATS, "feature_titles": ["unique", "duplicate"], "scenario_title_class": ["format_metacharacters"], "junit_reporting": ["command_line", "configuration_file", "off"],
                 "interim_summary": ["printed_from_after_feature"]}
NSHARDS = {"quick": 16, "thorough": 16}
KINDS = ["feature", "rule", "scenario", "step"]


def plan(tier, seed):
    n = NSHARDS[tier]
    return [{"shard": i, "of": n, "seed": seed * 1000 + i} for i in range(n)]


def classify(name, w):
    return name


# ---------------------------------------------------------------------------
def census(lab, features):
    counts = {k: {} for k in KINDS}
    failing, errored = [], []

    def add(kind, status):
        counts[kind][status] = counts[kind].get(status, 0) + 1

    def scen(s):
        st = s.status.name
        add("scenario", st)
        if st == "failed":
            failing.append(s.name)
        elif st in RB.ERROR_CLASS:
            errored.append(s.name)
        for step in s.all_steps:
            add("step", step.status.name)

    def walk(c):
        for it in c.run_items:
            if isinstance(it, lab.Rule):
                add("rule", it.status.name)
                walk(it)
            elif isinstance(it, lab.ScenarioOutline):
                for s in it.scenarios:
                    scen(s)
            else:
                scen(it)
    for f in features:
        add("feature", f.status.name)
        walk(f)
    return counts, failing, errored


WORD = {"feature": "feature", "rule": "rule", "scenario": "scenario", "step": "step"}


def parse_line(fmt, line):
    """Returns (kind, total or None, {status: count}) or None."""
    line = line.strip()
    if fmt == "v1":
        # "1 feature passed, 0 failed, 0 skipped"
        m = re.match(r"^(\d+) (feature|rule|scenario|step)s? passed(?:, (.*))?$", line)
        if not m:
            return None
        d = {"passed": int(m.group(1))}
        for part in (m.group(3) or "").split(", "):
            if part:
                n, name = part.split(" ", 1)
                d[name] = int(n)
        return m.group(2), None, d
    if fmt in ("v2", "v3"):
        m = re.match(r"^\s*(\d+) (feature|rule|scenario|step)s?\s*\((.*)\)$", line)
        if not m:
            return None
        d = {}
        for part in m.group(3).split(", "):
            if part:
                name, n = part.split(": ")
                d[name] = int(n)
        return m.group(2), int(m.group(1)), d
    if fmt == "v1A":
        m = re.match(r"^(\d+) (feature|rule|scenario|step)s?, (.*)$", line)
        if not m:
            return None
        d = {}
        for part in m.group(3).split(", "):
            if part:
                n, name = part.split(" ", 1)
                d[name] = int(n)
        return m.group(2), int(m.group(1)), d
    if fmt == "v1B":
        m = re.match(r"^(\d+) (feature|rule|scenario|step)s? passed, (.*)$", line)
        if not m:
            return None
        d = {"passed": int(m.group(1))}
        for part in m.group(3).split(", "):
            if part:
                n, name = part.split(" ", 1)
                d[name] = int(n)
        return m.group(2), None, d
    return None


def parse_summary(fmt, text):
    out = {}
    for line in text.splitlines():
        r = None
        try:
            r = parse_line(fmt, line)
        except Exception:
            r = None
        if r:
            out[r[0]] = (r[1], r[2])
    return out


def same_counts(printed, want):
    keys = set(printed) | set(want)
    return all(printed.get(k, 0) == want.get(k, 0) for k in keys)


def listed(text, title):
    """Names of the scenarios listed under 'Failing scenarios:' / 'Errored scenarios:'."""
    out = []
    on = False
    for line in text.splitlines():
        if line.strip() == "%s scenarios:" % title:
            on = True
            continue
        if on:
            if line.startswith("  ") and line.strip():
                # "  <location>  <name>"
                parts = line[2:].split("  ", 1)          # keep trailing blanks: they are part of the name
                out.append(parts[1] if len(parts) == 2 else parts[0])
            else:
                on = False
    return out


def check_run(lab, mon, case, obs, reps, fmt_used):
    from behave.reporter.summary import SummaryReporterV1, SummaryReporterV2
    cen, failing, errored = census(lab, obs.features)
    W = lambda **kw: RB.witness(case, census=cen, **kw)
    nontrivial = len(cen["scenario"]) >= 2 or "untested" in cen["scenario"]
    mon.case(("run", RB.strip_case(case), fmt_used), nontrivial)
    for st in cen["scenario"]:
        mon.seen("scenario_status_counted", st)
    for st in cen["step"]:
        mon.seen("step_status_counted", st)
    has_rules = bool(cen["rule"])
    kinds = [k for k in KINDS if k != "rule" or has_rules]
    v1, v2 = reps
    # -- (a) default reporter: tables ----------------------------------------------------------
    tables = {"feature": v1.feature_summary, "rule": v1.rule_summary, "scenario": v1.scenario_summary, "step": v1.step_summary}
    for kind in KINDS:
        got = {k: v for k, v in tables[kind].items() if k != "all" and v}
        mon.check("reporter.tables_match_census", got == cen[kind], lambda: W(kind=kind, got=got, want=cen[kind]))
        total = sum(v for k, v in tables[kind].items() if k != "all")
        mon.check("conservation.sum_equals_elements", total == sum(cen[kind].values()),
                  lambda: W(kind=kind, total=total, elements=sum(cen[kind].values())))
    # -- printed text at end() in the configured format ---------------------------------------------
    text_end = v1.stream.getvalue()
    parsed = parse_summary(fmt_used, text_end)
    for kind in kinds:
        ok = kind in parsed and same_counts(parsed[kind][1], cen[kind]) and \
            (parsed[kind][0] is None or parsed[kind][0] == sum(cen[kind].values()))
        mon.check("reporter.text_matches_census", ok, lambda: W(kind=kind, fmt=fmt_used, printed=parsed.get(kind), text=text_end[-600:]))
    mon.seen("format_printed", fmt_used)
    mon.check("lists.failing_and_errored", listed(text_end, "Failing") == failing and listed(text_end, "Errored") == errored,
              lambda: W(impl="reporter", listed_failing=listed(text_end, "Failing"), listed_errored=listed(text_end, "Errored"),
                        want_failing=failing, want_errored=errored))
    # -- all five formats, re-printed ----------------------------------------------------------
    per_format = {}
    for fmt in FORMATS:
        for impl, rep in (("reporter", v1), ("collector", v2)):
            buf = io.StringIO()
            rep.stream = buf
            rep.output_format = fmt
            try:
                rep.print_summary(stream=buf, with_duration=False)
                text = buf.getvalue()
                err = None
            except Exception as ex:
                text, err = "", repr(ex)
            parsed = parse_summary(fmt, text)
            for kind in kinds:
                ok = err is None and kind in parsed and same_counts(parsed[kind][1], cen[kind]) and \
                    (parsed[kind][0] is None or parsed[kind][0] == sum(cen[kind].values()))
                mon.check("%s.text_matches_census" % impl, ok,
                          lambda: W(impl=impl, kind=kind, fmt=fmt, printed=parsed.get(kind), text=text[-400:], error=err))
            per_format[(impl, fmt)] = {k: (parsed[k][1] if k in parsed else None) for k in kinds}
    # -- (b) collector counts ---------------------------------------------------------------------
    sc = v2.summary_counts
    for kind, obj in (("feature", sc.features), ("rule", sc.rules), ("scenario", sc.scenarios), ("step", sc.steps)):
        got = {k.name: v for k, v in obj.items() if v}
        mon.check("collector.counts_match_census", got == cen[kind], lambda: W(kind=kind, got=got, want=cen[kind]))
        mon.check("conservation.sum_equals_elements", obj.all == sum(cen[kind].values()),
                  lambda: W(kind=kind, impl="collector", total=obj.all))
    got_f = [s.name for s in v2.failed_scenarios]
    got_e = [s.name for s in v2.errored_scenarios]
    mon.check("lists.failing_and_errored", got_f == failing and got_e == errored,
              lambda: W(impl="collector", listed_failing=got_f, listed_errored=got_e, want_failing=failing, want_errored=errored))
    # -- the other public ways to the same numbers ------------------------------------------------------
    from behave.summary import SummaryCollector
    whole = SummaryCollector()
    for f in obs.features:
        whole(f)                                    # the function-call form, one model element at a time
    wc = whole.summary_counts if hasattr(whole, "summary_counts") else whole.counts
    for kind, obj in (("feature", wc.features), ("rule", wc.rules), ("scenario", wc.scenarios), ("step", wc.steps)):
        got = {k.name: v for k, v in obj.items() if v}
        mon.check("collector.call_form_counts_match_census", got == cen[kind], lambda: W(kind=kind, got=got, want=cen[kind], form="collector(feature)"))
    # delegation-based use (documented in ModelVisitor): a walking visitor that hands every element to a collector it was given
    from behave.model_visitor import ModelVisitor
    delegate = SummaryCollector()
    walker = ModelVisitor(visitor=delegate)
    try:
        if len(obs.features) % 2:
            walker.visit_many(obs.features)
        else:
            for f in obs.features:
                walker.visit_feature(f)
        dc = delegate.summary_counts if hasattr(delegate, "summary_counts") else delegate.counts
        for kind, obj in (("feature", dc.features), ("rule", dc.rules), ("scenario", dc.scenarios), ("step", dc.steps)):
            got = {k.name: v for k, v in obj.items() if v}
            mon.check("collector.delegation_form_counts_match_census", got == cen[kind],
                      lambda: W(kind=kind, got=got, want=cen[kind], form="ModelVisitor(visitor=SummaryCollector())"))
    except Exception as ex:
        mon.check("collector.delegation_form_counts_match_census", False, lambda: W(error=repr(ex), form="ModelVisitor(visitor=SummaryCollector())"))
    for rep, impl in ((v1, "reporter"), (v2, "collector")):
        buf = io.StringIO()
        rep.stream = io.StringIO()                  # a report written to the caller's own stream goes there, all of it
        try:
            rep.print_problematic_scenarios(stream=buf)
            text, err = buf.getvalue(), None
        except Exception as ex:
            text, err = "", repr(ex)
        mon.check("lists.printed_to_the_given_stream", err is None and listed(text, "Failing") == failing and listed(text, "Errored") == errored
                  and not rep.stream.getvalue().strip(),
                  lambda: W(impl=impl, listed_failing=listed(text, "Failing"), listed_errored=listed(text, "Errored"),
                            want_failing=failing, want_errored=errored, leaked_to_default_stream=rep.stream.getvalue()[:200], error=err))


def run(spec, mon):
    from ..lab.inproc import RunLab
    from behave.reporter.summary import SummaryReporterV1, SummaryReporterV2
    lab = RunLab()
    tier = spec.get("tier", "quick")
    rng = random.Random(spec["seed"])
    n = 60 if tier == "quick" else 3000
    for i in range(n):
        gen = {"outcomes": OUTCOMES + ["abort"], "weights": {"abort": 0.3}} if i % 6 == 0 else {}
        grow = i % 6 == 3
        if grow:
            gen = {"p_outline": 0.8, "max_examples": 3, "p_nonpass": 0.5, "p_empty_examples": 0.0, "max_rows": 2}
        case = RB.gen_case(rng, gen=gen, p_stop=0.3 if not grow else 0.0, p_dry=0.12, p_user_skip=0.1, p_names=0.1)
        if i % 4 == 1:
            # scenario titles with characters that mean something to %-formatting / str.format / templates: a title is text
            def decorate(c):
                for it in c["items"]:
                    if it["kind"] == "rule":
                        decorate(it)
                    else:
                        it["name"] = it["name"] + rng.choice([" {user}", " {0}", " {{x}}", " 100%", " %s and %d", " {", " }", " $x ${y}"])
            for f in case["program"]["features"]:
                decorate(f)
                f.pop("_text", None)
            mon.seen("scenario_title_class", "format_metacharacters")
        fmt = FORMATS[i % len(FORMATS)]
        args = case["args"] + ["-D", "behave.reporter.summary.output_format=%s" % fmt]
        kw = {}
        mode = i % 3
        if mode == 1 and not case["cfg"]["dry_run"]:
            obs0 = lab.run(case["program"], args=case["args"])
            if obs0.hooks:
                kw["hook_fault"] = {"k": rng.randrange(len(obs0.hooks)), "exc": rng.choice(["Exception", "AssertionError"])}
                case = dict(case, hook_fault=kw["hook_fault"])
        elif mode == 2 and not case["cfg"]["dry_run"]:
            target = rng.choice(["before_feature", "before_rule", "before_scenario"])

            def plug(state, context, name, elem, tag, target=target):
                if name == target and rng.random() < 0.3:
                    def bad_cleanup():
                        raise RuntimeError("injected cleanup failure")
                    context.add_cleanup(bad_cleanup)
            kw["hook_plugins"] = [plug]
            case = dict(case, cleanup_plan={"register_in": target})
        if grow:
            # Examples rows added at run time (what behave.contrib.csv_table_from_file does, or table.add_row() in before_feature):
            # copies of existing rows; the added rows get line numbers that run into what follows the table in the file, so
            # DIFFERENT scenarios may share a location -- each of them is a scenario of its own for the summary
            from behave.model import ScenarioOutline as _SO

            def grow_tables(state, context, name, elem, tag):
                if name == "before_feature":
                    for x in elem.walk_scenarios(with_outlines=True):
                        if isinstance(x, _SO):
                            for ex in x.examples:
                                if ex.table is not None and ex.table.rows:
                                    for _ in range(3):
                                        ex.table.add_row(list(ex.table.rows[0].cells))
            kw.setdefault("hook_plugins", []).append(grow_tables)
            case = dict(case, examples_rows_added_in_before_feature=3)
            mon.seen("examples_tables", "rows_added_at_run_time")
        reps = []
        feats_abs = case["program"]["features"]
        if i % 5 == 2 and len(feats_abs) >= 2 and not case["program"].get("user_skip"):
            # two feature files with the same title (features/web/login.feature, features/api/login.feature): two features
            feats_abs[1]["name"] = feats_abs[0]["name"]
            mon.seen("feature_titles", "duplicate")
        else:
            mon.seen("feature_titles", "unique")
        if i % 7 == 5:
            # a progress summary printed by user code from a hook while the run is going on (public print_summary())
            def interim(state, context, name, elem, tag):
                if name == "after_feature" and reps:
                    reps[0].print_summary(stream=io.StringIO(), with_duration=False)
            kw.setdefault("hook_plugins", []).append(interim)
            mon.seen("interim_summary", "printed_from_after_feature")

        def reporters(config):
            v1 = SummaryReporterV1(config)
            v2 = SummaryReporterV2(config)
            v1.stream = io.StringIO()
            v2.stream = io.StringIO()
            reps[:] = [v1, v2]
            return reps
        obs = lab.run(case["program"], args=args, reporters=reporters, **kw)
        if obs.escaped is not None:
            mon.check("run.no_exception_escapes", False, lambda: RB.witness(case, escaped=repr(obs.escaped)))
            continue
        mon.check("reporter.format_from_userdata", reps[0].output_format == fmt, lambda: RB.witness(case, got=reps[0].output_format, want=fmt))
        check_run(lab, mon, case, obs, reps, fmt)
        RB.check_identity(mon, obs, case, prefix="census")
        if mode == 0 and not grow and not case["program"].get("user_skip") and i % 5 != 2:
            # independent of the statuses behave's model shows: what the summary counts is what the REFERENCE MODEL says every scenario
            # and every step (each scenario has step results of its own -- background copies included) ended as
            from ..ref import runmodel as _rm
            pred_ = _rm.predict(case["program"], case["cfg"])
            if not pred_.aborted and all(len(v) == 1 for v in pred_.scen_status.values()) and \
                    all(len(x) == 1 for v in pred_.step_status.values() for x in v):
                want_sc, want_st = {}, {}
                for v in pred_.scen_status.values():
                    k_ = next(iter(v))
                    want_sc[k_] = want_sc.get(k_, 0) + 1
                for v in pred_.step_status.values():
                    for x in v:
                        k_ = next(iter(x))
                        want_st[k_] = want_st.get(k_, 0) + 1
                got_sc = {k_: v_ for k_, v_ in reps[0].scenario_summary.items() if k_ != "all" and v_}
                got_st = {k_: v_ for k_, v_ in reps[0].step_summary.items() if k_ != "all" and v_}
                mon.check("reporter.counts_what_the_reference_model_says", got_sc == want_sc and got_st == want_st,
                          lambda: RB.witness(case, scenarios=got_sc, model_scenarios=want_sc, steps=got_st, model_steps=want_st))
        if i == 0:
            mon.sample({"features": RB.case_texts(case), "args": args, "census": census(lab, obs.features)[0]})
    for i in range(2 if tier == "quick" else 25):
        case = RB.gen_case(rng, gen={"outcomes": [o for o in OUTCOMES if o not in ("ki",)], "p_nonpass": 0.35, "max_features": 2}, p_stop=0.1, p_dry=0.0)
        subprocess_summary(mon, rng, case, which=("command_line", "configuration_file", "off")[(spec["shard"] + i) % 3])
    if spec["shard"] == 0:
        # behave's own acceptance features as workload: the probes of bvm.wild in every behave process they spawn
        from ..wild import run as wild
        wild.feed(mon, ID, spec.get("tier", "quick"))


def subprocess_summary(mon, rng, case, which="command_line"):
    """`python -m behave` with the reporters the Configuration builds itself (--junit on / off): the summary printed at the end
    counts the scenarios under the statuses the reference model gives them."""
    import re
    from ..lab.subproc import Project
    from ..ref import runmodel
    pred = runmodel.predict(case["program"], case["cfg"])
    if pred.aborted or any(len(v) != 1 for v in pred.scen_status.values()):
        return
    junit = which != "off"
    extra = ["--junit", "--junit-directory", "reports-junit"] if junit else []
    how = "command_line" if junit else "off"
    proj = Project(case["program"], {})
    try:
        if which == "configuration_file":
            with open(os.path.join(proj.root, "behave.ini"), "w") as fh:
                fh.write("[behave]\njunit = true\njunit_directory = reports-junit\n")
            extra, how = [], "configuration_file"
        # the formatter's outfile may be named '-' (standard output, the default spelled out)
        out_spelling = rng.choice([[], [], ["-o", "-"], ["--outfile=-"]])
        mon.seen("formatter_outfile", "dash_for_stdout" if out_spelling else "not_given")
        res = proj.run(case["args"] + extra + ["-f", "progress"] + out_spelling, environment=RB.pick_environment(rng, mon))
    finally:
        proj.close()
    if res.get("timeout"):
        mon.note("subprocess watchdog fired (inconclusive case)")
        return
    want = {}
    for v in pred.scen_status.values():
        st = next(iter(v))
        want[st] = want.get(st, 0) + 1
    got = None
    for line in res["stdout"].splitlines():
        if re.match(r"^\d+ scenarios? passed", line):
            got = {name: int(n) for n, name in re.findall(r"(\d+) (?:scenarios? )?(\w+)", line) if int(n)}
    mon.case(("sub-summary", RB.strip_case(case), how), True)
    mon.seen("junit_reporting", how)
    mon.check("process.summary_counts_scenarios_as_the_model", got == want,
              lambda: RB.witness(case, junit=how, got=got, want=want, stdout=res["stdout"][-600:], stderr=res["stderr"][-300:]))


def replay(case, mon):
    from ..lab.inproc import RunLab
    from behave.reporter.summary import SummaryReporterV1, SummaryReporterV2
    lab = RunLab()
    reps = []

    def reporters(config):
        v1, v2 = SummaryReporterV1(config), SummaryReporterV2(config)
        v1.stream, v2.stream = io.StringIO(), io.StringIO()
        reps[:] = [v1, v2]
        return reps
    obs = lab.run(case["program"], args=case["args"] + ["-D", "behave.reporter.summary.output_format=v2"],
                  reporters=reporters, hook_fault=case.get("hook_fault"))
    check_run(lab, mon, case, obs, reps, "v2")
    print(reps[0].stream.getvalue())


LEVEL_TEXT = ("Exploration: after each of thousands of real runs (all status classes incl. hook errors, cleanup errors, "
              "untested remainders, dry-run, rows inside rules) an independent census of the model is compared with the "
              "tables and the parsed printed text of both summary implementations in all five line formats, with the "
              "listed failing/errored scenarios, and the per-kind sums with the number of elements.")
LEVEL_NOTE = "Trusted: census walk and text parsers in this module; generated shapes."
TECHNIQUE = "runtime monitoring: conservation check (independent census vs reporter tables and parsed report text) over real runs; plus oracle-free invariant probes armed (sitecustomize) in every behave process that the repository's own acceptance features spawn"
