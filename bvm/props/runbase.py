"""Shared workload + checkers for the run-based properties (C01, C02, C03, C09, ...)."""
from __future__ import annotations

import random

from ..gen import tagexpr as T
from ..gen.prog import ProgGen, TAGS, iter_scenario_instances
from ..ref import runmodel

ERROR_CLASS = {"error", "hook_error", "cleanup_error", "undefined", "pending"}
PASSED_LIKE = {"passed", "pending_warn", "xfailed", "xpassed"}
UNTESTED_CLASS = {"untested", "untested_pending", "untested_undefined"}


# ---------------------------------------------------------------------------
# case generation
# ---------------------------------------------------------------------------

def random_expr(rng, tags=None):
    """Returns (ast, args) -- args are command-line arguments (--tags=...), in either dialect."""
    tags = tags or (TAGS + ["wip"])
    r = rng.random()
    if r < 0.25:
        return None, []
    if r < 0.55:
        # v1 CNF
        groups = []
        for _ in range(rng.choice([1, 1, 2])):
            g = []
            for t in rng.sample(tags, rng.choice([1, 1, 2])):
                g.append([rng.random() < 0.4, t])
            groups.append(g)
        ast = T.cnf_to_ast(groups)
        args = T.render_v1_groups(groups, lambda gi, ai: {"neg_char": rng.choice("-~"), "at": rng.random() < 0.5})
        if rng.random() < 0.2:
            # blanks beside the commas inside ONE argument (a quoted --tags="@a, -@b"): still one or-group
            args = [a.replace(",", rng.choice([", ", " , ", " ,"])) for a in args]
        return ast, ["--tags=%s" % a for a in args]
    if r < 0.62:
        # several --tags options, one of them a disjunction of parenthesised groups: "(a and b) or (c)" starts with '(' and ends
        # with ')' without being ONE group -- the options must still be and-ed as wholes
        x, y, z, v = [["lit", t] for t in rng.sample(tags, 4)]
        left = ["and", x, y] if rng.random() < 0.6 else x
        right = ["and", z, x] if rng.random() < 0.3 else z
        other = ["not", v] if rng.random() < 0.6 else v
        term = "(%s) or (%s)" % (T.render_v2(left, rng, "min", False), T.render_v2(right, rng, "min", False))
        parts = [term, T.render_v2(other, rng, "min", False)]
        if rng.random() < 0.5:
            parts.reverse()
            return ["and", other, ["or", left, right]], ["--tags=%s" % t for t in parts]
        return ["and", ["or", left, right], other], ["--tags=%s" % t for t in parts]
    ops = tags + [rng.choice(["?", "[ab]", "*", "[!a]", "w*"])]
    ast = T.random_tree(rng, ops, rng.choice([1, 1, 2]))
    if rng.random() < 0.3 and ast[0] == "and":
        return ast, ["--tags=%s" % x for x in T.render_v2_list(ast, rng, rng.choice(["min", "inner", "full", "redundant", "redundant"]), rng.random() < 0.5)]
    return ast, ["--tags=%s" % T.render_v2(ast, rng, rng.choice(["min", "full"]), rng.choice([True, False]))]


def pick_environment(rng, mon, choices=None):
    """The process environment of a `python -m behave` sample (bvm.lab.subproc.Project.ENVIRONMENTS): optimised interpreter, console /
    locale encodings, escalated warnings -- none of them is any business of the property."""
    # (not the C locale: there behave cannot write the programs' own non-ASCII step texts to its output streams at all)
    name = rng.choice(choices or ["plain", "plain", "optimized", "optimized_by_variable", "latin1_console", "warnings_as_errors_for_user_code"])
    mon.seen("process_environment", name)
    return name


def texts_under_several_keywords(program):
    """Step texts of scenarios that occur under more than one of Given / When / Then, with an id ending in 0 (typed definitions)."""
    seen = {}

    def visit(steps):
        for st in steps or []:
            if st["kw"] in ("Given", "When", "Then"):
                seen.setdefault(st["text"], set()).add(st["kw"])

    def items(c):
        for it in c["items"]:
            if it["kind"] == "rule":
                items(it)
            else:
                visit(it.get("steps"))
    for f in program["features"]:
        items(f)
    return sorted(t for t, k in seen.items() if len(k) >= 2 and t.split(" ")[0].endswith("0"))


def gen_case(rng, **opts):
    gen_opts = opts.pop("gen", {})
    pg = ProgGen(rng, **gen_opts)
    program = pg.program()
    ast, args = (None, [])
    if opts.get("tags", True):
        ast, args = random_expr(rng)
    cfg = {"tags": ast, "stop": False, "dry_run": False, "names": None, "cafs": False}
    if rng.random() < opts.get("p_stop", 0.25):
        cfg["stop"] = True
        args.append("--stop")
    if rng.random() < opts.get("p_dry", 0.12):
        cfg["dry_run"] = True
        if rng.random() < 0.3:
            # the other documented way into a dry run: --steps-catalog ("same as --format=steps.catalog --dry-run ..."), here
            # together with a formatter of the user's own
            args.extend(["--steps-catalog", "-f", "plain"])
        else:
            args.append("--dry-run")
    if rng.random() < opts.get("p_noskipped", 0.3):
        args.append("--no-skipped")
    if rng.random() < opts.get("p_verbose", 0.12):
        args.append("--verbose")
    if rng.random() < opts.get("p_names", 0.0):
        names = []
        insts = [i for f in program["features"] for i in iter_scenario_instances(f)]
        for _ in range(rng.choice([1, 1, 2]) if insts else 0):
            i = rng.choice(insts)
            names.append(rng.choice([i["name"].split(" ")[0], "S\\d*[02468]$", "O", "@1\\.1", "^F0", i["name"][:4],
                                     # patterns that pick single rows of an outline other than the first one
                                     "@\\d\\.2", "@\\d\\.[23]", "@2\\.1", "E2$"]))
        cfg["names"] = names or None
        args.extend("--name=%s" % n for n in names)
    if rng.random() < opts.get("p_user_skip", 0.0):
        # an environment.py that skips a whole feature / rule from its before-hook (documented runtime skipping)
        names = []
        for f in program["features"]:
            names.append(f["name"])
            names.extend(it["name"] for it in f["items"] if it["kind"] == "rule")
        program["user_skip"] = sorted(rng.sample(names, min(len(names), rng.choice([1, 1, 2]))))
    return {"program": program, "args": args, "cfg": cfg}


def strip_case(case):
    """JSON-friendly copy of a case (drops caches)."""
    prog = case["program"]
    feats = []
    for f in prog["features"]:
        feats.append({k: v for k, v in f.items() if k != "_text"})
    out = {"program": {"features": feats, "outcomes": prog["outcomes"]}, "args": case["args"], "cfg": case["cfg"]}
    if prog.get("user_skip"):
        out["program"]["user_skip"] = prog["user_skip"]
    for k in ("hook_fault", "cleanup_plan", "cafs", "fail_fast", "raising_cleanup", "rerun_file", "flip_show_skipped", "runtime_switch",
              "setup_logging_level", "log_habit", "file_filter", "capture_decorated_hooks", "env_without", "hooks_read_status", "row_name_schema", "nested", "locations"):
        if k in case:
            out[k] = case[k]
    return out


def case_texts(case):
    from ..gen.render import render_feature
    return [render_feature(f)[0] for f in case["program"]["features"]]


def nonpass_count(case):
    return sum(1 for v in case["program"]["outcomes"].values() if v != "pass")


# ---------------------------------------------------------------------------
# checkers
# ---------------------------------------------------------------------------

def witness(case, **kw):
    d = {"case": strip_case(case), "features": case_texts(case)}
    d.update(kw)
    return d


def check_identity(mon, obs, case, prefix="model"):
    """What is in the model after the run are the very objects that were executed (an outline must not hand out freshly built,
    untested row scenarios to reporters / formatters / user code that look at it after or during the run)."""
    mon.check(prefix + ".executed_objects_stay_in_the_model", not obs.replaced_after_run,
              lambda: witness(case, replaced=[list(x) for x in obs.replaced_after_run[:6]]))


def check_verdict(mon, case, obs, pred, prefix="verdict"):
    """C01: reported failure <=> something went wrong in the selected part."""
    mon.check(prefix + ".no_exception_escapes", obs.escaped is None, lambda: witness(case, escaped=repr(obs.escaped)))
    if obs.escaped is not None:
        return
    got = bool(obs.verdict)
    mon.check(prefix + ".matches_model", got in pred.verdict,
              lambda: witness(case, got=got, want=sorted(pred.verdict), calls=obs.calls, statuses=obs.elem_status))
    # structural cross-check on the observation alone
    any_bad = False
    for name, sts in obs.step_status.items():
        if any(s in ERROR_CLASS or s == "failed" for s in sts):
            any_bad = True
    aborted = bool(obs.runner.aborted)
    if not case["cfg"]["dry_run"]:
        mon.check(prefix + ".structural", got == (any_bad or aborted),
                  lambda: witness(case, got=got, any_bad_step=any_bad, aborted=aborted, step_status=obs.step_status))
    mon.seen("verdict", "failed" if got else "success")


def check_steps(mon, case, obs, pred, prefix="steps"):
    """C02: call order, outcome->status, stop after first non-pass, dry-run calls nothing."""
    cfg = case["cfg"]
    if cfg.get("cafs"):
        # only: order is a subsequence of document order, status mapping, nothing after skip
        want_order = []
        for f in case["program"]["features"]:
            for i in iter_scenario_instances(f):
                want_order.extend((i["name"], s["final"]) for s in i["steps"])
        it = iter(want_order)
        ok = all(any(c == w for w in it) for c in obs.calls)
        mon.check(prefix + ".cafs_order_subsequence", ok, lambda: witness(case, calls=obs.calls))
    else:
        mon.check(prefix + ".call_log", obs.calls == pred.calls,
                  lambda: witness(case, got=obs.calls, want=pred.calls))
    if cfg["dry_run"]:
        mon.check(prefix + ".dry_run_calls_nothing", not obs.calls, lambda: witness(case, calls=obs.calls))
    for name, want in pred.step_status.items():
        got = obs.step_status.get(name)
        if got is None:
            mon.check(prefix + ".scenario_present", False, lambda: witness(case, missing=name, have=sorted(obs.step_status)))
            continue
        ok = len(got) == len(want) and all(g in w for g, w in zip(got, want))
        mon.check(prefix + ".status_mapping", ok, lambda: witness(case, scenario=name, got=got, want=[sorted(w) for w in want]))
        for g in got:
            mon.seen("step_status", g)
    # the step type each step is looked up with: its own keyword's, And / But / * take over the type of the step before (a
    # Background that starts with '*' starts with a Given)
    for inst in pred.instances:
        want_types, prev = [], None
        for stp in inst["steps"]:
            kw = stp["kw"]
            if kw in ("Given", "When", "Then"):
                prev = kw.lower()
            elif stp.get("first_of_background"):
                prev = "given"
            want_types.append(prev)
        got_types = getattr(obs, "step_types", {}).get(inst["name"])
        if got_types is not None and None not in want_types:
            mon.check(prefix + ".step_types_follow_keywords", got_types == want_types,
                      lambda: witness(case, scenario=inst["name"], got=got_types, want=want_types))
    mon.check(prefix + ".same_scenarios", set(pred.step_status) == set(obs.step_status),
              lambda: witness(case, got=sorted(obs.step_status), want=sorted(pred.step_status)))


def check_selection(mon, case, obs, pred, prefix="select"):
    """C09: executed scenarios == scenarios whose effective tags satisfy the expression."""
    called = set(n for n, _ in obs.calls)
    hooked = set(e for (h, e, t) in obs.hooks if h in ("before_scenario", "after_scenario"))
    dry = case["cfg"]["dry_run"]
    for inst in pred.instances:
        name = inst["name"]
        sel = pred.selected[name]
        if not sel:
            mon.check(prefix + ".deselected_not_called", name not in called and name not in hooked,
                      lambda: witness(case, scenario=name, calls=obs.calls, hooks=obs.hooks[:40]))
            if pred.started.get(name) or True:
                sts = obs.step_status.get(name, [])
                st = obs.elem_status.get(name)
                if pred.started.get(name) or pred.scen_status[name] == {"skipped"}:
                    mon.check(prefix + ".deselected_reported_skipped", st == "skipped" and all(s == "skipped" for s in sts),
                              lambda: witness(case, scenario=name, status=st, steps=sts))
        else:
            if pred.started.get(name) and not dry:
                want_calls = [c for c in pred.calls if c[0] == name]
                if want_calls:
                    mon.check(prefix + ".selected_executed", name in called, lambda: witness(case, scenario=name, calls=obs.calls))
                mon.check(prefix + ".selected_hooks", name in hooked, lambda: witness(case, scenario=name, hooks=obs.hooks[:40]))
                st = obs.elem_status.get(name)
                mon.check(prefix + ".selected_status", st in pred.scen_status[name],
                          lambda: witness(case, scenario=name, got=st, want=sorted(pred.scen_status[name])))
    # containers: skipped iff nothing in them selected (non-empty containers, all children started)
    for f in case["program"]["features"]:
        check_container_skipped(mon, case, obs, pred, f, prefix)


def check_container_skipped(mon, case, obs, pred, node, prefix):
    insts = [i for i in pred.instances if node["name"] in i["path"] or i.get("outline") == node["name"]]
    if node["kind"] in ("feature", "rule"):
        for it in node["items"]:
            if it["kind"] in ("rule", "outline"):
                check_container_skipped(mon, case, obs, pred, it, prefix)
    if not insts:
        return
    if not all(pred.started.get(i["name"]) or pred.scen_status[i["name"]] == {"skipped"} for i in insts):
        return      # cut short by --stop / abort: C03 territory
    st = obs.elem_status.get(node["name"])
    anysel = any(pred.selected[i["name"]] for i in insts)
    if not anysel:
        mon.check(prefix + ".container_without_selected_is_skipped", st == "skipped",
                  lambda: witness(case, container=node["name"], status=st))
    else:
        passing_or_failing = any(pred.selected[i["name"]] and (pred.scen_status[i["name"]] & {"passed", "failed", "error"})
                                 and not (pred.scen_status[i["name"]] & {"skipped", "untested"}) for i in insts)
        if passing_or_failing:
            mon.check(prefix + ".container_with_selected_not_skipped", st != "skipped",
                      lambda: witness(case, container=node["name"], status=st))


# ---------------------------------------------------------------------------
# C03 invariants on live model objects
# ---------------------------------------------------------------------------

def rollup_checks(kind, st, ks, own_hook_failed, own_cleanup_failed=False, api_skipped=False, skip_called=False):
    """The C03 invariant as a pure function: yields (monitor, ok) for a container of *kind* with
    status *st* whose ACTUAL children have statuses *ks* (status names)."""
    if own_hook_failed:
        yield "own_hook_error", st == "hook_error"
        return
    if own_cleanup_failed and (api_skipped or skip_called):
        return      # both 'error' (assigned for the cleanup failure) and the status re-derived by skip() are admissible
    if own_cleanup_failed:
        # (a later skip() on an element that already ran re-derives its status from its contents -- that is what C03 states;
        #  the 'error' assigned for the cleanup failure is not a function of the contents and is not demanded to survive it)
        yield "own_cleanup_error", st == "error"
        return
    if not ks:
        return      # childless: out of scope
    if api_skipped and not any(k in ERROR_CLASS or k == "failed" for k in ks):
        # user code called .skip() on this element (public API) and nothing in it failed: it is skipped ("skip the remaining
        # parts"), or -- when skip() came after everything in it had passed -- still passed.  With a failed / error-class child
        # the ordinary rules below apply: what was executed keeps the status its contents give it.
        all_passed = all(k in ("passed", "pending_warn") for k in ks)
        yield "api_skipped_is_skipped_or_all_passed", st == "skipped" or (st == "passed" and all_passed)
        return
    has_err = any(k in ERROR_CLASS for k in ks)
    has_fail = any(k == "failed" for k in ks)
    if has_err and not has_fail and kind == "scenario" and \
            all(k in UNTESTED_CLASS or k == "undefined" for k in ks):
        # nothing was executed (dry-run) and the only error-class children are undefined steps: the two rules
        # "undefined inside makes it error" and "nothing executed is untested" collide -- either is accepted
        yield "dry_run_undefined_untested_or_error", st in ("untested", "error")
        return
    if has_err and not has_fail:
        yield "error_inside_makes_error", st == "error"
    elif has_fail and not has_err:
        yield "failed_inside_makes_failed", st == "failed"
    elif has_fail and has_err:
        yield "failed_or_error", st in ("failed", "error")
    else:
        if st == "skipped":
            yield "skipped_only_if_all_skipped", all(k == "skipped" for k in ks)
        if all(k == "skipped" for k in ks):
            yield "all_skipped_is_skipped", st == "skipped"
        if st in PASSED_LIKE:
            nonsk = [k for k in ks if k != "skipped"]
            yield "passed_only_if_all_nonskipped_passed", bool(nonsk) and all(k in PASSED_LIKE for k in nonsk)
        if all(k in UNTESTED_CLASS for k in ks):
            yield "nothing_executed_is_untested", st in UNTESTED_CLASS
        if any(k in UNTESTED_CLASS for k in ks):
            yield "never_passed_with_untested_child", st not in PASSED_LIKE
        if all(k in PASSED_LIKE or k == "skipped" for k in ks) and any(k in PASSED_LIKE for k in ks):
            yield "all_passed_is_passed", st == "passed"
        if not any(k in UNTESTED_CLASS for k in ks):
            # (a container cut short after some passed children -- [passed.., untested..] -- is only
            #  demanded to be "not passed, not skipped")
            yield "no_failure_without_cause", st not in ERROR_CLASS and st != "failed"


def check_rollup_live(mon, lab, obs, case=None, prefix="rollup", cleanup_failed=(), features=None, hook_failed_names=None):
    """Invariant over the ACTUAL children of every container after (or during) a run."""

    def sname(x):
        try:
            return x.status.name
        except Exception as ex:
            return "EXCEPTION %s" % type(ex).__name__

    def check_container(c, kind, children, own_hook_failed):
        st = sname(c)
        ks = [sname(x) for x in children]
        if hook_failed_names is not None and kind != "outline":
            # the harness knows whose hook it made raise (tag hooks belong to the element that carries the tag and is being
            # entered / left): that element -- and no other -- is the one with a failed hook of its own
            mon.check(prefix + ".hook_error_booked_on_the_element_whose_hook_raised",
                      bool(own_hook_failed) == (c.name in hook_failed_names),
                      lambda: dict(container=c.name, kind=kind, status=st, children=ks, behave_hook_failed=bool(own_hook_failed),
                                   hooks_made_to_raise_for=sorted(map(str, hook_failed_names)),
                                   case=(strip_case(case) if case else None), features=(case_texts(case) if case else None)))
            own_hook_failed = c.name in hook_failed_names
        mon.check(prefix + ".status_readable", not st.startswith("EXCEPTION"),
                  lambda: dict(container=c.name, kind=kind, status=st, children=ks))
        info = lambda: dict(container=c.name, kind=kind, status=st, children=ks, hook_failed=own_hook_failed,
                            case=(strip_case(case) if case else None),
                            features=(case_texts(case) if case else None))
        mon.seen("%s_status" % kind, st)
        mon.seen("child_set", "%s:%s" % (kind, ",".join(sorted(set(ks)))))
        api_skipped = kind == "scenario" and bool(getattr(c, "should_skip", False)) and \
            any(k not in ("skipped", "untested") for k in ks)
        if api_skipped:
            mon.count(prefix + ".api_skipped_scenarios")
        for name, ok in rollup_checks(kind, st, ks, own_hook_failed, c.name in cleanup_failed, api_skipped,
                                      skip_called=bool(getattr(c, "should_skip", False))):
            mon.check(prefix + "." + name, ok, info)

    def scen(s):
        steps = list(s.all_steps)
        check_container(s, "scenario", steps, s.hook_failed)

    def walk(c, kind):
        for it in c.run_items:
            if isinstance(it, lab.Rule):
                walk(it, "rule")
            elif isinstance(it, lab.ScenarioOutline):
                rows = list(it.scenarios)
                for s in rows:
                    scen(s)
                check_container(it, "outline", rows, False)
            else:
                scen(it)
        # what the element CONTAINS is what was parsed into it: every rule / scenario / outline of its parse-level lists is one of
        # the items that run (by identity -- two rules may have the same title)
        parsed = list(getattr(c, "rules", None) or []) + list(getattr(c, "scenarios", None) or [])
        missing = [x for x in parsed if not any(x is y for y in c.run_items)]
        mon.check(prefix + ".everything_parsed_into_the_element_is_among_its_run_items", not missing,
                  lambda: dict(container=c.name, kind=kind, parsed=[(type(x).__name__, x.name, x.line) for x in parsed],
                               run_items=[(type(x).__name__, x.name, x.line) for x in c.run_items],
                               features=(case_texts(case) if case else None)))
        check_container(c, kind, list(c.run_items), c.hook_failed)

    for f in (features if features is not None else obs.features):
        walk(f, "feature")
