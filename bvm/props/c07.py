"""C07 -- v2 tag expressions mean their Boolean formula; printing preserves meaning.

Oracle: formula AST evaluated by an independent evaluator (own glob matcher) over ALL subsets of
a 7-tag universe (complete truth table, 128 rows) vs. what behave's parsed object answers.
"""
from __future__ import annotations

import random
import re
import sys

from ..gen import tagexpr as T

ID = "C07"
LEVEL = "exploration"
UNIVERSE = ["a", "b", "a.b", "x-y", "k=v", "A", "ab", "a,b"]      # (a tag may contain a comma: "a,b" is ONE tag, not a and b)
OPERANDS = ["a", "b", "a.b", "x-y", "k=v", "A", "a*", "?.b", "[ab]"]
OPERANDS_SMALL = ["a", "a*", "x-y"]
RANDOM_OPERANDS = OPERANDS + ["*", "*.b", "[!a]", "a?", "k=*", "[a-b]*", "ab", "not_a", "and_b", "oreo",
                              # fnmatch classes are negated by '!' only: a leading '^' is a member of the class
                              "[^a]", "[^b]*", "a[^x]b",
                              # one star in the middle whose prefix ends with what the suffix begins with: "a.*.b" needs two dots, "x-*-y" two dashes
                              "a.*.b", "x-*-y", "a*ab"]
RULE = ("expression trees over operands %s: exhaustive up to a leaf/depth bound (quick: <=2 leaves, thorough: <=3 "
        "leaves over 9 operands and <=4 leaves over 3 operands) plus random n-ary trees to depth 4; each rendered "
        "min/full/@-prefixed/redundant-parentheses-and-blanks/list-of-terms; each compared on the complete truth "
        "table over all 128 subsets of %s. A case = (tree, rendering); non-trivial = tree has at least one operator; "
        "distinct by hash of (tree, rendered text)." % (OPERANDS, UNIVERSE))
ASSUMPTIONS = [
    "tags contain no blanks (parentheses and backslashes: only in the 'needs_escape' name class, written escaped)",
    "the reference evaluator and glob matcher in bvm/gen/tagexpr.py are correct (they share no code with behave)",
    "third-party cucumber_tag_expressions is part of the executed system (as installed in /venv)",
]
REQUIRED = {"v2.meaning": {"quick": 3000, "thorough": 100000}, "v2.print_roundtrip": {"quick": 3000, "thorough": 100000},
            "v2.config_substitution": 100, "v2.empty_selects_all": 3, "v2.list_form": 300, "v2.wip_adds_wip_term": 100, "v2.config_file_tags": 100, "v2.meaning_for_special_tag_names": 400, "v2.list_form_default_protocol": 500, "v2.meaning_for_any_iterable_of_tags": 1000}
REQUIRED_SEEN = {"terms_given_as": ["list", "tuple"], "tags_help_stdout": ["terminal"], "command_line_string": ["with_backslash", "without_backslash"], "protocol_given_by": ["name_in_the_file", "keyword"], "tag_name_class": ["compatibility_characters", "needs_escape"], "list_terms_shape": ["same_words_other_parentheses"], "console_encoding": ["cp1252", "latin-1", "cp850", "ascii", "utf-8"],
                 "tags_given_as": ["generator", "iter", "map", "tuple", "frozenset", "dict_keys", "reversed"], "default_protocol_list_shape": ["only_single_tags"], "config_list_shape": ["placeholder_after_plain_part", "other"], "config_file_kind": ["toml", "ini"], "config_file_tag_names": ["with_hash_character", "ordinary"],
                 "config_file_mode": ["none", "plain", "placeholder", "placeholder_and_plain", "wip"]}
EXHAUSTIVE = {"quick": True, "thorough": True}
EXHAUSTIVE_SCOPE = "all binary and/or/not trees up to the leaf bound over the operand set, complete truth tables"

SUBSETS = list(T.subsets(UNIVERSE))
NSHARDS = {"quick": 8, "thorough": 16}


def plan(tier, seed):
    n = NSHARDS[tier]
    return [{"shard": i, "of": n, "seed": seed * 1000 + i} for i in range(n)]


def classify(name, w):
    """Known finding (DESIGN section 3): under AUTO_DETECT configured tags that are several plain single tags are an old-style
    expression, whose text form cannot stand for it behind the {config.tags} placeholder."""
    if name == "v2.config_file_tags" and isinstance(w, dict):
        case = w.get("case") or {}
        content = case.get("content") or ""
        cfg = w.get("config_tags")
        if cfg is None:
            # (the run ended in an error: read the configured terms off the file content)
            m = re.search(r'^tags = \[(.*)\]$', content, re.M)
            if m:
                cfg = [t.strip().strip('"') for t in m.group(1).split(",")]
            else:
                m = re.search(r"^tags = (.*(?:\n[ \t]+.*)*)", content, re.M)
                cfg = [t.strip() for t in m.group(1).split("\n")] if m else None
        if re.search(r'tag_expression_protocol = "?auto_detect', content) and any("{config.tags}" in a for a in case.get("args") or []) \
                and isinstance(cfg, (list, tuple)) and len(cfg) >= 2 and all(re.match(r"^@?[^\s()@]+$", t) and t.lstrip("@") not in ("and", "or", "not") for t in cfg):
            return "config-tags-placeholder-with-several-plain-terms-under-autodetect"
    return name


class Lab(object):
    def __init__(self):
        from behave.tag_expression import make_tag_expression, TagExpressionProtocol
        self.make = make_tag_expression
        self.P = TagExpressionProtocol
        self.cache = {}

    def table(self, text_or_list, protocol=None):
        key = repr(text_or_list) + (protocol.name if protocol else "V2")
        if key not in self.cache:
            if len(self.cache) > 200000:
                self.cache.clear()
            e = self.make(text_or_list, protocol or self.P.V2)
            self.cache[key] = (T.truth_table_of(e.check, SUBSETS), e)
        return self.cache[key]


def check_tree(lab, mon, ast, rng, styles):
    want = T.truth_table(ast, SUBSETS)
    nontrivial = T.depth(ast) >= 1
    for style, at in styles:
        text = T.render_v2(ast, rng, style, at)
        case = {"kind": "tree", "ast": ast, "text": text}
        mon.case(case, nontrivial)
        try:
            got, e = lab.table(text)
        except Exception as ex:  # a well-formed rendering must parse
            mon.check("v2.meaning", False, dict(case=case, error=repr(ex)))
            continue
        mon.check("v2.meaning", got == want, lambda: dict(case=case, want=want, got=got, parsed=repr(e)))
        for how in ("str", "pretty", "plain"):
            printed = str(e) if how == "str" else e.to_string(pretty=(how == "pretty"))
            try:
                got2, _ = lab.table(printed)
                ok = got2 == want
                err = None
            except Exception as ex:
                ok, got2, err = False, None, repr(ex)
            mon.check("v2.print_roundtrip", ok,
                      lambda: dict(case=case, printed=printed, how=how, want=want, got=got2, error=err))
        mon.seen("style", "%s/%s" % (style, at))
    # parentheses need no blanks around them: "not(a or b)", "(a)or(b)", "a and(b)"
    if nontrivial:
        import re as _re
        base = T.render_v2(ast, rng, rng.choice(["full", "redundant", "min"]), rng.choice([True, False]))
        tight = _re.sub(r"\s*\)\s*", ")", _re.sub(r"\s*\(\s*", "(", base))
        if tight != base and "(" in tight:
            case = {"kind": "tree", "ast": ast, "text": tight}
            mon.case(case, True)
            try:
                got, e = lab.table(tight)
                mon.check("v2.meaning", got == want, lambda: dict(case=case, want=want, got=got, parsed=repr(e), rendering="no blanks around parentheses"))
            except Exception as ex:
                mon.check("v2.meaning", False, dict(case=case, error=repr(ex), rendering="no blanks around parentheses"))
            mon.seen("style", "tight_parentheses")
    # the tags may be handed over as ANY iterable (evaluate() documents Iterable[str]): one-shot iterators included
    if nontrivial and rng.random() < 0.5:
        text = T.render_v2(ast, rng, "min", False)
        try:
            e = lab.make(text, lab.P.V2)
            for tags in rng.sample(SUBSETS, 6):
                tags = list(tags)
                want1 = T.evaluate(ast, set(tags))
                forms = {"generator": (t for t in tags), "iter": iter(tags), "map": map(str, tags), "tuple": tuple(tags),
                         "frozenset": frozenset(tags), "dict_keys": dict.fromkeys(tags).keys(), "reversed": reversed(tags)}
                which = rng.choice(sorted(forms))
                call = rng.choice(["check", "evaluate", "call"])
                got1 = e.check(forms[which]) if call == "check" else (e.evaluate(forms[which]) if call == "evaluate" else e(forms[which]))
                mon.check("v2.meaning_for_any_iterable_of_tags", bool(got1) == want1,
                          lambda: dict(ast=ast, text=text, tags=tags, tags_given_as=which, via=call, got=got1, want=want1))
                mon.seen("tags_given_as", which)
        except Exception as ex:
            mon.check("v2.meaning_for_any_iterable_of_tags", False, dict(ast=ast, text=text, error=repr(ex)))
    # list-of-terms form
    parts = T.render_v2_list(ast, rng, "min", False)
    if len(parts) > 1:
        case = {"kind": "list", "ast": ast, "text": parts}
        mon.case(case, True)
        try:
            got, e = lab.table(parts)
            mon.check("v2.list_form", got == want, lambda: dict(case=case, want=want, got=got, parsed=repr(e)))
        except Exception as ex:
            mon.check("v2.list_form", False, dict(case=case, error=repr(ex)))


TEMPLATES = [
    ("{c} and %s", lambda c, r: ["and", c, r]),
    ("%s or {c}", lambda c, r: ["or", r, c]),
    ("not {c}", lambda c, r: ["not", c]),
    ("%s and not {c}", lambda c, r: ["and", r, ["not", c]]),
    ("not {c} or %s", lambda c, r: ["or", ["not", c], r]),
]


def check_config(lab, mon, cfg_ast, rest_ast, rng, tmpl_index, as_list):
    from behave.configuration import Configuration
    tmpl, build = TEMPLATES[tmpl_index]
    cfg_text = T.render_v2(cfg_ast, rng, "min", rng.choice([True, False]))
    rest_text = T.render_v2(rest_ast, rng, "full", False)
    tags_text = (tmpl % rest_text if "%s" in tmpl else tmpl).replace("{c}", "{config.tags}")
    want_ast = build(cfg_ast, rest_ast)
    want = T.truth_table(want_ast, SUBSETS)
    parts = None
    if as_list == "multi":
        # several --tags options: parts without the placeholder before / between / after parts that use it
        parts = [(tags_text, want_ast)]
        for _ in range(rng.randint(1, 2)):
            extra = T.random_tree(rng, OPERANDS, rng.choice([0, 1, 2]), nary=True)
            parts.insert(rng.randrange(len(parts) + 1), (T.render_v2(extra, rng, "full", False), extra))
        if rng.random() < 0.5:
            parts.insert(rng.randrange(len(parts) + 1), ("{config.tags}", cfg_ast))
        want_ast = ["and"] + [a for _t, a in parts]
        want = T.truth_table(want_ast, SUBSETS)
        mon.seen("config_list_shape", "placeholder_after_plain_part"
                 if any("{config.tags}" in t for t, _a in parts[1:]) and "{config.tags}" not in parts[0][0] else "other")
    case = {"kind": "config", "config_tags": cfg_text, "tags": [t for t, _a in parts] if parts else tags_text, "as_list": as_list}
    mon.case(case, True)
    saved = getattr(lab.P, "_current", None)
    try:
        config = Configuration([], load_config=False, tag_expression_protocol=lab.P.V2)
        config.config_tags = [cfg_text] if as_list else cfg_text
        config.tags = [t for t, _a in parts] if parts else ([tags_text] if as_list else tags_text)
        config.setup_tag_expression()
        got = T.truth_table_of(config.tag_expression.check, SUBSETS)
        mon.check("v2.config_substitution", got == want,
                  lambda: dict(case=case, want=want, got=got, final=str(config.tag_expression)))
    except Exception as ex:
        mon.check("v2.config_substitution", False, dict(case=case, error=repr(ex)))
    finally:
        if saved is None:
            if hasattr(lab.P, "_current"):
                try:
                    delattr(lab.P, "_current")
                except Exception:
                    lab.P.use(lab.P.DEFAULT)
        else:
            lab.P.use(saved)

WIP_UNIVERSE = ["a", "b", "wip", "wip.x", "x-y"]
WIP_SUBSETS = list(T.subsets(WIP_UNIVERSE))


def check_wip(lab, mon, rng):
    """--wip and-s the term @wip to whatever --tags says -- also when the --tags terms themselves mention @wip / @wip.x."""
    from behave.configuration import Configuration
    ast = T.random_tree(rng, ["a", "b", "wip", "wip.x", "x-y", "wip*"], rng.choice([0, 1, 2]), nary=True)
    as_list = ast[0] == "and" and rng.random() < 0.4
    texts = T.render_v2_list(ast, rng, "inner", True) if as_list else [T.render_v2(ast, rng, rng.choice(["min", "full"]), True)]
    want = T.truth_table(["and", ast, ["lit", "wip"]], WIP_SUBSETS)
    case = {"kind": "wip", "tags": texts}
    mon.case(case, True)
    saved = getattr(lab.P, "_current", None)
    try:
        config = Configuration(["--wip"] + ["--tags=%s" % t for t in texts], load_config=False, tag_expression_protocol=lab.P.V2)
        got = T.truth_table_of(config.tag_expression.check, WIP_SUBSETS)
        mon.check("v2.wip_adds_wip_term", got == want, lambda: dict(case=case, want=want, got=got, final=str(config.tag_expression)))
    except Exception as ex:
        mon.check("v2.wip_adds_wip_term", False, dict(case=case, error=repr(ex)))
    finally:
        if saved is None:
            if hasattr(lab.P, "_current"):
                try:
                    delattr(lab.P, "_current")
                except Exception:
                    lab.P.use(lab.P.DEFAULT)
        else:
            lab.P.use(saved)

U_PUNCT = ["a", "b", "r~1", "x-y", "k=v", "c~d"]
SUBSETS_PUNCT = list(T.subsets(U_PUNCT))


def check_default_protocol_lists(lab, mon, rng):
    """Several --tags options under the DEFAULT protocol setting (nothing configured): every term is a new-style expression --
    possibly just one tag, whose name may contain '~', '-' or '=' -- and the terms are and-ed."""
    terms = []
    for _ in range(rng.choice([2, 2, 3])):
        if rng.random() < 0.7:
            terms.append(["lit", rng.choice(U_PUNCT)])
        else:
            terms.append(T.random_tree(rng, U_PUNCT, 1))
    texts = [T.render_v2(t, rng, "min", rng.choice([True, False])) for t in terms]
    ast = ["and"] + terms
    want = T.truth_table(ast, SUBSETS_PUNCT)
    for proto in (None, lab.P.V2):
        case = {"kind": "list-default-protocol", "text": texts, "protocol": proto.name if proto else "default (auto_detect)"}
        mon.case(case, True)
        try:
            # (the terms arrive as a list from the command line; API callers -- Configuration(tags=...), environment.py -- may hand
            #  over a tuple just as well)
            seq = list(texts) if rng.random() < 0.5 else tuple(texts)
            mon.seen("terms_given_as", type(seq).__name__)
            e = lab.make(seq) if proto is None else lab.make(seq, proto)
            got = T.truth_table_of(e.check, SUBSETS_PUNCT)
            mon.check("v2.list_form_default_protocol", got == want, lambda: dict(case=case, want=want, got=got, parsed=repr(e)))
            if all(t[0] == "lit" for t in terms):
                mon.seen("default_protocol_list_shape", "only_single_tags")
        except Exception as ex:
            mon.check("v2.list_form_default_protocol", False, dict(case=case, error=repr(ex)))


def check_string_command_line(lab, mon, rng):
    """The command line handed over as ONE string (Configuration("..."), behave.__main__.main("...")): shell-style quoting keeps an
    expression with blanks together -- whatever else the string contains (a Windows path in a -D definition, ...)."""
    from behave.configuration import Configuration
    ast = T.random_tree(rng, OPERANDS, rng.choice([1, 2]), nary=True)
    text = T.render_v2(ast, rng, rng.choice(["min", "full"]), rng.choice([True, False]))
    if "'" in text or '"' in text or "\\" in text:
        return
    q = rng.choice(["'", '"'])
    spelling = rng.choice(["--tags=%s%s%s", "--tags %s%s%s", "-t %s%s%s"]) % (q, text, q)
    extras = rng.sample(["-D 'outdir=C:\\temp\\reports'", "-D name=value", "--no-color", "-D \"pattern=\\d+\"", "--no-summary"], rng.randint(0, 2))
    parts = extras + [spelling]
    rng.shuffle(parts)
    line = " ".join(parts)
    want = T.truth_table(ast, SUBSETS)
    case = {"kind": "command-line-as-one-string", "ast": ast, "text": line}
    mon.case(case, True)
    mon.seen("command_line_string", "with_backslash" if "\\" in line else "without_backslash")
    saved = getattr(lab.P, "_current", None)
    try:
        c = Configuration(line, load_config=False, tag_expression_protocol=lab.P.V2)
        got = T.truth_table_of(c.tag_expression.check, SUBSETS)
        mon.check("v2.command_line_as_one_string", got == want, lambda: dict(case=case, want=want, got=got, parsed=repr(c.tag_expression), tags=c.tags))
    except BaseException as ex:
        mon.check("v2.command_line_as_one_string", False, dict(case=case, error=repr(ex)))
    finally:
        if saved is None:
            if hasattr(lab.P, "_current"):
                try:
                    delattr(lab.P, "_current")
                except Exception:
                    lab.P.use(lab.P.DEFAULT)
        else:
            lab.P.use(saved)


def tags_help_on_a_terminal(lab, mon, rng):
    """`behave --tags=... --tags-help` prints the expression in force; with stdout a TERMINAL of any width (a pty), or a pipe, the printed
    text parsed again means the same formula (dashed tag names, long expressions)."""
    import os
    import pty
    import fcntl
    import termios
    import struct
    import subprocess
    import tempfile
    import shutil
    from .. import core
    names = ["known-issue", "slow-running-test", "x-y", "a", "not-yet-implemented", "k=v"]
    ast = T.random_tree(rng, names, rng.choice([2, 3]), nary=True)
    text = T.render_v2(ast, rng, "full", rng.choice([True, False]))
    cols = rng.choice([None, 40, 48, 56, 64, 80])
    root = tempfile.mkdtemp(prefix="bvm-c07-help-")
    master = slave = None
    try:
        env = {"PATH": os.environ.get("PATH", "/usr/bin:/bin"), "HOME": root, "PYTHONPATH": core.REPO, "PYTHONIOENCODING": "utf-8", "LANG": "C.UTF-8"}
        cmd = [sys.executable, "-m", "behave", "--tags=%s" % text, "--tags-help"]
        if cols is None:
            p = subprocess.run(cmd, cwd=root, env=env, capture_output=True, timeout=60, stdin=subprocess.DEVNULL)
            out = p.stdout.decode("utf-8", "replace")
        else:
            master, slave = pty.openpty()
            fcntl.ioctl(slave, termios.TIOCSWINSZ, struct.pack("HHHH", 24, cols, 0, 0))
            proc = subprocess.Popen(cmd, cwd=root, env=env, stdout=slave, stderr=subprocess.DEVNULL, stdin=subprocess.DEVNULL)
            os.close(slave)
            slave = None
            chunks = []
            while True:
                try:
                    data = os.read(master, 65536)
                except OSError:
                    break
                if not data:
                    break
                chunks.append(data)
            proc.wait(timeout=60)
            out = b"".join(chunks).decode("utf-8", "replace").replace("\r\n", "\n")
    except Exception as ex:
        mon.note("tags-help subprocess failed: %r (inconclusive case)" % (ex,))
        return
    finally:
        for fd in (master, slave):
            if fd is not None:
                try:
                    os.close(fd)
                except OSError:
                    pass
        shutil.rmtree(root, ignore_errors=True)
    case = {"kind": "tags-help", "text": text, "terminal_columns": cols}
    mon.case(case, True)
    mon.seen("tags_help_stdout", "pipe" if cols is None else "terminal")
    marker = "CURRENT TAG_EXPRESSION:"
    if marker not in out:
        mon.check("v2.print_roundtrip", False, dict(case=case, error="no %r line in the output" % marker, output=out[-300:]))
        return
    shown = out.split(marker, 1)[1]
    shown = shown.split("\n  means:", 1)[0].strip()
    want = T.truth_table(ast, T.subsets(names) if False else list(T.subsets(names)))
    try:
        e2 = lab.make(shown, lab.P.V2)
        got = T.truth_table_of(e2.check, list(T.subsets(names)))
        mon.check("v2.print_roundtrip", got == want, lambda: dict(case=case, printed=shown, got=got, want=want))
    except Exception as ex:
        mon.check("v2.print_roundtrip", False, dict(case=case, printed=shown, error=repr(ex)))


def check_lookalike_terms(lab, mon, rng):
    """Several --tags terms that consist of the same words and differ only in their parentheses are DIFFERENT terms."""
    x, y, z = rng.sample(["a", "b", "a.b", "x-y", "k=v", "A"], 3)
    L = lambda t: ["lit", t]
    pairs = [("not %s or %s" % (x, y), ["or", ["not", L(x)], L(y)], "not (%s or %s)" % (x, y), ["not", ["or", L(x), L(y)]]),
             ("%s and %s or %s" % (x, y, z), ["or", ["and", L(x), L(y)], L(z)], "%s and (%s or %s)" % (x, y, z), ["and", L(x), ["or", L(y), L(z)]]),
             ("(%s or %s) and %s" % (x, y, z), ["and", ["or", L(x), L(y)], L(z)], "%s or %s and %s" % (x, y, z), ["or", L(x), ["and", L(y), L(z)]]),
             ("not %s and %s" % (x, y), ["and", ["not", L(x)], L(y)], "not (%s and %s)" % (x, y), ["not", ["and", L(x), L(y)]])]
    t1, a1, t2, a2 = rng.choice(pairs)
    if rng.random() < 0.5:
        t1, a1, t2, a2 = t2, a2, t1, a1
    at = rng.random() < 0.5
    texts = [t.replace(x, "@" + x, 1) if at else t for t in (t1, t2)]
    ast = ["and", a1, a2]
    want = T.truth_table(ast, SUBSETS)
    case = {"kind": "list", "ast": ast, "text": texts}
    mon.case(case, True)
    try:
        got, e = lab.table(texts)
        mon.check("v2.list_form", got == want, lambda: dict(case=case, want=want, got=got, parsed=repr(e), note="terms with the same words, other parentheses"))
    except Exception as ex:
        mon.check("v2.list_form", False, dict(case=case, error=repr(ex)))
    mon.seen("list_terms_shape", "same_words_other_parentheses")


class _LegacyConsole(object):
    """Stands in for sys.stdout on a console with a legacy 8-bit encoding."""
    def __init__(self, encoding):
        self.encoding = encoding
        self.errors = "strict"

    def write(self, s):
        return len(s)

    def flush(self):
        pass

    def isatty(self):
        return False


def check_print_on_legacy_console(lab, mon, rng):
    """Printing preserves meaning whatever the console is: tag names outside the console's code page included."""
    import sys
    names = ["\u65e5\u672c", "wip_\u0436", "a", "\u03a9mega", "b"]
    subs = list(T.subsets(names + ["ab", "xy"]))
    ast = T.random_tree(rng, names, rng.choice([1, 2]))
    text = T.render_v2(ast, rng, "full", rng.choice([True, False]))
    want = T.truth_table(ast, subs)
    enc = rng.choice(["cp1252", "latin-1", "cp850", "ascii", "utf-8"])
    saved = sys.stdout
    case = {"kind": "print-on-console", "ast": ast, "text": text, "console_encoding": enc}
    mon.case(case, True)
    try:
        e = lab.make(text, lab.P.V2)
        sys.stdout = _LegacyConsole(enc)
        try:
            printed = [str(e), e.to_string(), e.to_string(pretty=True), e.to_string(pretty=False)]
        finally:
            sys.stdout = saved
        for pr in printed:
            e2 = lab.make(pr, lab.P.V2)
            got = T.truth_table_of(e2.check, subs)
            mon.check("v2.print_roundtrip", got == want, lambda: dict(case=case, printed=pr, want=want, got=got))
    except Exception as ex:
        sys.stdout = saved
        mon.check("v2.print_roundtrip", False, dict(case=case, error=repr(ex)))
    mon.seen("console_encoding", enc)


NAME_CLASSES = {
    # names that text normalisation would change: MICRO SIGN / GREEK MU, SUPERSCRIPT TWO / 2, decomposed / composed accent, ANGSTROM SIGN / A-ring
    "compatibility_characters": [u"\u00b5s", u"\u03bcs", u"m\u00b2", u"m2", u"Cafe\u0301", u"Caf\u00e9", u"\u212b", u"\u00c5"],
    # names that have to be escaped in an expression (legal tags in a feature file: @browser(chrome))
    "needs_escape": [u"browser(chrome)", u"p(1)", u"a\\b", u"browser", u"chrome)", u"(x"],
}


def escaped(name):
    return name.replace("\\", "\\\\").replace("(", "\\(").replace(")", "\\)")


def check_name_class(lab, mon, rng, label, protocol=None, monitor="v2.meaning_for_special_tag_names"):
    """Operands from a class of unusual tag names: the expression is written over placeholders, then every placeholder is replaced by
    the (escaped) name; complete truth table over all subsets of that class."""
    names = NAME_CLASSES[label]
    subs = list(T.subsets(names))
    stand_ins = ["Q%d" % i for i in range(len(names))]
    while True:
        tree = T.random_tree(rng, stand_ins, rng.choice([1, 2, 2]), nary=True)
        if tree[0] != "lit":
            break

    def real(t):
        if t[0] == "lit":
            return ["lit", names[int(t[1][1:])]]
        return [t[0]] + [real(x) for x in t[1:]]
    ast = real(tree)
    at = rng.choice([True, False])
    text = T.render_v2(tree, rng, rng.choice(["min", "full", "redundant"]), at)
    for i in reversed(range(len(names))):
        text = text.replace("Q%d" % i, escaped(names[i]))
    want = T.truth_table(ast, subs)
    case = {"kind": "special-names", "class": label, "text": text, "ast": ast}
    mon.case(case, True)
    mon.seen("tag_name_class", label)
    try:
        e = lab.make(text, protocol or lab.P.V2)
        got = T.truth_table_of(e.check, subs)
        mon.check(monitor, got == want, lambda: dict(case=case, want=want, got=got, parsed=repr(e), printed=str(e)))
        e2 = lab.make(str(e), protocol or lab.P.V2)
        got2 = T.truth_table_of(e2.check, subs)
        mon.check(monitor, got2 == want, lambda: dict(case=case, want=want, got_after_print_and_reparse=got2, printed=str(e)))
    except Exception as ex:
        mon.check(monitor, False, dict(case=case, error=repr(ex)))


HASH_UNIVERSE = ["c#", "f#", "issue#12", "smoke", "c", "issue"]
HASH_SUBSETS = list(T.subsets(HASH_UNIVERSE))


def check_config_files(lab, mon, rng, hash_names=False, directed=False):
    """Tags written into a configuration file (behave.ini / setup.cfg / pyproject.toml): without --tags they are the
    expression; with --tags the command line is the expression and {config.tags} in it stands for the file's tags."""
    import os
    import shutil
    import tempfile
    from behave.configuration import Configuration
    saved = getattr(lab.P, "_current", None)
    cwd, home = os.getcwd(), os.environ.get("HOME")
    root = tempfile.mkdtemp(prefix="bvm-c07-")
    try:
        os.makedirs(os.path.join(root, "home"))
        os.makedirs(os.path.join(root, "work"))
        os.environ["HOME"] = os.path.join(root, "home")
        os.chdir(os.path.join(root, "work"))
        operands = HASH_UNIVERSE if hash_names else OPERANDS      # (issue-reference style names: a '#' is an ordinary tag character)
        cfg_terms = [T.random_tree(rng, operands, rng.choice([1, 1, 2]), nary=True) for _ in range(rng.choice([1, 1, 2]))]
        cfg_texts = [T.render_v2(t, rng, "full", rng.choice([True, False])) for t in cfg_terms]
        if directed:
            # the most common configuration: a few plain tags, one per line, and-ed
            cfg_terms = [["lit", t] for t in rng.sample(["a", "b", "A", "ab"], 2)]
            cfg_texts = ["@" + t[1] for t in cfg_terms]
        cfg_ast = ["and"] + cfg_terms if len(cfg_terms) > 1 else cfg_terms[0]
        kind = rng.choice(["behave.ini", "setup.cfg", "pyproject.toml", "pyproject.toml"])
        if kind == "pyproject.toml":
            body = "[tool.behave]\ntags = [%s]\n" % ", ".join('"%s"' % t for t in cfg_texts)
        else:
            body = "[behave]\ntags = %s\n" % "\n    ".join(cfg_texts)
        # the dialect is given as a Configuration keyword -- or NAMED in the file (v2 / strict / auto_detect all read new-style text
        # with its own meaning)
        proto_name = rng.choice([None, None, "v2", "auto_detect", "strict", "V2"]) if not directed else "auto_detect"
        if proto_name:
            body += ('tag_expression_protocol = "%s"\n' if kind == "pyproject.toml" else "tag_expression_protocol = %s\n") % proto_name
        mon.seen("protocol_given_by", "name_in_the_file" if proto_name else "keyword")
        with open(kind, "w") as fh:
            fh.write(body)
        mode = rng.choice(["none", "plain", "placeholder", "placeholder_and_plain", "wip"]) if not directed else "placeholder_and_plain"
        rest = T.random_tree(rng, operands, rng.choice([1, 2]), nary=True)
        rest_text = T.render_v2(rest, rng, "full", False)
        if mode == "none":
            args, want_ast = [], cfg_ast
        elif mode == "plain":
            args, want_ast = ["--tags=" + rest_text], rest
        elif mode == "placeholder":
            args, want_ast = ["--tags={config.tags} and " + rest_text], ["and", cfg_ast, rest]
        elif mode == "placeholder_and_plain":
            args, want_ast = ["--tags=" + rest_text, "--tags={config.tags}"], ["and", rest, cfg_ast]
        else:
            args, want_ast = ["--wip", "--tags=" + rest_text], ["and", rest, ["lit", "wip"]]
        subs = WIP_SUBSETS if mode == "wip" else (HASH_SUBSETS if hash_names else SUBSETS)
        mon.seen("config_file_tag_names", "with_hash_character" if hash_names else "ordinary")
        if mode == "wip":
            # (operands outside the small wip universe evaluate over it all the same)
            pass
        want = T.truth_table(want_ast, subs)
        case = {"kind": "config-file", "file": kind, "content": body, "args": args}
        mon.case(case, True)
        mon.seen("config_file_kind", "toml" if kind.endswith(".toml") else "ini")
        mon.seen("config_file_mode", mode)
        try:
            c = Configuration(list(args), tag_expression_protocol=lab.P.V2) if not proto_name else Configuration(list(args))
            got = T.truth_table_of(c.tag_expression.check, subs)
            mon.check("v2.config_file_tags", got == want,
                      lambda: dict(case=case, want=want, got=got, final=str(c.tag_expression), config_tags=c.config_tags, tags=c.tags))
        except Exception as ex:
            mon.check("v2.config_file_tags", False, dict(case=case, error=repr(ex)))
    finally:
        os.chdir(cwd)
        if home is None:
            os.environ.pop("HOME", None)
        else:
            os.environ["HOME"] = home
        shutil.rmtree(root, ignore_errors=True)
        if saved is None:
            if "_current" in lab.P.__dict__:
                try:
                    type.__delattr__(lab.P, "_current")
                except Exception:
                    lab.P.use(lab.P.DEFAULT)
        else:
            lab.P.use(saved)


def check_word_named_tags(lab, mon):
    """Tags whose NAME is a word the implementation knows (never, true, false, none, and_, ...) are ordinary tags."""
    names = ["never", "Never", "true", "false", "none", "android", "nothing", "orange"]
    for n in names:
        other = "a"
        universe = [n, other]
        subs = list(T.subsets(universe))
        for ast in (["lit", n], ["not", ["lit", n]], ["or", ["lit", n], ["lit", other]], ["and", ["lit", n], ["lit", other]],
                    ["not", ["and", ["lit", n], ["not", ["lit", other]]]]):
            for at in (False, True):
                text = T.render_v2(ast, None, "min", at)
                case = {"kind": "word-named-tag", "ast": ast, "text": text}
                mon.case(case, True)
                want = T.truth_table(ast, subs)
                try:
                    e = lab.make(text, lab.P.V2)
                    got = T.truth_table_of(e.check, subs)
                    ok = got == want
                    e2 = lab.make(str(e), lab.P.V2)
                    ok2 = T.truth_table_of(e2.check, subs) == want
                    mon.check("v2.meaning", ok, lambda: dict(case=case, want=want, got=got, parsed=repr(e)))
                    mon.check("v2.print_roundtrip", ok2, lambda: dict(case=case, printed=str(e)))
                except Exception as ex:
                    mon.check("v2.meaning", False, dict(case=case, error=repr(ex)))


def run(spec, mon):
    lab = Lab()
    tier = spec.get("tier", "quick")
    shard, of = spec["shard"], spec["of"]
    rng = random.Random(spec["seed"])
    styles_all = [("min", False), ("min", True), ("full", False), ("inner", False), ("redundant", "mixed"), ("redundant", "mixed")]

    if shard == 0:
        check_word_named_tags(lab, mon)
        for text in ("", " ", "   ", []):
            case = {"kind": "empty", "text": text}
            mon.case(case, True)
            try:
                got, e = lab.table(text)
                mon.check("v2.empty_selects_all", got == (1 << len(SUBSETS)) - 1, dict(case=case, got=got))
            except Exception as ex:
                mon.check("v2.empty_selects_all", False, dict(case=case, error=repr(ex)))

    if tier == "quick":
        trees = T.enum_trees(OPERANDS, 2, 2)
        nrandom, nconfig = 80, 40
    else:
        trees = T.enum_trees(OPERANDS, 3, 3) + T.enum_trees(OPERANDS_SMALL, 4, 3)
        nrandom, nconfig = 6000, 600
    for i, ast in enumerate(trees):
        if i % of != shard:
            continue
        check_tree(lab, mon, ast, rng, styles_all)
        if i % 997 == 0:
            mon.sample({"ast": ast, "text": T.render_v2(ast, rng, "redundant", "mixed")})
    mon.count("exhaustive_trees", len([1 for i in range(len(trees)) if i % of == shard]))

    for _ in range(nrandom):
        ast = T.random_tree(rng, RANDOM_OPERANDS, rng.choice([2, 3, 4]))
        check_tree(lab, mon, ast, rng, styles_all)
        mon.seen("random_depth", str(T.depth(ast)))
    # list-of-terms form with independently rendered terms (each term may have a top-level 'or')
    for _ in range(nrandom * 3):
        terms = [T.random_tree(rng, OPERANDS, rng.choice([0, 1, 2, 2])) for _ in range(rng.choice([2, 2, 3]))]
        texts = [T.render_v2(t, rng, rng.choice(["min", "inner", "inner", "full", "redundant"]), rng.choice([True, False]))
                 for t in terms]
        ast = ["and"] + terms
        case = {"kind": "list", "ast": ast, "text": texts}
        mon.case(case, True)
        want = T.truth_table(ast, SUBSETS)
        try:
            got, e = lab.table(texts if rng.random() < 0.5 else tuple(texts))
            mon.check("v2.list_form", got == want, lambda: dict(case=case, want=want, got=got, parsed=repr(e)))
        except Exception as ex:
            mon.check("v2.list_form", False, dict(case=case, error=repr(ex)))
    for j in range(nconfig):
        c = T.random_tree(rng, OPERANDS, rng.choice([0, 1, 2]), nary=True)
        r = T.random_tree(rng, OPERANDS, rng.choice([0, 1, 2]), nary=True)
        check_config(lab, mon, c, r, rng, j % len(TEMPLATES), as_list=("multi" if j % 3 == 1 else (j % 3 == 0)))
        check_wip(lab, mon, rng)
        check_config_files(lab, mon, rng, hash_names=(j % 3 == 1))
        if j == 0:
            check_config_files(lab, mon, rng, directed=True)
        check_lookalike_terms(lab, mon, rng)
        check_string_command_line(lab, mon, rng)
        if j % 10 == 3:
            tags_help_on_a_terminal(lab, mon, rng)
        for label in sorted(NAME_CLASSES):
            check_name_class(lab, mon, rng, label)
        check_print_on_legacy_console(lab, mon, rng)
        for _ in range(3):
            check_default_protocol_lists(lab, mon, rng)
    if shard == 0:
        ast = ["and", ["or", ["lit", "a"], ["not", ["glob", "a*"]]], ["not", ["lit", "k=v"]]]
        mon.sample({"ast": ast, "text": T.render_v2(ast, rng, "min", True),
                    "truth_table_bits": T.truth_table(ast, SUBSETS), "universe": UNIVERSE}, force=True)


def replay(case, mon):
    lab = Lab()
    rng = random.Random(0)
    if case.get("kind") in ("tree", "list"):
        ast = case["ast"]
        want = T.truth_table(ast, SUBSETS)
        got, e = lab.table(case["text"])
        mon.case(case)
        mon.check("v2.meaning", got == want, dict(case=case, want=want, got=got, parsed=repr(e)))
        for printed in (str(e), e.to_string(), e.to_string(pretty=False)):
            got2, _ = lab.table(printed)
            mon.check("v2.print_roundtrip", got2 == want, dict(case=case, printed=printed, want=want, got=got2))
    elif case.get("kind") == "empty":
        got, e = lab.table(case["text"])
        mon.case(case)
        mon.check("v2.empty_selects_all", got == (1 << len(SUBSETS)) - 1, dict(case=case, got=got))
    else:
        print("replay of config cases: re-run the check with the same seed")

LEVEL_TEXT = ("Exploration with an exhaustive core: every and/or/not tree up to the leaf bound over a 9-operand alphabet "
              "(literals with dots, dashes, '=', upper case, three wildcard forms) in 5 renderings plus random larger "
              "trees is compared with an independent evaluator on the complete 128-row truth table; printed forms are "
              "re-parsed; {config.tags} substitution is checked through Configuration.setup_tag_expression. Held means: "
              "no disagreement on any explored expression x subset.")
LEVEL_NOTE = ("Trusted: the reference evaluator/glob matcher (bvm/gen/tagexpr.py); bounded tree size; tags without blanks, "
              "parentheses, backslashes.")
TECHNIQUE = "runtime monitoring: differential truth-table oracle (reference evaluator) over real parser/evaluator executions"
