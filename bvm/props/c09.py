"""C09 -- tag selection with inheritance selects exactly the matching scenarios."""
from __future__ import annotations

import random

from . import runbase as RB
from ..gen import tagexpr as T
from ..gen.prog import TAGS, iter_scenario_instances
from ..ref import runmodel

ID = "C09"
LEVEL = "exploration"
RULE = ("random feature trees with tags at every level (feature, rule, scenario, outline, examples block, parametrised "
        "outline tags @<t> / @p.<t>) drawn from a 5-tag alphabet plus @wip so that ancestor and descendant tags collide; "
        "tag expressions in both dialects (v1 CNF with -/~ negation, v2 and/or/not with wildcards, list form); "
        "show_skipped on/off, dry-run on/off, --stop; a case = one execution; non-trivial = at least one selected and "
        "one de-selected scenario instance and at least one scenario whose selection is decided by an inherited tag; "
        "distinct by hash of (program, args).")
ASSUMPTIONS = [
    "reference: effective tags = own + enclosing rule + feature (rows: rendered outline tags + examples tags + outline's "
    "plain tags + ancestors), evaluated by the independent formula evaluator of bvm/gen/tagexpr.py",
    "whether container hooks run for a container whose own tags match although none of its scenarios is selected is not demanded",
]
REQUIRED = {"select.deselected_not_called": {"quick": 3000, "thorough": 150000},
            "select.deselected_reported_skipped": {"quick": 3000, "thorough": 150000},
            "select.selected_executed": {"quick": 1500, "thorough": 80000},
            "select.container_without_selected_is_skipped": {"quick": 300, "thorough": 15000},
            "select.container_with_selected_not_skipped": {"quick": 500, "thorough": 25000},
            "local.unselected_run_emits_nothing": {"quick": 3000, "thorough": 150000},
            "nontrivial_cases": {"quick": 300, "thorough": 15000}}
REQUIRED_SEEN = {"second_selection_given_as": ["one_string_of_blank_separated_terms", "list_of_terms"], "tree_shape": ["rule_without_scenarios_in_a_feature_with_scenarios"], "outline_tag_placeholder": ["<t>", "<row.index>", "<examples.index>", "<row.id>", "column_heading_with_punctuation"], "expression_shape": ["bare_wildcard_over_untagged_elements"], "environment_habit": ["autoretry_recipe"], "dialect": ["v1", "v2", "none"],
                 "tag_name_class": ["contains_operator_word", "contains_hash", "non_ascii_letters"], "outline_name_schema": ["{name}", "{examples.name}"],
                 "process_run_shape": ["toml_tags_plus_command_line", "ini_tags_plus_command_line", "wip_plus_tags"]}
NSHARDS = {"quick": 16, "thorough": 16}


def plan(tier, seed):
    n = NSHARDS[tier]
    return [{"shard": i, "of": n, "seed": seed * 1000 + i} for i in range(n)]


def install_wrapper(lab):
    """Local oracle on every Scenario.run call: a scenario that does not run emits no recorder event."""
    from behave import model
    if getattr(model.Scenario.run, "_bvm_c09", False):
        return
    orig = model.Scenario.run

    def run(self, runner):
        st = getattr(lab, "_state", None)
        mon = getattr(lab, "_mon", None)
        n0 = len(st.events) if st is not None else 0
        will_run = self.should_run(runner.config)
        result = orig(self, runner)
        if st is not None and mon is not None and not will_run:
            mine = [e for e in st.events[n0:]]
            mon.check("local.unselected_run_emits_nothing", not mine,
                      lambda: dict(scenario=self.name, events=mine[:10], tags=sorted(self.effective_tags)))
            mon.check("local.unselected_run_not_failed", result is False, lambda: dict(scenario=self.name, result=result))
        return result
    run._bvm_c09 = True
    model.Scenario.run = run


def decided_by_inherited(case, pred):
    """Is there a scenario whose selection differs when only its own tags are considered?"""
    ast = case["cfg"]["tags"]
    if ast is None:
        return False
    for inst in pred.instances:
        own = set(inst["own_tags"])
        eff = runmodel.eff_tags(inst)
        if T.evaluate(ast, own) != T.evaluate(ast, eff):
            return True
    return False


def run_case(lab, mon, case, sample=False):
    def pre_run(st):
        lab._state = st
    plugins = []
    if case.get("autoretry_recipe"):
        # an environment.py with the documented auto-retry recipe (before_feature patches every scenario / outline of the feature with
        # behave.contrib.scenario_autoretry): nothing fails here, so what runs is what the tag expression selects -- once
        def recipe(state, context, name, elem, tag):
            if name == "before_feature":
                from behave.contrib.scenario_autoretry import patch_scenario_with_autoretry
                from behave.model import ScenarioOutline
                for x in elem.walk_scenarios(with_outlines=True):
                    if isinstance(x, ScenarioOutline) or not isinstance(getattr(x, "parent", None), ScenarioOutline):
                        patch_scenario_with_autoretry(x, max_attempts=2)
        plugins.append(recipe)
    obs = lab.run(case["program"], args=case["args"], pre_run=pre_run, hook_plugins=plugins)
    pred = runmodel.predict(case["program"], case["cfg"])
    sel = [v for v in pred.selected.values()]
    nontriv = any(sel) and not all(sel) and decided_by_inherited(case, pred)
    mon.case(RB.strip_case(case), nontriv)
    if nontriv:
        mon.count("nontrivial_cases")
    mon.check("select.no_exception_escapes", obs.escaped is None, lambda: RB.witness(case, escaped=repr(obs.escaped)))
    if obs.escaped is not None:
        return
    RB.check_selection(mon, case, obs, pred)
    # executed set == selected set (for scenarios that were started and have a callable step)
    executed = set(n for n, _ in obs.calls)
    want_exec = set(n for n, _ in pred.calls)
    if not case["cfg"].get("cafs"):
        mon.check("select.executed_set_equals_selected", executed == want_exec,
                  lambda: RB.witness(case, extra=sorted(executed - want_exec), missing=sorted(want_exec - executed)))
    # hooks of containers: never for a container without a tag-selected scenario and without own match
    if not pred.ambiguous_hooks and not case["cfg"]["dry_run"]:
        got = [h for h in obs.hooks if h[0] in ("before_feature", "after_feature", "before_rule", "after_rule")]
        want = [h for h in pred.hooks if h[0] in ("before_feature", "after_feature", "before_rule", "after_rule")]
        if not (obs.runner.aborted):
            mon.check("select.container_hooks", got == want, lambda: RB.witness(case, got=got, want=want))
    if case["cfg"]["dry_run"]:
        mon.check("select.dry_run_no_hooks", not obs.hooks, lambda: RB.witness(case, hooks=obs.hooks[:20]))
    mon.seen("dialect", "none" if case["cfg"]["tags"] is None else ("v1" if any(a.startswith(("--tags=-", "--tags=~")) or "," in a for a in case["args"]) else "v2"))
    if sample:
        mon.sample({"features": RB.case_texts(case), "args": case["args"], "selected": pred.selected,
                    "observed_status": {k: v for k, v in obs.elem_status.items()}})

def two_selections(lab, mon, rng):
    """The same parsed model run twice with two different tag expressions (no reset in between): the second run executes
    exactly what the second expression selects and reports every other scenario skipped, whatever the first run did."""
    gen = {"p_tag": 0.7, "p_nonpass": 0.0, "max_rules": 2, "p_empty_examples": 0.0, "p_stepless": 0.0}
    case1 = RB.gen_case(rng, gen=gen, p_stop=0.0, p_dry=0.0, p_noskipped=0.6, p_verbose=0.0)
    tries = 0
    while case1["cfg"]["tags"] is None and tries < 5:
        ast, args = RB.random_expr(rng)
        case1["cfg"]["tags"] = ast
        case1["args"] = args + [a for a in case1["args"] if not a.startswith("--tags")]
        tries += 1
    ast2, args2 = RB.random_expr(rng)
    tags2 = [a.split("=", 1)[1] for a in args2]
    for _ in range(4):
        if len(tags2) > 1 and not any(c in t for t in tags2 for c in " *?[]()"):
            break
        if rng.random() < 0.5:
            break
        ast2, args2 = RB.random_expr(rng)
        tags2 = [a.split("=", 1)[1] for a in args2]
    as_one_string = not any(c in t for t in tags2 for c in " *?[]()") and rng.random() < 0.7
    second = {}

    def second_run(st):
        st.calls[:] = []
        st.hooks[:] = []
        if len(tags2) > 1 and as_one_string:
            # the other documented shape of an old-style expression in user code: ONE string, its and-terms separated by blanks
            st.config.tags = None
            st.config.setup_tag_expression(" ".join(tags2))
            mon.seen("second_selection_given_as", "one_string_of_blank_separated_terms")
        else:
            st.config.tags = list(tags2)
            st.config.setup_tag_expression()
            mon.seen("second_selection_given_as", "list_of_terms")
        second["verdict"] = st.runner.run()

    def pre_run(st):
        lab._state = None
    obs = lab.run(case1["program"], args=case1["args"], pre_run=pre_run, second_run=second_run)
    case2 = {"program": case1["program"], "args": [a for a in case1["args"] if not a.startswith("--tags")] + args2,
             "cfg": dict(case1["cfg"], tags=ast2)}
    mon.case(("two-selections", RB.strip_case(case1), tuple(args2)), True)
    if obs.escaped is not None:
        mon.check("select.no_exception_escapes", False, lambda: RB.witness(case2, first_run_args=case1["args"], escaped=repr(obs.escaped)))
        return
    pred = runmodel.predict(case2["program"], case2["cfg"])
    executed = set(n for n, _ in obs.calls)
    want_exec = set(n for n, _ in pred.calls)
    mon.check("history.second_selection_executes_exactly", executed == want_exec,
              lambda: RB.witness(case2, first_run_args=case1["args"], extra=sorted(executed - want_exec), missing=sorted(want_exec - executed)))
    bad = [n for n, selected in pred.selected.items() if not selected and obs.elem_status.get(n) != "skipped"]
    mon.check("history.second_selection_others_skipped", not bad,
              lambda: RB.witness(case2, first_run_args=case1["args"], not_skipped={n: obs.elem_status.get(n) for n in bad[:6]}))


NAME_SCHEMAS = [u"{name}", u"{name}", u"{name} [{row.id}]", u"{examples.name}", u"{name} -- @{row.id} {examples.name}"]


def name_schema_runs(lab, mon, rng):
    """The configured name schema for outline rows (scenario_outline_annotation_schema, e.g. the old '{name}' scheme under
    which every row is called like its outline) has nothing to do with selection.  Rows are not identified by name here:
    all steps pass, so the multiset of executed step texts must be the steps of exactly the selected instances."""
    import collections
    gen = {"p_tag": 0.7, "p_nonpass": 0.0, "max_rules": 2, "p_empty_examples": 0.0, "p_stepless": 0.0, "p_outline": 0.6, "p_param_tag": 0.3}
    case = RB.gen_case(rng, gen=gen, p_stop=0.0, p_dry=0.0, p_noskipped=0.5, p_verbose=0.0)
    tries = 0
    while case["cfg"]["tags"] is None and tries < 5:
        ast, args = RB.random_expr(rng)
        case["cfg"]["tags"] = ast
        case["args"] = args + [a for a in case["args"] if not a.startswith("--tags")]
        tries += 1
    schema = rng.choice(NAME_SCHEMAS)
    for f in case["program"]["features"]:
        f.pop("_text", None)

    def pre_run(st):
        lab._state = None
    obs = lab.run(case["program"], args=case["args"], pre_run=pre_run, config_kwargs={"scenario_outline_annotation_schema": schema})
    mon.case(("name-schema", schema, RB.strip_case(case)), True)
    mon.seen("outline_name_schema", schema)
    if obs.escaped is not None:
        mon.check("select.no_exception_escapes", False, lambda: RB.witness(case, schema=schema, escaped=repr(obs.escaped)))
        return
    want = collections.Counter()
    for f in case["program"]["features"]:
        for inst in iter_scenario_instances(f):
            if runmodel.formula_ok(case["cfg"], runmodel.eff_tags(inst)):
                want.update(s["final"] for s in inst["steps"])
    got = collections.Counter(t for _n, t in obs.calls)
    mon.check("select.executed_steps_under_configured_row_names", got == want,
              lambda: RB.witness(case, name_schema=schema, not_executed=sorted((want - got).elements())[:8],
                                 executed_but_not_selected=sorted((got - want).elements())[:8]))


def process_runs(mon, rng):
    """`python -m behave` with the tag expression coming from where users put it: --tags on top of tags in pyproject.toml /
    behave.ini (the command line replaces them), and --wip together with --tags (the @wip term is and-ed)."""
    import os
    from ..lab.subproc import Project
    gen = {"p_tag": 0.6, "p_nonpass": 0.0, "p_wip": 0.3, "max_rules": 1, "p_empty_examples": 0.0, "p_stepless": 0.0}
    case = RB.gen_case(rng, gen=gen, p_stop=0.0, p_dry=0.0, p_noskipped=0.3, p_verbose=0.0)
    tries = 0
    while case["cfg"]["tags"] is None and tries < 5:
        ast, args = RB.random_expr(rng)
        case["cfg"]["tags"] = ast
        case["args"] = args + [a for a in case["args"] if not a.startswith("--tags")]
        tries += 1
    if case["cfg"]["tags"] is None:
        return
    mode = rng.choice(["toml_tags_plus_command_line", "ini_tags_plus_command_line", "wip_plus_tags"])
    cfg = dict(case["cfg"])
    extra = []
    proj = Project(case["program"], {})
    try:
        if mode == "wip_plus_tags":
            extra = ["--wip"]
            cfg["tags"] = ["and", case["cfg"]["tags"], ["lit", "wip"]]
            cfg["stop"] = True
        else:
            other = rng.choice(["not @a", "@e", "not @b and not @c"])
            fname, body = ("pyproject.toml", '[tool.behave]\ntags = ["%s"]\n' % other) if mode.startswith("toml") else \
                ("behave.ini", "[behave]\ntags = %s\n" % other)
            with open(os.path.join(proj.root, fname), "w") as fh:
                fh.write(body)
        res = proj.run(case["args"] + extra + ["-f", "plain"], environment=RB.pick_environment(rng, mon))
    finally:
        proj.close()
    if res.get("timeout"):
        mon.note("subprocess watchdog fired (inconclusive case)")
        return
    pred = runmodel.predict(case["program"], cfg)
    calls = [(e[1], e[2]) for e in res["events"] if e[0] == "step"]
    mon.case(("process", mode, RB.strip_case(case)), True)
    mon.seen("process_run_shape", mode)
    mon.check("process.executed_steps_are_those_of_the_selected_scenarios", calls == pred.calls,
              lambda: RB.witness(case, mode=mode, got=calls, want=pred.calls, stdout=res["stdout"][-500:], stderr=res["stderr"][-400:]))


def run(spec, mon):
    from ..lab.inproc import RunLab
    lab = RunLab()
    lab._mon = mon
    lab._state = None
    install_wrapper(lab)
    tier = spec.get("tier", "quick")
    rng = random.Random(spec["seed"])
    n = 220 if tier == "quick" else 9000
    for i in range(n):
        gen = {"p_tag": 0.6, "p_param_tag": 0.5, "p_nonpass": 0.15, "p_wip": 0.1, "max_rules": 2, "p_reserved_tag": 0.4,
               "p_empty_examples": 0.0, "p_stepless": 0.1, "p_empty_rule": 0.25}     # row-less outlines are out of scope; a step-less scenario
        # (title and tags only) is a scenario: when de-selected it has to be reported skipped like any other
        if i % 9 == 4:
            # tag names that CONTAIN the operator words of the new dialect (android, order, notify, sandbox) with old-style syntax
            alt = ["android", "order", "notify", "sandbox", "b"]
            gen["tags"] = alt
        case = RB.gen_case(rng, gen=gen, p_stop=0.1, p_dry=0.15, p_noskipped=0.5, p_user_skip=0.1, p_names=0.1)
        if i % 9 == 4:
            ast, args = RB.random_expr(rng, tags=alt)
            case["cfg"]["tags"] = ast
            case["args"] = args + [a for a in case["args"] if not a.startswith("--tags")]
            mon.seen("tag_name_class", "contains_operator_word")
        if i % 9 == 1:
            # the column that feeds the parametrised outline tags has a heading with punctuation (@<first-name>, @p.<price/unit>)
            gen2 = dict(gen, tag_columns=["first-name", "price/unit", "a+b", "n°"], p_param_tag=0.9, p_outline=0.6)
            case = RB.gen_case(rng, gen=gen2, p_stop=0.1, p_dry=0.15, p_noskipped=0.5)
            if any(("<%s>" % c) in repr(case["program"]["features"]) for c in gen2["tag_columns"]):
                mon.seen("outline_tag_placeholder", "column_heading_with_punctuation")
        if i % 9 == 6:
            # sparsely tagged trees (many elements without ANY effective tag) and the bare wildcard: "@*" = has some tag,
            # "not @*" = has no tag at all
            gen2 = dict(gen, p_tag=0.12, p_param_tag=0.1, p_reserved_tag=0.0, p_wip=0.0)
            case = RB.gen_case(rng, gen=gen2, p_stop=0.1, p_dry=0.15, p_noskipped=0.5)
            star = ["glob", "*"]
            ast, text = rng.choice([(star, "@*"), (["not", star], "not @*"), (["or", ["lit", "a"], ["not", star]], "@a or not @*"),
                                    (["and", star, ["not", ["lit", "b"]]], "* and not b"), (["not", star], "not *")])
            case["cfg"]["tags"] = ast
            case["args"] = ["--tags=%s" % text] + [a for a in case["args"] if not a.startswith("--tags")]
            mon.seen("expression_shape", "bare_wildcard_over_untagged_elements")
        if i % 9 == 7:
            # issue-reference style tag names with a '#' inside (@issue#12), next to ordinary tags on the same line
            alt = ["issue#12", "c#", "a", "b", "bug#7.x"]
            gen2 = dict(gen, tags=alt, tag_values=["a", "b"])      # (values rendered INTO a tag stay in the tag-safe alphabet)
            case = RB.gen_case(rng, gen=gen2, p_stop=0.1, p_dry=0.15, p_noskipped=0.5)
            ast, args = RB.random_expr(rng, tags=alt)
            case["cfg"]["tags"] = ast
            case["args"] = args + [a for a in case["args"] if not a.startswith("--tags")]
            mon.seen("tag_name_class", "contains_hash")
        if i % 9 == 2:
            # tag names and tag-placeholder values made of non-ASCII letters and digits (customer.Müller, office.東京)
            alt = ["M\u00fcller", "\u6771\u4eac", "a", "S\u00e3o", "\u0664\u0662"]
            gen2 = dict(gen, tags=alt, tag_values=alt, p_param_tag=0.8)
            case = RB.gen_case(rng, gen=gen2, p_stop=0.1, p_dry=0.15, p_noskipped=0.5)
            ast, args = RB.random_expr(rng, tags=alt + ["p.M\u00fcller", "p.\u6771\u4eac"])
            case["cfg"]["tags"] = ast
            case["args"] = args + [a for a in case["args"] if not a.startswith("--tags")]
            mon.seen("tag_name_class", "non_ascii_letters")
        if i % 3 == 0 and i % 9 not in (7, 2):
            # expressions that refer to tags rendered from the special placeholders <row.index> <examples.index> <row.id>
            ast, args = RB.random_expr(rng, tags=["a", "b", "c", "r1", "r2", "q1.1", "q1.2", "q2.1"])
            if ast is not None:
                case["cfg"]["tags"] = ast
                case["args"] = args + [a for a in case["args"] if not a.startswith("--tags")]
        # make sure an expression is in force most of the time
        tries = 0
        while case["cfg"]["tags"] is None and tries < 3 and i % 10:
            ast, args = RB.random_expr(rng)
            case["cfg"]["tags"] = ast
            case["args"] = args + [a for a in case["args"] if not a.startswith("--tags")]
            tries += 1
        if any(it["kind"] == "rule" and not it["items"] for f in case["program"]["features"] for it in f["items"]):
            mon.seen("tree_shape", "rule_without_scenarios_in_a_feature_with_scenarios")
        blob = repr(case["program"]["features"])
        for ph in ("<row.index>", "<examples.index>", "<row.id>", "<t>"):
            if ph in blob:
                mon.seen("outline_tag_placeholder", ph)
        if i % 7 == 3 and not case["cfg"]["dry_run"] and all(oc == "pass" for oc in case["program"]["outcomes"].values()):
            case = dict(case, autoretry_recipe=True)
            mon.seen("environment_habit", "autoretry_recipe")
        run_case(lab, mon, case, sample=(i == 1 and spec["shard"] < 2))
        if i % 10 == 5:
            two_selections(lab, mon, rng)
            lab._state = None
        if i % 5 == 2:
            name_schema_runs(lab, mon, rng)
            lab._state = None
        if i % 73 == 11 or (tier == "thorough" and i % 300 == 150):
            process_runs(mon, rng)


def replay(case, mon):
    from ..lab.inproc import RunLab
    lab = RunLab()
    lab._mon = mon
    lab._state = None
    install_wrapper(lab)
    run_case(lab, mon, case)
    pred = runmodel.predict(case["program"], case["cfg"])
    print("selected:", pred.selected)


LEVEL_TEXT = ("Exploration: generated trees with colliding tags at every level are run by the real runner under a tag "
              "expression; the set of scenarios whose step functions/hooks were called and the statuses of all scenarios, "
              "rules and features are compared with an independent selection model (effective tags + reference formula "
              "evaluator); a harness-installed wrapper on Scenario.run asserts locally that a scenario that should not "
              "run produces no recorder event at all.")
LEVEL_NOTE = "Trusted: reference evaluator and effective-tag model; generated shapes; container-hook ambiguity left open."
TECHNIQUE = "runtime monitoring: recorded call/hook history vs independent selection model + local post-condition on Scenario.run"
