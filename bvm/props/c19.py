"""C19 -- active tags exclude exactly by the documented per-category logic.

Oracle: independent formula over structured tag specs (the tag texts are *constructed* from
(prefix, category, value), never parsed by the oracle):
  exclude <=> exists category known to the provider with
              (positives != {} and none matches) or (some negative matches)
"""
from __future__ import annotations

import itertools
import operator
import random

ID = "C19"
LEVEL = "exploration"

# (text, kind, category, value)   kind: pos | neg | plain
def A(prefix, cat, value, sep="="):
    kind = "neg" if prefix.startswith("not") else "pos"
    return ("%s.with_%s%s%s" % (prefix, cat, sep, value), kind, cat, value)


POOL_QUICK = [
    A("use", "os", "linux"), A("use", "os", "win"), A("not", "os", "linux"), A("not", "os", "mac"),
    A("active", "os", "linux"), A("not_active", "os", "win"), A("only", "os", "mac"),
    A("use", "n", "3"), A("use", "n", "5"), A("not", "n", "3"), A("use", "n", "x"), A("not", "n", "x"),
    A("use", "n", "-5"), A("not", "n", "+7"),         # signed integer literals are integers, not malformed values
    A("use", "flag", "yes"), A("not", "flag", "off"), A("use", "flag", "maybe"),
    A("use", "flag", "No"), A("not", "flag", "FALSE"), A("not", "flag", "On"),       # boolean words are case-insensitive
    A("use", "n", "50%"), A("not", "flag", "100%"),       # malformed values with a format character: non-matching like any other
    A("use", "zz", "1"), A("not", "zz", "1"),
    A("use", "a.b", "v"), A("not", "a.b", "w"),
    ("wip", "plain", None, None), ("use.with_os", "plain", None, None), ("used.with_os=win", "plain", None, None),
    ("not.without_os=linux", "plain", None, None), ("xnot.with_os=linux", "plain", None, None),
]
POOL_MORE = [
    A("use", "n", ""), A("use", "n", "3.0"), A("not", "n", "-1"), A("only", "n", "4"), A("not_active", "n", "5"),
    A("use", "flag", "TRUE"), A("not", "flag", "no"), A("not", "flag", "2"), A("active", "flag", "off"),
    A("use", "os", ""), A("use", "os", "Linux"), A("not_active", "a.b", "v"), A("use", "a.b", "a=b"),
    ("use.with_=x", "plain", None, None), ("use.with_os-linux", "plain", None, None), ("not", "plain", None, None),
    ("Use.with_os=win", "plain", None, None), ("use.with_a.=v", "plain", None, None),
]

RULE = ("tag multisets up to size 3 (quick) / 4 (thorough) drawn from a pool of %d (quick) / %d (thorough) tags "
        "(positive/negative active tags of categories os, n, flag, a.b, unknown category zz, all five prefixes, malformed "
        "numbers/booleans, near-miss ordinary tags) x provider configurations (plain strings, ValueObject with "
        "eq/custom compare, NumberValueObject eq/ge/le, BoolValueObject, lazy callables, missing categories, "
        "ActiveTagValueProvider, CompositeActiveTagValueProvider); a case = (provider config, tag list); "
        "non-trivial = at least one active tag of a known category; distinct by hash of (config, tags)."
        % (len(POOL_QUICK), len(POOL_QUICK) + len(POOL_MORE)))
ASSUMPTIONS = [
    "negative prefixes start with 'not' (the documented convention, also for custom prefixes)",
    "custom separators are regex-safe literals",
    "numeric tag values avoid Python-only int syntax such as '1_0'",
    "CompositeActiveTagValueProvider caches the first value found per category (documented behaviour)",
]
REQUIRED = {"exclude.formula": {"quick": 100000, "thorough": 3000000}, "run_is_not_exclude": 1000,
            "composite.any_excludes": 1000, "composite.run_is_not_exclude": 1000, "exclude.bool_value_object_uses_declared_operator": 200, "custom.schema": 500, "provider.composite_cache": 50,
            "provider.lazy_reevaluated": 50, "provider.values_overridden_from_userdata": 100,
            "python.providers": 20, "unknown_or_plain_never_excludes": 1000}
REQUIRED_SEEN = {"bool_current_value": ["canonical", "other"], "exclude_reason": ["on", "off"], "composite_first_member": ["get_only_object", "dict_like"], "composite_members_given_as": ["list", "tuple", "generator", "filter", "dict_values"], "custom_notation_given_by": ["arguments", "subclass_attributes", "subclass_separator_attribute"]}
EXHAUSTIVE = True
EXHAUSTIVE_SCOPE = "all tag multisets up to the size bound over the pool x all provider configurations of the grid"
NSHARDS = {"quick": 8, "thorough": 16}


def plan(tier, seed):
    n = NSHARDS[tier]
    return [{"shard": i, "of": n, "seed": seed * 1000 + i} for i in range(n)]


# ---------------------------------------------------------------------------
# provider configurations: category -> spec;  spec = (kind, value[, op])
# ---------------------------------------------------------------------------
OPS = {"eq": operator.eq, "ge": operator.ge, "le": operator.le, "ne": operator.ne, "gt": operator.gt, "lt": operator.lt,
       "contains": lambda cur, tag: tag in cur, "never": lambda cur, tag: False}


def configs():
    os_specs = [None, ("str", "linux"), ("str", "win"), ("str", "other"), ("lazy", "mac"), ("vo", "linux", "eq"),
                ("vo", "linux-win", "contains"), ("str", ""),
                # comparisons that are NOT reflexive (the tag value equal to the current value does not match) ...
                ("vo", "linux", "ne"), ("vo", "linux", "gt"), ("vo", "mac", "lt"),
                # ... and current values with blanks around them (an environment variable, a line read from a file): "linux " is not "linux"
                ("str", "linux "), ("lazy", " win"), ("vo", "mac\n", "eq")]
    n_specs = [None, ("num", 3, "eq"), ("num", 3, "ge"), ("num", 3, "le"), ("num", 4, "ge"), ("num", 5, "le"),
               ("str", "3"), ("numlazy", 5, "eq"),
               # current values that are numbers but not integers (a measured 3.5), given directly or computed lazily
               ("numlazy", 3.5, "le"), ("numlazy", 3.5, "eq"), ("num", 3.5, "ge")]
    flag_specs = [None, ("bool", True), ("bool", False)]
    ab_specs = [None, ("str", "v"), ("str", "w")]
    for o in os_specs:
        for n in n_specs:
            for f in flag_specs:
                for ab in ab_specs:
                    yield {"os": o, "n": n, "flag": f, "a.b": ab}


def ref_match(spec, tag_value):
    kind = spec[0]
    if kind in ("str", "lazy"):
        return spec[1] == tag_value
    if kind == "vo":
        return bool(OPS[spec[2]](spec[1], tag_value))
    if kind in ("num", "numlazy"):
        try:
            number = int(tag_value)
        except ValueError:
            return False
        return bool(OPS[spec[2]](spec[1], number))
    if kind == "bool":
        t = tag_value.lower()
        if t in ("true", "yes", "on"):
            b = True
        elif t in ("false", "no", "off"):
            b = False
        else:
            return False
        return spec[1] == b
    raise ValueError(spec)


def ref_exclude(config, tags, ignore_unknown=True):
    by_cat = {}
    for text, kind, cat, value in tags:
        if kind == "plain":
            continue
        by_cat.setdefault(cat, []).append((kind, value))
    for cat, items in by_cat.items():
        spec = config.get(cat)
        if spec is None:
            if ignore_unknown:
                continue
            # unknown category, not ignored: nothing matches
            if any(k == "pos" for k, _ in items):
                return True
            continue
        pos = [ref_match(spec, v) for k, v in items if k == "pos"]
        neg = [ref_match(spec, v) for k, v in items if k == "neg"]
        if (pos and not any(pos)) or any(neg):
            return True
    return False


class CallableObject(object):
    """A lazy current value does not have to be a function: any callable will do."""
    def __init__(self, v):
        self.v = v

    def __call__(self):
        return self.v


def lazy_of(v, flavour_index):
    import functools
    k = flavour_index % 3
    if k == 0:
        return lambda: v
    if k == 1:
        return functools.partial(lambda x: x, v)
    return CallableObject(v)


class Lab(object):
    def __init__(self):
        from behave import tag_matcher as tm
        self.tm = tm
        self.nlazy = 0

    def build_value(self, spec):
        tm = self.tm
        kind = spec[0]
        if kind == "str":
            return spec[1]
        if kind == "lazy":
            self.nlazy += 1
            return tm.ValueObject(lazy_of(spec[1], self.nlazy))
        if kind == "vo":
            return tm.ValueObject(spec[1], OPS[spec[2]])
        if kind == "num":
            return tm.NumberValueObject(spec[1], OPS[spec[2]])
        if kind == "numlazy":
            self.nlazy += 1
            return tm.NumberValueObject(lazy_of(spec[1], self.nlazy), OPS[spec[2]])
        if kind == "bool":
            return tm.BoolValueObject(spec[1])
        raise ValueError(spec)

    def provider(self, config, flavour):
        tm = self.tm
        data = {c: self.build_value(s) for c, s in config.items() if s is not None}
        if flavour == "dict":
            return data
        if flavour == "atvp":
            d2 = {}
            for c, s in config.items():
                if s is None:
                    continue
                if s[0] == "str":
                    self.nlazy += 1
                    d2[c] = lazy_of(s[1], self.nlazy)      # lazy callable resolved by the provider
                else:
                    d2[c] = data[c]
            return tm.ActiveTagValueProvider(d2)
        if flavour == "composite":
            keys = sorted(data)
            p1 = {k: data[k] for k in keys[::2]}
            p2 = {k: data[k] for k in keys[1::2]}
            shadow = {k: "shadowed-%s" % k for k in keys[::2]}   # later provider must lose
            members = [p1, tm.ActiveTagValueProvider(p2), shadow]
            self.ncomposite = getattr(self, "ncomposite", 0) + 1
            # the member providers may be handed over as any iterable (list, tuple, generator, filter object, dict view)
            how = self.ncomposite % 5
            given = (members, tuple(members), (m for m in members), filter(None, members), {i: m for i, m in enumerate(members)}.values())[how]
            self.last_composite_given_as = ("list", "tuple", "generator", "filter", "dict_values")[how]
            return tm.CompositeActiveTagValueProvider(given)
        raise ValueError(flavour)


def tag_multisets(pool, maxsize):
    for r in range(maxsize + 1):
        for c in itertools.combinations_with_replacement(range(len(pool)), r):
            yield c

def version_value_objects(lab, mon):
    """behave.active_tag.python.VersionValueObject (behind python.min_version / python.max_version): dotted versions compare as
    tuples of numbers with the declared operator, malformed versions count as non-matching."""
    import operator as op
    from behave.active_tag.python import VersionValueObject
    tm = lab.tm
    tag_values = ["2.5.0", "2.5.1", "2.5.2", "2.6", "2", "2.5.1.1", "3", "2.5.10", "2.5.x", "", "two"]

    def vt(text):
        return tuple(int(x) for x in text.split("."))
    for current in ((2, 5, 1), "2.5.1", (2, 5), "2.5"):
        cur_t = current if isinstance(current, tuple) else vt(current)
        for opname, fn in (("ge", op.ge), ("le", op.le), ("eq", op.eq)):
            vo = VersionValueObject(current, fn)
            for tv in tag_values:
                try:
                    want = bool(fn(cur_t, vt(tv)))
                except ValueError:
                    want = False
                case = {"kind": "version", "current": current if isinstance(current, str) else list(current), "operator": opname, "tag_value": tv}
                mon.case(("version", repr(current), opname, tv), True)
                # (in a process whose warnings filter escalates warnings -- python -W error, PYTHONWARNINGS=error, a host program --
                #  the answer is the same: a malformed version is non-matching, not an exception)
                import warnings as _w
                strict = (len(tv) + len(opname)) % 2 == 0
                mon.seen("warnings_filter", "error" if strict else "default")
                try:
                    with _w.catch_warnings():
                        if strict:
                            _w.simplefilter("error")
                        got = bool(vo.matches(tv))
                except Exception as ex:
                    got = repr(ex)
                mon.check("valueobject.version_compare", got == want, lambda: dict(case=case, got=got, want=want))
            # the same through a matcher: use.with_app.min_version=X excludes iff it does not match
            m = tm.ActiveTagMatcher({"app.version": vo})
            for tv in tag_values:
                try:
                    want = bool(fn(cur_t, vt(tv)))
                except ValueError:
                    want = False
                tag = "use.with_app.version=%s" % tv
                if not tv:
                    continue
                got = m.should_exclude_with([tag])
                mon.check("valueobject.version_compare", got == (not want),
                          lambda: dict(case={"current": repr(current), "operator": opname, "tag": tag}, excluded=got, want_excluded=not want))


def run(spec, mon):
    import logging
    logging.getLogger("behave.active_tags").disabled = True   # conversion errors are logged by design
    lab = Lab()
    tm = lab.tm
    tier = spec.get("tier", "quick")
    shard, of = spec["shard"], spec["of"]
    rng = random.Random(spec["seed"])
    if shard == 0:
        version_value_objects(lab, mon)
    pool = POOL_QUICK if tier == "quick" else POOL_QUICK + POOL_MORE
    maxsize = 3 if tier == "quick" else 4
    all_cfgs = list(configs())
    multisets = list(tag_multisets(pool, maxsize))
    mon.count("configs_in_grid", len(all_cfgs) if shard == 0 else 0)
    mon.count("multisets_in_scope", len(multisets) if shard == 0 else 0)
    # Each shard takes every of-th configuration; for every configuration ALL multisets are evaluated in the
    # thorough tier; the quick tier evaluates all multisets up to size 2 and every 7th of size 3.
    for ci, config in enumerate(all_cfgs):
        if ci % of != shard:
            continue
        flavour = ("dict", "atvp", "composite")[ci % 3]
        matcher = tm.ActiveTagMatcher(lab.provider(config, flavour))
        if ci % 4 == 1:
            matcher.use_exclude_reason = True       # (documented switch: also say WHY -- the verdict is the same)
            mon.seen("exclude_reason", "on")
        else:
            mon.seen("exclude_reason", "off")
        strict = tm.ActiveTagMatcher(lab.provider(config, "dict"), ignore_unknown_categories=False)
        members = [tm.ActiveTagMatcher(lab.provider({k: (v if k in ("os", "a.b") else None) for k, v in config.items()}, "dict")),
                   tm.ActiveTagMatcher(lab.provider({k: (v if k in ("n", "flag") else None) for k, v in config.items()}, "dict")),
                   tm.PredicateTagMatcher(lambda tags: "wip" in tags and "xnot.with_os=linux" in tags)]
        if ci % 2:
            comp = tm.CompositeTagMatcher(members)
        else:
            # the other construction style: an empty composite that is filled afterwards -- and a SECOND empty composite that
            # stays empty and therefore never excludes anything
            comp = tm.CompositeTagMatcher()
            bystander = tm.CompositeTagMatcher()
            for m in members:
                comp.tag_matchers.append(m)
            mon.check("composite.empty_composite_excludes_nothing",
                      not bystander.should_exclude_with(["use.with_os=nosuch", "not.with_os=linux", "wip", "xnot.with_os=linux"])
                      and len(bystander.tag_matchers) == 0,
                      lambda: dict(config=config, bystander_members=len(bystander.tag_matchers)))
        # a composite with a member that excludes when a tag is ABSENT, asked about elements without any tag, too
        absent = tm.CompositeTagMatcher([matcher, tm.PredicateTagMatcher(lambda tags: "reviewed" not in tags)])
        for tags_ in ([], ["reviewed"], ["wip"], ["reviewed", "use.with_zz=1"]):
            want_ = ("reviewed" not in tags_)
            got_ = absent.should_exclude_with(tags_)
            mon.check("composite.member_excluding_on_absence", got_ == want_, lambda: dict(config=config, tags=tags_, want=want_, got=got_))
        mon.seen("provider_flavour", flavour)
        if flavour == "composite":
            mon.seen("composite_members_given_as", lab.last_composite_given_as)
        for mi, ms in enumerate(multisets):
            if tier == "quick" and len(ms) == 3 and (mi + ci) % 7:
                continue
            tags = [pool[i] for i in ms]
            if len(tags) > 1 and (mi & 1):
                tags = tags[::-1]
            texts = [t[0] for t in tags]
            known_active = any(t[1] != "plain" and config.get(t[2]) is not None for t in tags)
            case = {"config": config, "flavour": flavour, "tags": texts}
            mon.case(case, known_active)
            want = ref_exclude(config, tags)
            try:
                got = matcher.should_exclude_with(texts)
                mon.check("exclude.formula", got == want, lambda: dict(case=case, want=want, got=got, exclude_reason_on=bool(matcher.use_exclude_reason)))
                if matcher.use_exclude_reason:
                    mon.check("exclude.reason_given_iff_excluded", bool(matcher.exclude_reason) == bool(got) or not got,
                              lambda: dict(case=case, excluded=got, reason=matcher.exclude_reason))
                if not known_active:
                    mon.check("unknown_or_plain_never_excludes", got is False, lambda: dict(case=case, got=got))
                if (mi + ci) % 5 == 0:
                    run_ = matcher.should_run_with(texts)
                    mon.check("run_is_not_exclude", run_ == (not want), lambda: dict(case=case, want=not want, got=run_))
                    got_c = comp.should_exclude_with(texts)
                    want_c = want or ("wip" in texts and "xnot.with_os=linux" in texts)
                    mon.check("composite.any_excludes", got_c == want_c, lambda: dict(case=case, want=want_c, got=got_c))
                    # the other entry point of the protocol, asked of the composite as well
                    run_c = comp.should_run_with(texts)
                    mon.check("composite.run_is_not_exclude", run_c == (not want_c), lambda: dict(case=case, want=not want_c, got=run_c))
                    got_s = strict.should_exclude_with(texts)
                    want_s = ref_exclude(config, tags, ignore_unknown=False)
                    mon.check("strict.unknown_categories", got_s == want_s, lambda: dict(case=case, want=want_s, got=got_s))
            except Exception as ex:
                mon.check("exclude.formula", False, dict(case=case, error=repr(ex)))
            if want:
                mon.count("cases_excluding")
        if ci % 97 == 0:
            mon.sample({"config": config, "tags": [pool[i][0] for i in multisets[-1 - ci]],
                        "expected_exclude": ref_exclude(config, [pool[i] for i in multisets[-1 - ci]])})

    # ---- custom prefixes / separators (negatives start with "not") -------------------------
    for k in range(120 if tier == "quick" else 2000):
        sep = rng.choice([":", "==", "="])
        prefixes = rng.choice([["require", "not_require"], ["with", "notwith", "only"], ["use", "not"]])
        config = rng.choice(all_cfgs)
        ren = {}
        if k % 3 == 1:
            # category names are words in the Unicode sense (gr\u00f6\u00dfe, \u30d6\u30e9\u30a6\u30b6, niveau.\u00e9tage)
            ren = {"os": "gr\u00f6\u00dfe", "flag": "\u30d6\u30e9\u30a6\u30b6", "a.b": "niveau.\u00e9tage"}
            config = {ren.get(c, c): v for c, v in config.items()}
            mon.seen("category_name_class", "non_ascii")
        tags = []
        for _ in range(rng.randint(0, 4)):
            base = rng.choice(pool)
            if base[1] == "plain":
                tags.append(base)
            else:
                pref = rng.choice(prefixes)
                tags.append(A(pref, ren.get(base[2], base[2]), base[3], sep))
        # default-schema tags are ordinary tags for a matcher with other prefixes/separator
        foreign = rng.choice(POOL_QUICK[:7])
        if prefixes != ["use", "not"] or sep != "=":
            if not (foreign[0].split(".")[0] in prefixes and sep == "="):
                tags.append((foreign[0], "plain", None, None))
        texts = [t[0] for t in tags]
        case = {"config": config, "prefixes": prefixes, "sep": sep, "tags": texts}
        mon.case(case, True)
        try:
            style = ("arguments", "subclass_attributes", "subclass_separator_attribute")[k % 3]
            if style == "arguments":
                m = tm.ActiveTagMatcher(lab.provider(config, "dict"), tag_prefixes=prefixes, value_separator=sep)
            elif style == "subclass_attributes":
                # the other documented way to get another notation: a subclass that overrides the class attributes
                Sub = type("ProjectTagMatcher", (tm.ActiveTagMatcher,), {"tag_prefixes": list(prefixes), "value_separator": sep})
                m = Sub(lab.provider(config, "dict"))
            else:
                Sub = type("ProjectTagMatcher", (tm.ActiveTagMatcher,), {"value_separator": sep})
                m = Sub(lab.provider(config, "dict"), tag_prefixes=prefixes)
            case["construction"] = style
            mon.seen("custom_notation_given_by", style)
            got = m.should_exclude_with(texts)
            want = ref_exclude(config, tags)
            mon.check("custom.schema", got == want, lambda: dict(case=case, want=want, got=got))
        except Exception as ex:
            mon.check("custom.schema", False, dict(case=case, error=repr(ex)))

    # ---- current values overridden from user data (setup_active_tag_values, the documented -D browser=firefox recipe) on a
    #      composite whose FIRST member only knows get() ------------------------------------------------------------------
    class GetOnlyProvider(object):
        def __init__(self, data):
            self._data = data

        def get(self, category, default=None):
            return self._data.get(category, default)
    for k in range(30 if tier == "quick" else 600):
        first = GetOnlyProvider({"stage": "develop"}) if k % 2 == 0 else {"stage": "develop"}
        members = [first, {"browser": "chrome", "os": "linux"}, tm.ActiveTagValueProvider({"n": "3"})]
        if k % 3 == 1:
            members = members[1:] + members[:1]
        cp = tm.CompositeActiveTagValueProvider(members)
        userdata = {"browser": rng.choice(["firefox", "safari"]), "unrelated": "x"}
        if k % 4 == 3:
            userdata["os"] = "win"
        try:
            tm.setup_active_tag_values(cp, userdata)
            m = tm.ActiveTagMatcher(cp)
            if k % 4 == 1:
                m.use_exclude_reason = True
            cur = {"browser": userdata["browser"], "os": userdata.get("os", "linux"), "stage": "develop"}
            rows = []
            for tags in (["use.with_browser=%s" % userdata["browser"]], ["use.with_browser=chrome"], ["not.with_browser=%s" % userdata["browser"]],
                         ["use.with_os=linux", "use.with_browser=%s" % userdata["browser"]], ["use.with_browser=chrome", "use.with_os=%s" % cur["os"]],
                         ["use.with_stage=develop", "use.with_browser=chrome", "use.with_zz=1"]):
                cfg = {c: ("str", v) for c, v in cur.items()}
                tspec = [A(t.split(".")[0], t.split("with_")[1].split("=")[0], t.split("=")[1]) for t in tags]
                rows.append((tags, m.should_exclude_with(tags), ref_exclude(cfg, tspec)))
            case = {"kind": "values-from-userdata", "first_member": type(first).__name__, "userdata": userdata, "exclude_reason_on": k % 4 == 1}
            mon.case(("userdata-values", k % 12, userdata["browser"]), True)
            mon.check("provider.values_overridden_from_userdata", all(g == w for _t, g, w in rows),
                      lambda: dict(case=case, rows=[(t, g, w) for t, g, w in rows if g != w]))
            mon.seen("composite_first_member", "get_only_object" if k % 2 == 0 and k % 3 != 1 else "dict_like")
        except Exception as ex:
            mon.check("provider.values_overridden_from_userdata", False, dict(error=repr(ex), userdata=userdata))

    # ---- boolean value objects over current values that are not canonical booleans, and with other declared operators:
    #      the tag word is converted, the current value is handed to the operator AS IT IS ---------------------------------
    bool_ops = {"eq": operator.eq, "ne": operator.ne, "is": operator.is_, "truthy_agrees": lambda cur, tag: bool(cur) == tag}
    bool_values = [True, False, 1, 0, 2, 0.5, "yes", "", None, (), (1,)]
    bool_words = ["yes", "no", "true", "false", "On", "OFF", "maybe", "1", ""]
    for k in range(60 if tier == "quick" else 1500):
        opname = rng.choice(sorted(bool_ops))
        value = rng.choice(bool_values)
        lazy = bool(k % 3 == 1)
        try:
            if opname == "eq" and k % 2:
                vo = tm.BoolValueObject((lambda v=value: v) if lazy else value)             # (operator left at its default)
            else:
                vo = tm.BoolValueObject((lambda v=value: v) if lazy else value, bool_ops[opname])
            prov = ({"gpu": vo}, tm.ActiveTagValueProvider({"gpu": vo}), tm.CompositeActiveTagValueProvider([{"x": "1"}, {"gpu": vo}]))[k % 3]
            m = tm.ActiveTagMatcher(prov)
            rows = []
            for word in bool_words:
                lw = word.lower()
                conv = True if lw in ("true", "yes", "on") else False if lw in ("false", "no", "off") else None
                hit = False if conv is None else bool(bool_ops[opname](value, conv))
                for prefix, want in (("use", not hit), ("not", hit), ("only", not hit), ("not_active", hit)):
                    tags = ["%s.with_gpu=%s" % (prefix, word), "wip"]
                    rows.append((tags, m.should_exclude_with(tags), want))
                    rows.append((tags + ["run"], not m.should_run_with(tags), want))
            case = {"kind": "bool-value-object", "operator": opname, "current_value": repr(value), "lazy": lazy, "provider": type(prov).__name__}
            mon.case(("bool-value-object", opname, repr(value), lazy, k % 3), True)
            mon.seen("bool_current_value", "canonical" if value is True or value is False else "other")
            mon.check("exclude.bool_value_object_uses_declared_operator", all(g == w for _t, g, w in rows),
                      lambda: dict(case=case, rows=[(t, g, w) for t, g, w in rows if g != w][:6]))
        except Exception as ex:
            mon.check("exclude.bool_value_object_uses_declared_operator", False, dict(error=repr(ex), operator=opname, current_value=repr(value)))

    # ---- composite provider: first provider wins, value cached, lazy values re-evaluated ------
    for k in range(20 if tier == "quick" else 200):
        box = {"v": "linux"}
        p1 = {"os": tm.ValueObject(lambda: box["v"])}
        p2 = {"os": "win", "n": tm.NumberValueObject(3)}
        plain = {"flag2": "a"}
        cp = tm.CompositeActiveTagValueProvider([plain, p1, p2])
        m = tm.ActiveTagMatcher(cp)
        r1 = m.should_exclude_with(["use.with_os=linux"])
        box["v"] = "mac"                      # lazy value object: evaluated at each use
        r2 = m.should_exclude_with(["use.with_os=linux"])
        r3 = m.should_exclude_with(["use.with_os=mac", "use.with_n=3"])
        plain["flag2"] = "b"                  # plain value: cached by the composite at first lookup
        r4 = m.should_exclude_with(["use.with_flag2=a"])
        plain["flag2"] = "c"
        r5 = m.should_exclude_with(["use.with_flag2=a"])
        case = {"kind": "composite-history", "results": [r1, r2, r3, r4, r5]}
        mon.case(case, k == 0)
        mon.check("provider.composite_cache", [r1, r2, r3, r4, r5] == [False, True, False, True, True],
                  dict(case=case, want=[False, True, False, True, True]))
        # provider-level lazy callables (plain functions as values) are re-evaluated at every use, also when
        # they sit behind a composite provider (its cache keeps the callable, not a snapshot of its result)
        stage = {"v": "one", "n": 3}
        lazy1 = tm.ActiveTagValueProvider({"stage": lambda: stage["v"]})
        lazy2 = {"level": tm.NumberValueObject(lambda: stage["n"], operator.ge), "stage": "shadowed"}
        # (a composite over an ActiveTagValueProvider caches what that provider's get() returned, i.e. the
        #  evaluated value -- the documented caching; only callables the composite itself sees are re-evaluated)
        for prov_name, prov in (("composite-of-dict", tm.CompositeActiveTagValueProvider([{"stage": lambda: stage["v"]}, lazy2])),
                                ("atvp", lazy1)):
            mm = tm.ActiveTagMatcher(prov)
            seq = []
            want_seq = []
            for v, n in (("one", 3), ("two", 5), ("one", 1), ("three", 4), ("two", 2)):
                stage["v"], stage["n"] = v, n
                for tags in (["use.with_stage=one"], ["not.with_stage=two"], ["use.with_stage=two", "use.with_stage=three"],
                             ["use.with_level=3", "not.with_level=5"]):
                    seq.append(mm.should_exclude_with(tags))
                    cfg = {"stage": ("str", v), "level": ("num", n, "ge") if prov_name != "atvp" else None}
                    tspec = [A(t.split(".")[0], t.split("with_")[1].split("=")[0], t.split("=")[1]) for t in tags]
                    want_seq.append(ref_exclude(cfg, tspec))
            case2 = {"kind": "lazy-history", "provider": prov_name, "got": seq}
            mon.case(case2, k == 0)
            mon.check("provider.lazy_reevaluated", seq == want_seq, dict(case=case2, want=want_seq))
        # a DERIVED category: its lazy callable asks the provider for another lazy category while it is being evaluated
        # (os -> os_family -> tier): every level is evaluated, none is handed over as a function object
        for carrier in ("atvp", "composite"):
            cur = {"os": "linux"}
            holder = {}
            data = {"os": lambda: cur["os"],
                    "os_family": lambda: "posix" if holder["p"].get("os") in ("linux", "mac") else "nt",
                    "tier": lambda: "t1" if holder["p"].get("os_family") == "posix" else "t2"}
            prov_d = holder["p"] = tm.ActiveTagValueProvider(data)
            top = prov_d if carrier == "atvp" else tm.CompositeActiveTagValueProvider([{"x": "1"}, prov_d])
            md = tm.ActiveTagMatcher(top if carrier == "atvp" else prov_d)
            seq, want_seq = [], []
            for osname in ("linux", "win", "mac"):
                cur["os"] = osname
                fam = "posix" if osname in ("linux", "mac") else "nt"
                tier_ = "t1" if fam == "posix" else "t2"
                for tags, want_ex in ((["use.with_os_family=posix"], fam != "posix"), (["not.with_os_family=posix"], fam == "posix"),
                                      (["use.with_tier=t1"], tier_ != "t1"), (["use.with_os=%s" % osname, "use.with_tier=t2"], tier_ != "t2")):
                    seq.append(md.should_exclude_with(tags))
                    want_seq.append(want_ex)
            case4 = {"kind": "derived-lazy-category", "carrier": carrier, "got": seq}
            mon.case(case4, k == 0)
            mon.seen("lazy_value_shape", "derived_from_another_lazy_category")
            mon.check("provider.lazy_reevaluated", seq == want_seq, dict(case=case4, want=want_seq))
        cp2 = tm.CompositeActiveTagValueProvider([plain])
        m2 = tm.ActiveTagMatcher(cp2)
        plain["flag2"] = "a"
        q1 = m2.should_exclude_with(["use.with_flag2=a"])
        plain["flag2"] = "zzz"
        q2 = m2.should_exclude_with(["use.with_flag2=a"])       # cached "a"
        mon.check("provider.composite_cache", [q1, q2] == [False, False], dict(case="cache", got=[q1, q2]))
        # histories: look up, ASSIGN THROUGH THE COMPOSITE (item assignment / update() / setup_active_tag_values()), look up again --
        # what was assigned is the current value from then on
        for form in ("item_assignment", "update", "setup_active_tag_values"):
            cp3 = tm.CompositeActiveTagValueProvider([{"os": "linux"}, {"n": "1"}])
            m3 = tm.ActiveTagMatcher(cp3)
            h1 = m3.should_exclude_with(["use.with_os=linux"])
            if form == "item_assignment":
                cp3["os"] = "mac"
            elif form == "update":
                cp3.update({"os": "mac"})
            else:
                tm.setup_active_tag_values(cp3, {"os": "mac", "unknown_category": "x"})
            h2 = m3.should_exclude_with(["use.with_os=linux"])
            h3 = m3.should_exclude_with(["use.with_os=mac", "use.with_n=1"])
            case3 = {"kind": "composite-assignment-history", "assigned_with": form, "results": [h1, h2, h3]}
            mon.case(case3, k == 0)
            mon.seen("composite_assigned_with", form)
            mon.check("provider.composite_value_assigned_after_a_lookup", [h1, h2, h3] == [False, True, False], dict(case=case3, want=[False, True, False]))

    # ---- behave.active_tag.python* providers -----------------------------------------------
    if shard == 0:
        import sys
        from behave.active_tag.python import ACTIVE_TAG_VALUE_PROVIDER as PY
        from behave.active_tag.python_feature import ACTIVE_TAG_VALUE_PROVIDER as PYF
        m = tm.ActiveTagMatcher(tm.CompositeActiveTagValueProvider([PY, PYF]))
        major, minor = sys.version_info[:2]
        table = [
            (["use.with_python3=true"], False), (["use.with_python2=true"], True), (["not.with_python3=yes"], True),
            (["use.with_python.version=%d.%d" % (major, minor)], False),
            (["use.with_python.version=%d.%d" % (major, minor + 1)], True),
            (["use.with_python.min_version=%d.%d" % (major, minor)], False),
            (["use.with_python.min_version=%d.%d" % (major, minor + 1)], True),
            (["use.with_python.max_version=%d.%d" % (major, minor)], False),
            (["use.with_python.max_version=%d.%d" % (major, minor - 1)], True),
            (["not.with_python.min_version=%d.0" % major], True),
            (["use.with_python.min_version=abc"], True), (["not.with_python.min_version=abc"], False),
            (["use.with_os=%s" % sys.platform.lower()], False), (["not.with_os=%s" % sys.platform.lower()], True),
            (["use.with_python.feature.async_function=true"], False),
            (["use.with_python_has_async_keyword=no"], True),
            (["use.with_pypy=false"], False), (["use.with_python.implementation=cpython"], False),
            (["use.with_python.implementation=jython", "use.with_python.implementation=cpython"], False),
            (["use.with_unknown.category=1", "wip"], False),
        ]
        for tags, want in table:
            case = {"kind": "python-provider", "tags": tags}
            mon.case(case, True)
            try:
                got = m.should_exclude_with(tags)
                mon.check("python.providers", got == want, dict(case=case, want=want, got=got))
            except Exception as ex:
                mon.check("python.providers", False, dict(case=case, error=repr(ex)))


def replay(case, mon):
    lab = Lab()
    tm = lab.tm
    if "flavour" in case:
        byname = {t[0]: t for t in POOL_QUICK + POOL_MORE}
        tags = [byname[t] for t in case["tags"]]
        config = {k: (tuple(v) if v else None) for k, v in case["config"].items()}
        m = tm.ActiveTagMatcher(lab.provider(config, case["flavour"]))
        got = m.should_exclude_with(case["tags"])
        want = ref_exclude(config, tags)
        mon.case(case)
        mon.check("exclude.formula", got == want, dict(case=case, want=want, got=got))
    else:
        print("replay supported for grid cases only; re-run the check with the same seed for others")


LEVEL_TEXT = ("Exploration, exhaustive over a small universe: every tag multiset up to the size bound over the pool is "
              "evaluated against every provider configuration of a 576-point grid (through plain dicts, "
              "ActiveTagValueProvider with lazy callables and CompositeActiveTagValueProvider) and compared with an "
              "independent per-category formula; plus strict (unknown categories not ignored) mode, composite "
              "matchers, custom prefixes/separators, provider caching histories and the python/python_feature providers.")
LEVEL_NOTE = "Trusted: the reference formula in this module; tag texts are constructed, not parsed, by the oracle."
TECHNIQUE = "runtime monitoring: exhaustive small-universe differential oracle on ActiveTagMatcher.should_exclude_with"
