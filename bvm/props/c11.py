"""C11 -- step matching and dispatch: full-text match, right definition, right arguments."""
from __future__ import annotations

import itertools
import os
import sys
import random
import re
import shutil
import tempfile

ID = "C11"
LEVEL = "exploration"
KINDS = ["parse", "cfparse", "re", "re0"]
WORDS = ["buy", "sell", "apples", "Pears", "the", "a", "from", "x-ray", "ok.", "items", "now", "(maybe)", "50%", "Ünï",
         # literal text with a run of blanks / a TAB / a no-break space inside (column-aligned step texts): part of the pattern as written
         "big  gap", "col\tumn", "nb\u00a0sp", "three   blanks"]
RULE = ("step patterns of 1-5 tokens over {literal word, {name}, {name:d}, {:w}, {x:f}, custom registered type, cfparse "
        "cardinality fields (+ ?), regex groups named / unnamed / optional} for the four matcher kinds; step texts derived "
        "from them (exact instance with known raw field values, wrong case, extra prefix, extra suffix, changed literal); "
        "registration histories (sequences of (step type, pattern, function) registrations interleaved with "
        "use_step_matcher switches; all ordered histories of length <=3 over a small pattern pool in thorough, <=2 in "
        "quick, random ones up to length 6) followed by lookups (step type x text) against a registry model; "
        "load_step_modules on generated step files. A case = one (pattern, text) or one history; non-trivial = pattern "
        "with >=1 field or history with >=2 registrations; distinct by hash.")
ASSUMPTIONS = [
    "raw field values are plain (decimal integers, d.d floats, identifier-like words): parse's exotic number syntaxes are not exercised",
    "near-miss texts change literals only; a near miss is demanded to be rejected only when the reference regex (fields "
    "as permissive wildcards) rejects it too; the re0 matcher is excluded from the full-text claim (as in the statement)",
    "an optional regex group that did not participate carries no text: nothing is asserted about its offsets",
]
REQUIRED = {"match.instance_matches": {"quick": 3000, "thorough": 150000}, "args.values_and_passing": {"quick": 3000, "thorough": 150000},
            "args.span_invariant": {"quick": 5000, "thorough": 100000}, "nomatch.near_miss_rejected": {"quick": 6000, "thorough": 300000},
            "registry.lookup_matches_model": {"quick": 3000, "thorough": 150000}, "registry.ambiguity_iff_model": {"quick": 800, "thorough": 40000},
            "registry.same_definition_ignored": {"quick": 50, "thorough": 2000},
            "cucumber.lookup": {"quick": 1000, "thorough": 50000}, "registry.find_step_definition_agrees_with_find_match": {"quick": 3000, "thorough": 150000},
            "registry.partial_converter_lookup": {"quick": 2000, "thorough": 100000}, "lookups_ending_in_converter_error": {"quick": 200, "thorough": 10000}, "modules.default_matcher_reset": {"quick": 100, "thorough": 800},
            "wrapper.span_invariant_on_every_match": {"quick": 5000, "thorough": 250000}}
REQUIRED_SEEN = {"literal_text_class": ["run_of_blanks_or_tab_or_nbsp_inside"], "matcher_selected_with": ["deprecated_alias_step_matcher", "use_step_matcher"], "console_encoding_while_loading": ["utf-8", "latin-1", "cp1252"], "registration_history": ["bad_definition_first"], "step_function_flavour": ["sync", "async_plain", "async_with_timeout", "behind_shared_decorator"], "step_module_imports_another": ["yes"],
                 "cucumber_expression_parameters": ["none", "1", "2", "no_match"],
                 "project_default_given_by": ["use_default_step_matcher", "use_step_matcher_before_loading"], "matcher_kind": KINDS, "field_name_class": ["soft_keyword"], "custom_type_name": ["Color", "Colorful"], "token_kind": ["lit", "named", "int", "word", "float", "custom", "many", "optional", "rnamed", "runnamed", "roptional", "rbracket", "roptchar"]}
EXHAUSTIVE = {"quick": True, "thorough": True}
EXHAUSTIVE_SCOPE = "all ordered registration histories up to the length bound over a 6-entry pattern pool x 3 step types"
NSHARDS = {"quick": 16, "thorough": 16}


def plan(tier, seed):
    n = NSHARDS[tier]
    return [{"shard": i, "of": n, "seed": seed * 1000 + i} for i in range(n)]


def classify(name, w):
    return name


# ---------------------------------------------------------------------------
# pattern ASTs
# ---------------------------------------------------------------------------
COLORS = ["red", "green", "blue"]


def gen_pattern(rng, kind, ntok=None):
    """Returns list of tokens: ('lit', word) | ('named', n) | ('int', n) | ('word',) | ('float', n) | ('custom', n) |
    ('many', n) | ('optional', n) | ('rnamed', n) | ('runnamed',) | ('roptional', word)"""
    ntok = ntok or rng.randint(1, 5)
    toks = []
    nfield = 0
    # field names: ordinary ones, or words that are soft keywords of the language and perfectly legal parameter names
    names = iter(["n1", "n2", "n3", "n4"] if rng.random() < 0.7 else rng.sample(["type", "match", "case", "n4"], 4))
    last_field = True      # avoid two adjacent fields (ambiguous split) and a leading untyped field next to nothing
    for i in range(ntok):
        want_field = (not last_field) and nfield < 3 and rng.random() < 0.55
        if want_field:
            if kind in ("parse", "cfparse"):
                choices = ["named", "int", "word", "float", "custom"] + (["many", "optional"] if kind == "cfparse" else [])
                t = rng.choice(choices)
                toks.append((t, next(names)) if t != "word" else ("word",))
            else:
                t = rng.choice(["rnamed", "runnamed", "roptional", "rbracket"])
                toks.append((t, next(names)) if t in ("rnamed", "rbracket") else ((t,) if t == "runnamed" else (t, rng.choice(["very", "not"]))))
            nfield += 1
            last_field = True
        else:
            toks.append(("lit", rng.choice(WORDS)))
            last_field = False
    if all(t[0] != "lit" for t in toks):
        toks.insert(0, ("lit", rng.choice(WORDS)))
    if kind in ("re", "re0") and rng.random() < 0.15:
        # the pattern STARTS with plain text whose last character is optional ("an? ...", "errors? ..."): both spellings match
        toks.insert(0, ("roptchar",) + rng.choice([("a", "n"), ("error", "s"), ("colo", "u")]))
    return toks


def pattern_text(toks, kind):
    parts = []
    for t in toks:
        k = t[0]
        if k == "lit":
            parts.append(re.escape(t[1]) if kind in ("re", "re0") else t[1])
        elif k == "named":
            parts.append("{%s}" % t[1])
        elif k == "int":
            parts.append("{%s:d}" % t[1])
        elif k == "word":
            parts.append("{:w}")
        elif k == "float":
            parts.append("{%s:f}" % t[1])
        elif k == "custom":
            # (two independent user types whose names share a prefix: Color and Colorful)
            parts.append("{%s:%s}" % (t[1], "Colorful" if t[1] in ("n2", "n4", "match") else "Color"))
        elif k == "many":
            parts.append("{%s:Number+}" % t[1])
        elif k == "optional":
            parts.append("{%s:Color?}" % t[1])
        elif k == "rnamed":
            parts.append(r"(?P<%s>\w+)" % t[1])
        elif k == "roptchar":
            parts.append(re.escape(t[1]) + re.escape(t[2]) + "?")
        elif k == "rbracket":
            # a character set that starts with '[' / contains '--' (legal; `re` only WARNS that such sets may change meaning one day)
            parts.append((r"(?P<%s>[[\](){}])" if t[1] in ("n1", "n3", "type") else r"(?P<%s>[\w.~~-]+)") % t[1])
        elif k == "runnamed":
            parts.append(r"(\d+)")
        elif k == "roptional":
            parts.append(r"(%s)?" % t[1])
    text = " ".join(parts)
    if kind == "re0":
        text = "^" + text + "$"
    return text


def instance(toks, rng):
    """Returns (text, expected) where expected = list of (name or None, raw, converted, start, end) in text order."""
    pieces = []
    fields = []
    pos = 0
    for i, t in enumerate(toks):
        k = t[0]
        if i:
            pieces.append(" ")
            pos += 1
        if k == "lit":
            raw, conv, name = t[1], None, None
        elif k == "roptchar":
            raw, conv, name = t[1] + (t[2] if rng.random() < 0.5 else ""), None, None
        elif k == "named":
            raw = rng.choice(["seven", "two words", "x", "Ünï"])
            conv, name = raw, t[1]
        elif k == "int":
            raw = rng.choice(["42", "-7", "0", "12345"])
            conv, name = int(raw), t[1]
        elif k == "word":
            raw = rng.choice(["alpha", "b2", "under_score"])
            conv, name = raw, None
        elif k == "float":
            raw = rng.choice(["3.14", "-0.5", "2.0"])
            conv, name = float(raw), t[1]
        elif k == "custom":
            raw = rng.choice(COLORS)
            conv, name = raw.upper(), t[1]
        elif k == "many":
            nums = [rng.choice(["1", "22", "3"]) for _ in range(rng.randint(1, 3))]
            raw = ", ".join(nums)
            conv, name = [int(x) for x in nums], t[1]
        elif k == "optional":
            raw = rng.choice(COLORS)
            conv, name = raw.upper(), t[1]
        elif k == "rnamed":
            raw = rng.choice(["alpha", "b2", "Z"])
            conv, name = raw, t[1]
        elif k == "rbracket":
            raw = rng.choice(["[", "(", "}", "]"]) if t[1] in ("n1", "n3", "type") else rng.choice(["a.b", "x~y", "p-q", "w_1"])
            conv, name = raw, t[1]
        elif k == "runnamed":
            raw = rng.choice(["7", "100"])
            conv, name = raw, None
        elif k == "roptional":
            if rng.random() < 0.5:
                raw = t[1]
                conv, name = raw, None
            else:
                # the group does not participate: no text; the function still gets None at this position
                fields.append((None, None, None, -1, -1, k))
                continue
        pieces.append(raw)
        if k not in ("lit", "roptchar"):
            fields.append((name, raw, conv, pos, pos + len(raw), k))
        pos += len(raw)
    return "".join(pieces), fields


def ref_regex(toks, permissive):
    """Independent reference regex for a token list (full match)."""
    parts = []
    for t in toks:
        k = t[0]
        if k == "lit":
            parts.append(re.escape(t[1]))
        elif k == "roptchar":
            parts.append(re.escape(t[1]) + "(?:" + re.escape(t[2]) + ")?")
        elif permissive:
            parts.append(r"(?:.*?)" if k in ("roptional", "optional", "many") else r"(?:.+?)")
        elif k == "named":
            parts.append(r"(?:.+?)")
        elif k == "int":
            parts.append(r"(?:[-+]?\d+)")
        elif k == "word":
            parts.append(r"(?:\w+)")
        elif k == "float":
            parts.append(r"(?:[-+]?\d+\.\d+)")
        elif k in ("custom",):
            parts.append(r"(?:red|green|blue)")
        elif k == "optional":
            parts.append(r"(?:red|green|blue)?")
        elif k == "many":
            parts.append(r"(?:[-+]?\d+(?:\s*,\s*[-+]?\d+)*)")
        elif k == "rnamed":
            parts.append(r"(?:\w+)")
        elif k == "rbracket":
            parts.append(r"(?:[\[\](){}])" if t[1] in ("n1", "n3", "type") else r"(?:[\w.~\-]+)")
        elif k == "runnamed":
            parts.append(r"(?:\d+)")
        elif k == "roptional":
            parts.append(r"(?:%s)?" % re.escape(t[1]))
    return re.compile("^" + " ".join(parts) + "$", re.UNICODE)


def near_misses(toks, text, rng):
    out = []
    lits = [i for i, t in enumerate(toks) if t[0] == "lit" and any(c.isalpha() for c in t[1])]
    if lits:
        i = rng.choice(lits)
        w = toks[i][1]
        swapped = w.swapcase()
        if swapped != w:
            out.append(("wrong_case", re.sub(r"(?<!\S)%s(?!\S)" % re.escape(w), lambda m: swapped, text, count=1)))
        out.append(("changed_literal", re.sub(r"(?<!\S)%s(?!\S)" % re.escape(w), lambda m: w + "X", text, count=1)))
    collapsed = " ".join(text.split())
    if collapsed != text and all(t[0] == "lit" or t[0] in ("int", "word", "float", "custom", "rnamed", "runnamed", "rbracket", "roptchar") for t in toks):
        # (only with fields that cannot swallow blanks themselves)
        out.append(("collapsed_whitespace", collapsed))
    out.append(("extra_prefix", "zzz " + text))
    out.append(("extra_suffix", text + " zzz"))
    out.append(("extra_suffix_nospace", text + "!"))
    return [(k, t) for k, t in out if t != text]


# ---------------------------------------------------------------------------
class Lab(object):
    def __init__(self, mon):
        import parse
        from behave import matchers, step_registry
        self.matchers = matchers
        self.step_registry = step_registry
        self.mon = mon

        @parse.with_pattern(r"red|green|blue")
        def parse_color(text):
            return text.upper()
        self.parse_color = parse_color

        @parse.with_pattern(r"red|green|blue")
        def parse_color_v1(text):           # the same type name registered again with another converter (another step module)
            return "c:" + text
        self.parse_color_v1 = parse_color_v1
        self.color_version = 0

        @parse.with_pattern(r"[-+]?\d+")
        def parse_number(text):
            return int(text)
        self.parse_number = parse_number
        self.calls = []
        import functools

        def logged(func):
            @functools.wraps(func)
            def wrapper(context, *args, **kwargs):
                return func(context, *args, **kwargs)
            return wrapper
        self.logged = logged
        self.install_wrapper()

    def install_wrapper(self):
        """Span invariant on every Match produced by every Matcher.match call of every workload."""
        M = self.matchers
        if getattr(M.Matcher.match, "_bvm", False):
            return
        orig = M.Matcher.match
        mon = self.mon

        def match(this, step_text):
            result = orig(this, step_text)
            if result is not None and not isinstance(result, M.MatchWithError) and result.arguments:
                for a in result.arguments:
                    if a.original is None:
                        continue
                    ok = isinstance(a.start, int) and isinstance(a.end, int) and step_text[a.start:a.end] == a.original
                    mon.check("wrapper.span_invariant_on_every_match", ok,
                              lambda: dict(pattern=this.pattern, text=step_text, start=a.start, end=a.end, original=a.original))
            return result
        match._bvm = True
        M.Matcher.match = match

    def fresh_registry(self):
        M = self.matchers
        M.use_default_step_matcher("parse")
        M.use_step_matcher("parse")
        for cls in (M.ParseMatcher, M.CFParseMatcher):
            cls.clear_registered_types()
        self.color_version = (getattr(self, "_nreg", 0) // 5) % 2
        # the type with the longer name is registered first, in a call of its own (another step module) -- same converter
        M.ParseMatcher.register_type(Colorful=(self.parse_color_v1 if self.color_version else self.parse_color))
        M.ParseMatcher.register_type(Color=(self.parse_color_v1 if self.color_version else self.parse_color), Number=self.parse_number)
        self._nreg = getattr(self, "_nreg", 0) + 1
        if self._nreg % 2 == 0 and getattr(self, "_used_reg", None) is not None:
            # every second history runs on a registry that was used before and emptied with the public clear(): it has to
            # behave like a new one
            reg = self._used_reg
            reg.clear()
            self.mon.count("registries_reused_after_clear")
        else:
            reg = self.step_registry.StepRegistry()
            reg.error_handler.file = open(os.devnull, "w")
        self._used_reg = reg
        return reg

    def make_fn(self, fid, decorated=False):
        """A recording step function with its OWN source location (file + line), as real step functions have:
        the registry identifies 'the very same function' by pattern + location."""
        self._nfn = getattr(self, "_nfn", 0) + 1
        flavour = {0: "async_with_timeout", 1: "async_plain"}.get(self._nfn % 7, "sync")
        if flavour == "sync":
            src = "\n" * self._nfn + "def fn_%d(context, *args, **kwargs):\n    calls.append((fid, args, kwargs))\n" % self._nfn
        else:
            # a coroutine step wrapped with behave's own decorator (both forms): it receives what a plain function receives
            deco = "@async_run_until_complete(timeout=30)" if flavour == "async_with_timeout" else "@async_run_until_complete"
            src = "\n" * self._nfn + "%s\nasync def fn_%d(context, *args, **kwargs):\n    calls.append((fid, args, kwargs))\n" % (deco, self._nfn)
        if flavour == "sync" and (self._nfn % 7 == 2 or decorated):
            flavour = "behind_shared_decorator"
        self.mon.seen("step_function_flavour", flavour)
        from behave.api.async_step import async_run_until_complete
        ns = {"calls": self.calls, "fid": fid, "async_run_until_complete": async_run_until_complete}
        # two source files only: many different functions share a file and differ in their line alone (copy/paste duplicates
        # inside one steps module), others live in different files
        exec(compile(src, "/verif/generated_steps/steps_%s.py" % "ab"[self._nfn % 3 == 0], "exec"), ns)
        fn = ns["fn_%d" % self._nfn]
        if flavour == "behind_shared_decorator":
            # several step functions behind ONE user decorator written with functools.wraps (@logged): each is still its own
            # function at its own place -- the decorator's inner wrapper is not "the" step function
            fn = self.logged(fn)
        return fn

    def register(self, reg, kind, step_type, ptext, fn):
        self.matchers.use_step_matcher(kind)
        try:
            reg.add_step_definition(step_type, ptext, fn)
        finally:
            self.matchers.use_step_matcher("parse")


class FakeStep(object):
    def __init__(self, step_type, name):
        self.step_type = step_type
        self.name = name


class FakeContext(object):
    def use_with_user_mode(self):
        import contextlib
        return contextlib.nullcontext()


# ---------------------------------------------------------------------------
def check_pattern(lab, mon, rng, kind, sample=False):
    toks = gen_pattern(rng, kind)
    memo = lab.__dict__.setdefault("_custom_patterns", {})
    if kind in ("parse", "cfparse"):
        if any(t[0] == "custom" for t in toks):
            memo.setdefault(kind, []).append(toks)
            del memo[kind][:-8]
        elif memo.get(kind) and rng.random() < 0.3:
            # the very same pattern TEXT again, a few registrations (and possibly a re-registration of its custom type) later
            toks = rng.choice(memo[kind])
            mon.count("patterns_with_custom_type_seen_again")
    ptext = pattern_text(toks, kind)
    text, fields = instance(toks, rng)
    reg = lab.fresh_registry()
    if lab.color_version == 1:
        # the Color type is registered with its second converter at the moment: that is what the step function must receive
        fields = [((f[0], f[1], "c:" + f[1]) + tuple(f[3:])) if (f[5] in ("custom", "optional") and f[1] in COLORS) else f for f in fields]
    fn = lab.make_fn("f")
    case = {"kind": kind, "pattern": ptext, "text": text, "tokens": toks}
    nfields = len(fields)
    mon.case(("pat", kind, ptext, text), nfields >= 1)
    mon.seen("matcher_kind", kind)
    if any(t[0] == "lit" and re.search(r"\s", t[1]) for t in toks):
        mon.seen("literal_text_class", "run_of_blanks_or_tab_or_nbsp_inside")
    for t in toks:
        mon.seen("token_kind", t[0])
        if len(t) > 1 and t[0] != "lit" and t[1] in ("type", "match", "case"):
            mon.seen("field_name_class", "soft_keyword")
        if t[0] == "custom":
            mon.seen("custom_type_name", "Colorful" if t[1] in ("n2", "n4", "match") else "Color")
    if kind in ("re", "re0") and rng.random() < 0.3:
        # a step module with a definition whose regular expression cannot be compiled comes FIRST: behave reports it as a bad step
        # definition and ignores it -- the step below is served by the good definition
        import io as _io
        import contextlib as _ctx
        broken = rng.choice(["(unbalanced " + ptext.lstrip("^"), ptext.rstrip("$") + " [z-a]", "(?P<n1>x)(?P<n1>y) .*"])
        with _ctx.redirect_stdout(_io.StringIO()), _ctx.redirect_stderr(_io.StringIO()):
            try:
                lab.register(reg, kind, "step", broken, lab.make_fn("bad"))
            except Exception:
                pass
        case["bad_definition_registered_first"] = broken
        mon.seen("registration_history", "bad_definition_first")
    try:
        lab.register(reg, kind, "step", ptext, fn)
    except Exception as ex:
        mon.check("match.instance_matches", False, dict(case=case, error="registration: %r" % ex))
        return
    if not reg.steps["step"]:
        mon.check("match.instance_matches", False, dict(case=case, error="definition was rejected as BAD STEP-DEFINITION"))
        return
    m = reg.find_match(FakeStep("given", text))
    ok = m is not None and not isinstance(m, lab.matchers.MatchWithError)
    mon.check("match.instance_matches", ok, lambda: dict(case=case, match=repr(m), error=repr(getattr(m, "stored_error", None))))
    if not ok:
        return
    # ---- arguments as reported --------------------------------------------------------------------------
    args = list(m.arguments)
    present = [a for a in args if a.original is not None]
    for a in present:
        mon.check("args.span_invariant", text[a.start:a.end] == a.original, lambda: dict(case=case, start=a.start, end=a.end, original=a.original))
    got_desc = [(a.name, a.original, a.value) for a in present]
    pfields = [f for f in fields if f[1] is not None]
    want_desc = [(f[0], f[1], f[2]) for f in pfields]
    if kind in ("re", "re0"):
        want_desc = [(f[0], f[1], f[1]) for f in pfields]
    mon.check("args.reported", got_desc == want_desc and [(a.start, a.end) for a in present] == [(f[3], f[4]) for f in pfields],
              lambda: dict(case=case, got=[(a.name, a.original, a.value, a.start, a.end) for a in args], want=[f[:5] for f in fields]))
    # ---- what the step function receives ------------------------------------------------------------------
    del lab.calls[:]
    try:
        m.run(FakeContext())
    except Exception as ex:
        mon.check("args.values_and_passing", False, lambda: dict(case=case, error=repr(ex)))
        return
    want_kwargs = {f[0]: (f[2] if kind in ("parse", "cfparse") else f[1]) for f in fields if f[0] is not None}
    want_args = tuple((f[2] if kind in ("parse", "cfparse") else f[1]) for f in fields if f[0] is None)
    got = lab.calls[-1] if lab.calls else None
    mon.check("args.values_and_passing", got is not None and got[1] == want_args and got[2] == want_kwargs,
              lambda: dict(case=case, got_args=(got[1] if got else None), got_kwargs=(got[2] if got else None),
                           want_args=want_args, want_kwargs=want_kwargs))
    # ---- near misses ---------------------------------------------------------------------------------------
    if kind != "re0":
        ref = ref_regex(toks, permissive=True)
        for how, t2 in near_misses(toks, text, rng):
            if ref.match(t2):
                mon.count("nomatch.reference_accepts_too")
                continue
            m2 = reg.find_match(FakeStep("given", t2))
            mon.check("nomatch.near_miss_rejected", m2 is None, lambda: dict(case=case, near_miss=how, text2=t2, match=repr(m2)))
    if sample:
        mon.sample({"matcher": kind, "pattern": ptext, "step_text": text, "expected_fields": [f[:5] for f in fields]})


# ---------------------------------------------------------------------------
POOL = [
    ("parse", [("lit", "buy"), ("int", "n1"), ("lit", "apples")]),
    ("parse", [("lit", "buy"), ("named", "n1"), ("lit", "apples")]),
    ("parse", [("lit", "buy"), ("named", "n1")]),
    ("re", [("lit", "buy"), ("runnamed",), ("lit", "apples")]),
    ("cfparse", [("lit", "sell"), ("many", "n1"), ("lit", "items")]),
    ("parse", [("lit", "buy"), ("lit", "seven"), ("lit", "apples")]),
    ("re", [("lit", "sell"), ("rnamed", "n1"), ("lit", "items")]),
    ("parse", [("lit", "Buy"), ("int", "n1"), ("lit", "apples")]),
]
LOOKUP_TEXTS = ["buy 42 apples", "buy seven apples", "buy two words", "sell 1, 22 items", "sell alpha items", "Buy 42 apples",
                "buy apples", "sell items", "buy 42 apples now", "buy {n1:d} apples", "buy {n1} apples"]
TYPES = ["given", "when", "then", "step"]


class Model(object):
    """Registry model: per type list + generic list; type-specific before generic; first hit wins."""
    def __init__(self):
        self.steps = {t: [] for t in TYPES}

    @staticmethod
    def matches(entry, text):
        kind, toks, fid, ptext = entry
        if kind == "re0":
            return re.match(ptext, text) is not None
        return ref_regex(toks, permissive=False).match(text) is not None

    def add(self, step_type, kind, toks, fid, ptext, fn_key):
        """Returns 'added' | 'ignored' | 'ambiguous'."""
        for e in self.steps[step_type]:
            if e[3] == ptext and e[4] == fn_key:
                return "ignored"
            # "a pattern that an already registered definition of that type matches": the existing definition is
            # applied to the new pattern TEXT.  A parse pattern matches its own text; a regular expression normally
            # does not match its own source text (so two identical 're' patterns are not demanded to be ambiguous).
            if (e[3] == ptext and e[0] in ("parse", "cfparse")) or self.matches(e[:4], ptext):
                return "ambiguous"
        self.steps[step_type].append((kind, toks, fid, ptext, fn_key))
        return "added"

    def find(self, step_type, text):
        cands = list(self.steps[step_type])
        if step_type != "step":
            cands += self.steps["step"]
        for e in cands:
            if self.matches(e[:4], text):
                return e[2]
        return None


def run_history(lab, mon, history, label):
    """history: list of (step_type, pool index, function slot)."""
    reg = lab.fresh_registry()
    model = Model()
    fns = {}
    desc = []
    for (step_type, pi, slot) in history:
        kind, toks = POOL[pi]
        ptext = pattern_text(toks, kind)
        fid = "%s#%d@%s" % (step_type, pi, slot)
        # one function object per slot (re-registering the very same function + pattern must be ignored)
        if slot not in fns:
            # (in every fourth history ALL step functions sit behind the same functools.wraps decorator)
            fns[slot] = lab.make_fn(slot, decorated=(len(history) + sum(pi for _t, pi, _s in history)) % 4 == 0)
        fn = fns[slot]
        want = model.add(step_type, kind, toks, slot, ptext, id(fn))
        desc.append((step_type, kind, ptext, slot, want))
        try:
            n0 = len(reg.steps[step_type])
            lab.register(reg, kind, step_type, ptext, fn)
            got = "added" if len(reg.steps[step_type]) == n0 + 1 else "ignored"
        except lab.step_registry.AmbiguousStep:
            got = "ambiguous"
        except Exception as ex:
            got = "error %r" % ex
        if want == "ignored":
            mon.check("registry.same_definition_ignored", got == "ignored", lambda: dict(history=desc, got=got))
        else:
            mon.check("registry.ambiguity_iff_model", got == want, lambda: dict(history=desc, got=got, want=want))
        if got != want:
            return
        # lookups BETWEEN registrations (a lookup must not change what later registrations and lookups see)
        if not lookups(lab, mon, reg, model, desc, LOOKUP_TEXTS[len(desc) % 3::3]):
            return
    mon.case((label, tuple(history)), len(history) >= 2)
    lookups(lab, mon, reg, model, desc, LOOKUP_TEXTS)


def lookups(lab, mon, reg, model, desc, texts):
    ok_all = True
    for step_type in ("given", "when", "then", "step"):
        for text in texts:
            want = model.find(step_type, text)
            del lab.calls[:]
            try:
                m = reg.find_match(FakeStep(step_type, text))
                got = None
                if m is not None and not isinstance(m, lab.matchers.MatchWithError):
                    m.run(FakeContext())
                    got = lab.calls[-1][0] if lab.calls else "<not called>"
                elif m is not None:
                    got = "<match with error>"
            except Exception as ex:
                got = "error %r" % ex
            ok_all = mon.check("registry.lookup_matches_model", got == want,
                               lambda: dict(history=list(desc), step_type=step_type, text=text, got=got, want=want)) and ok_all
            # the other lookup (used by the steps.* formatters): it names the definition the runner would execute
            try:
                sd = reg.find_step_definition(FakeStep(step_type, text))
                sd_func = getattr(sd, "func", None)
                m_func = getattr(m, "func", None) if m is not None else None
                mon.check("registry.find_step_definition_agrees_with_find_match", sd_func is m_func,
                          lambda: dict(history=list(desc), step_type=step_type, text=text,
                                       find_step_definition=getattr(sd, "pattern", None), find_match=repr(got)))
            except Exception as ex:
                mon.check("registry.find_step_definition_agrees_with_find_match", False,
                          lambda: dict(history=list(desc), step_type=step_type, text=text, error=repr(ex)))
    return ok_all


def module_loading(lab, mon, rng):
    """load_step_modules: the default matcher is restored after each module."""
    from behave import runner_util, step_registry, matchers
    root = tempfile.mkdtemp(prefix="bvm-steps-")
    saved = {k: list(v) for k, v in step_registry.registry.steps.items()}
    try:
        with open(os.path.join(root, "a_first.py"), "w") as fh:
            fh.write("from behave import step, use_step_matcher\nuse_step_matcher('re')\n"
                     "@step(r'alpha (?P<n>\\d+) times')\ndef s1(context, n):\n    context.got = ('re', n)\n")
        with open(os.path.join(root, "b_second.py"), "w") as fh:
            fh.write("from behave import step\n@step('beta {n:d} times')\ndef s2(context, n):\n    context.got = ('parse', n)\n")
        with open(os.path.join(root, "c_third.py"), "w") as fh:
            fh.write("from behave import step, use_step_matcher, register_type\nimport parse\nuse_step_matcher('cfparse')\n"
                     "@parse.with_pattern(r'\\d+')\ndef parse_num(text):\n    return int(text)\nregister_type(Num=parse_num)\n"
                     "@step('gamma {ns:Num+} times')\ndef s3(context, ns):\n    context.got = ('cfparse', ns)\n")
        with open(os.path.join(root, "d_fourth.py"), "w") as fh:
            fh.write("from behave import step\n@step('delta {n:d} (times)')\ndef s4(context, n):\n    context.got = ('parse', n)\n")
        step_registry.registry.clear()
        matchers.use_default_step_matcher("parse")
        try:
            runner_util.load_step_modules([root])
        except Exception as ex:
            mon.check("modules.default_matcher_reset", False, dict(modules="a_first (re), b_second, c_third (cfparse), d_fourth", error=repr(ex)))
            return
        reg = step_registry.registry
        results = {}
        for text in ("alpha 3 times", "beta 4 times", "gamma 1, 2 times", "delta 5 (times)"):
            m = reg.find_match(FakeStep("given", text))
            ctx = FakeContext()
            if m is not None and not isinstance(m, matchers.MatchWithError):
                m.run(ctx)
                results[text] = getattr(ctx, "got", None)
            else:
                results[text] = None
        want = {"alpha 3 times": ("re", "3"), "beta 4 times": ("parse", 4), "gamma 1, 2 times": ("cfparse", [1, 2]),
                "delta 5 (times)": ("parse", 5)}
        mon.case(("modules",), True)
        mon.check("modules.default_matcher_reset", results == want, lambda: dict(got={k: repr(v) for k, v in results.items()},
                                                                            want={k: repr(v) for k, v in want.items()}))
        mon.check("modules.matcher_after_loading_is_default", matchers.get_step_matcher_factory().current_matcher is matchers.ParseMatcher,
                  lambda: dict(current=repr(matchers.get_step_matcher_factory().current_matcher)))
    finally:
        step_registry.registry.steps = saved
        matchers.use_default_step_matcher("parse")
        shutil.rmtree(root, ignore_errors=True)

def module_loading_random(lab, mon, rng):
    """Generated step directories: k modules, each optionally selecting a matcher; one without a selection must get the default
    matcher whatever the module loaded before it selected."""
    from behave import runner_util, step_registry, matchers
    root = tempfile.mkdtemp(prefix="bvm-steps-")
    saved = {k: list(v) for k, v in step_registry.registry.steps.items()}
    default = rng.choice(["parse", "parse", "re", "cfparse"])
    k = rng.randint(2, 6)
    plan, want = [], {}
    modnames = []
    imported = None
    try:
        for i in range(k):
            choice = rng.choice([None, None, "re", "parse", "cfparse", "re0"])
            effective = choice or default
            word = "w%d%s" % (i, rng.choice(["a", "b", "c", "\u00e4", "\u00df", "\u00a3"]))      # (step modules are UTF-8 source files)
            deco = rng.choice(["step", "given", "when", "then", "Given", "When", "Then", "Step"])
            if effective in ("re", "re0"):
                pattern, value = "%s (?P<n>\\d+) \\(x\\)" % word, "7%d" % i
            else:
                pattern, value = "%s {n:d} (x)" % word, 70 + i
            text = "%s 7%d (x)" % (word, i)
            src = "from behave import %s, use_step_matcher\n" % deco
            if choice and rng.random() < 0.3:
                # the old spelling (deprecated alias, still exported): step_matcher(NAME) is use_step_matcher(NAME)
                src += "import warnings\nfrom behave import step_matcher\nwith warnings.catch_warnings():\n    warnings.simplefilter('ignore')\n    step_matcher(%r)\n" % choice
                mon.seen("matcher_selected_with", "deprecated_alias_step_matcher")
            elif choice:
                src += "use_step_matcher(%r)\n" % choice
                mon.seen("matcher_selected_with", "use_step_matcher")
            src += "@%s(%r)\ndef s%d(context, n):\n    context.got = (%r, n)\n" % (deco, pattern.replace("\\\\", "\\"), i, word)
            modname = "m%02d_%s" % (i, word.encode("ascii", "replace").decode().replace("?", "x"))
            with open(os.path.join(root, modname + ".py"), "w", encoding="utf-8") as fh:
                fh.write(src)
            plan.append((choice, effective, word, deco))
            modnames.append(modname)
            # a definition made with @given / @Given answers Given steps only (likewise when/then); @step / @Step answers all
            for st_type in ("given", "when", "then"):
                binds = deco.lower() in ("step", st_type)
                want[(st_type, text)] = (word, value) if binds else None
        later = [j for j in range(1, k) if plan[j][0]]
        if later and rng.random() < 0.4:
            # the first module imports a later one at its end (shared steps): when behave loads that module itself afterwards, its
            # definitions are "the very same" ones and are ignored -- wherever the process was started (here: not in the project)
            imported = modnames[rng.choice(later)]
            with open(os.path.join(root, modnames[0] + ".py"), "a") as fh:
                fh.write("import %s\n" % imported)
            mon.seen("step_module_imports_another", "yes")
        step_registry.registry.clear()
        if rng.random() < 0.5:
            matchers.use_default_step_matcher(default)
            mon.seen("project_default_given_by", "use_default_step_matcher")
        else:
            # the other documented project-wide switch: use_step_matcher(NAME) at module level of environment.py, i.e. BEFORE the
            # step modules are loaded -- what is current then is the default for every module
            matchers.use_default_step_matcher("parse")
            matchers.use_step_matcher(default)
            mon.seen("project_default_given_by", "use_step_matcher_before_loading")
        # the console of the process may have any encoding (PYTHONIOENCODING=latin-1, a cp1252 terminal): source files are read as
        # what they are
        import io as _io
        console = rng.choice(["utf-8", "latin-1", "cp1252"])
        mon.seen("console_encoding_while_loading", console)
        real_stdout = sys.stdout
        if console != "utf-8":
            sys.stdout = _io.TextIOWrapper(_io.BytesIO(), encoding=console, errors="backslashreplace")
        try:
            runner_util.load_step_modules([root])
        except Exception as ex:
            sys.stdout = real_stdout
            mon.check("modules.default_matcher_reset", False,
                      lambda: dict(default=default, modules=[list(p) for p in plan], first_module_imports=imported, error=repr(ex)))
            return
        finally:
            sys.stdout = real_stdout
        reg = step_registry.registry
        results = {}
        for (st_type, text) in want:
            m = reg.find_match(FakeStep(st_type, text))
            ctx = FakeContext()
            if m is not None and not isinstance(m, matchers.MatchWithError):
                m.run(ctx)
                results[(st_type, text)] = getattr(ctx, "got", None)
            else:
                results[(st_type, text)] = None
        for d in set(p[3] for p in plan):
            mon.seen("decorator_used", d)
        mon.case(("modules", default, tuple(p[0] for p in plan)), True)
        mon.seen("module_default", default)
        mon.check("modules.default_matcher_reset", results == want,
                  lambda: dict(default=default, modules=[list(p) for p in plan],
                               differences={"%s %s" % k: [repr(results.get(k)), repr(v)] for k, v in want.items() if results.get(k) != v}))
        cur = matchers.get_step_matcher_factory().current_matcher
        mon.check("modules.matcher_after_loading_is_default", cur is matchers.get_step_matcher_factory().step_matcher_class_mapping[default],
                  lambda: dict(current=repr(cur), default=default))
    finally:
        step_registry.registry.steps = saved
        matchers.use_default_step_matcher("parse")
        for nm in modnames:
            sys.modules.pop(nm, None)
        shutil.rmtree(root, ignore_errors=True)


def partial_converters(lab, mon, rng):
    """User-defined types whose converter REJECTS some of the texts its regular expression accepts (positive number, month
    1..12): the step is bound to the first definition whose pattern matches -- the lookup ends there with a match-with-error
    (the step ends in error), it does not fall through to a later / generic definition that would take the raw text."""
    import parse
    M = lab.matchers
    excs = [ValueError, KeyError, TypeError, ZeroDivisionError]
    exc = rng.choice(excs)

    @parse.with_pattern(r"\d+")
    def parse_positive(text):
        if int(text) <= 0:
            raise exc("not positive: %r" % text)
        return int(text)

    @parse.with_pattern(r"\d+")
    def parse_month(text):
        return {str(i): i for i in range(1, 13)}[text] if exc is KeyError else (int(text) if 1 <= int(text) <= 12 else (_ for _ in ()).throw(exc("no month: %r" % text)))

    reg = lab.fresh_registry()
    M.ParseMatcher.register_type(Positive=parse_positive, Month=parse_month)
    specific_kind = rng.choice(["parse", "cfparse"])
    generic_kind = rng.choice(["parse", "re"])
    tname, good, bad = rng.choice([("Positive", "3", "0"), ("Month", "12", "13"), ("Month", "1", "0")])
    head = rng.choice(["I order", "we ship", "bestelle"])
    tail = rng.choice(["pizzas", "items now", "x"])
    specific_type = rng.choice(["given", "when", "then"])
    sp_text = "%s {n:%s} %s" % (head, tname, tail)
    ge_text = ("%s {what} %s" % (head, tail)) if generic_kind == "parse" else ("%s (?P<what>.+) %s" % (head, tail))
    f_spec, f_gen, f_other = lab.make_fn("specific"), lab.make_fn("generic"), lab.make_fn("other")
    order = [("spec", specific_kind, specific_type, sp_text, f_spec), ("gen", generic_kind, "step", ge_text, f_gen),
             ("other", "parse", "step", "something else entirely", f_other)]
    rng.shuffle(order)
    desc = []
    try:
        for tag, kind, st, ptext, fn in order:
            lab.register(reg, kind, st, ptext, fn)
            desc.append((st, kind, ptext, tag))
    except Exception as ex:
        mon.check("registry.partial_converter_lookup", False, lambda: dict(history=desc, error=repr(ex)))
        return
    mon.case(("partial-converter", tuple(desc), exc.__name__), True)
    mon.seen("converter_rejects_with", exc.__name__)
    for step_type in ("given", "when", "then"):
        for value, kind in ((good, "accepted"), (bad, "rejected"), ("many", "no_match_for_specific")):
            text = "%s %s %s" % (head, value, tail)
            if step_type == specific_type and kind == "accepted":
                want = ("specific", {"n": int(value)})
            elif step_type == specific_type and kind == "rejected":
                want = "<match with error>"
            else:
                want = ("generic", {"what": value})
            del lab.calls[:]
            try:
                m = reg.find_match(FakeStep(step_type, text))
                if m is None:
                    got = None
                elif isinstance(m, M.MatchWithError):
                    got = "<match with error>"
                else:
                    m.run(FakeContext())
                    got = (lab.calls[-1][0], dict(lab.calls[-1][2])) if lab.calls else "<not called>"
            except Exception as ex:
                got = "error %r" % ex
            mon.check("registry.partial_converter_lookup", got == want,
                      lambda: dict(history=desc, step_type=step_type, text=text, got=repr(got), want=repr(want), converter_raises=exc.__name__))
            if want == "<match with error>":
                mon.count("lookups_ending_in_converter_error")


def cucumber_expressions(lab, mon, rng):
    """The alternative matcher class behave.cucumber_expression.StepMatcher4CucumberExpressions: expressions with 0, 1 and 2
    parameters ({int}, {word}, {string}), full-text match, positional arguments in text order."""
    try:
        from behave.cucumber_expression import use_step_matcher_for_cucumber_expressions
    except Exception as ex:          # optional dependency missing: nothing to observe
        mon.note("cucumber expressions not available: %r" % (ex,))
        return
    M = lab.matchers
    reg = lab.fresh_registry()
    word = rng.choice(["basket", "Korb", "queue"])
    defs = [("an empty %s" % word, 0), ("I have {int} items in the %s" % word, 1), ("{word} puts {int} items into the %s" % word, 2),
            ("the %s is called {string}" % word, 1), ("the %s is (still )empty/full" % word, 0)]
    rng.shuffle(defs)
    fns = {}
    try:
        use_step_matcher_for_cucumber_expressions()
        for i, (ptext, npar) in enumerate(defs):
            fns[ptext] = lab.make_fn("cuke%d" % i)
            reg.add_step_definition(rng.choice(["given", "step"]), ptext, fns[ptext])
    except Exception as ex:
        mon.check("cucumber.lookup", False, lambda: dict(definitions=defs, error=repr(ex)))
        return
    finally:
        M.use_step_matcher("parse")
    n = rng.randint(0, 99)
    who = rng.choice(["Alice", "Bob"])
    table = [("an empty %s" % word, "an empty %s" % word, ()),
             ("I have %d items in the %s" % (n, word), "I have {int} items in the %s" % word, (n,)),
             ("%s puts %d items into the %s" % (who, n, word), "{word} puts {int} items into the %s" % word, (who, n)),
             ('the %s is called "big one"' % word, "the %s is called {string}" % word, ("big one",)),
             ("the %s is still empty" % word, "the %s is (still )empty/full" % word, ()),
             ("the %s is full" % word, "the %s is (still )empty/full" % word, ()),
             ("an empty %s now" % word, None, None), ("An empty %s" % word, None, None), ("I have many items in the %s" % word, None, None),
             ("x an empty %s" % word, None, None)]
    index = {ptext: "cuke%d" % i for i, (ptext, _n) in enumerate(defs)}
    mon.case(("cucumber", tuple(defs), n, who), True)
    for text, ptext, args in table:
        del lab.calls[:]
        want = None if ptext is None else (index[ptext], tuple(args))
        try:
            m = reg.find_match(FakeStep("given", text))
            if m is None:
                got = None
            elif isinstance(m, M.MatchWithError):
                got = "<match with error>"
            else:
                m.run(FakeContext())
                got = (lab.calls[-1][0], tuple(lab.calls[-1][1])) if lab.calls else "<not called>"
        except Exception as ex:
            got = "error %r" % ex
        mon.check("cucumber.lookup", got == want, lambda: dict(definitions=defs, text=text, got=repr(got), want=repr(want)))
        mon.seen("cucumber_expression_parameters", "none" if args == () else ("no_match" if args is None else str(len(args))))


def bindings_in_a_run(mon, rng):
    """The same step text under several keywords in ONE scenario, with one definition PER STEP TYPE (@given / @when / @then): in a
    dry run (where steps are bound but not executed) and in a normal run every step is bound to the definition of its own type."""
    from ..lab.inproc import RunLab
    lab = RunLab()
    n = rng.choice([10, 20, 30, 110])
    text = "k%d %s" % (n, rng.choice(["is ready", "checks x", "does something"]))
    kws = rng.sample(["Given", "When", "Then"], rng.choice([2, 3]))
    steps = []
    for kw in kws:
        steps.append({"kw": kw, "text": text})
        if rng.random() < 0.4:
            steps.append({"kw": rng.choice(["And", "But"]), "text": text})
    bg = {"kind": "background", "name": "", "desc": [], "steps": [{"kw": "Given", "text": text, "first_of_background": True}]} if rng.random() < 0.4 else None
    feat = {"kind": "feature", "tags": [], "name": "F0", "desc": [], "background": bg, "file": "f0.feature",
            "items": [{"kind": "scenario", "tags": [], "name": "F0S1", "desc": [], "steps": steps}]}
    program = {"features": [feat], "outcomes": {text: "pass"}}
    want, last = [], None
    for st in ((bg["steps"] if bg else []) + steps):
        last = st["kw"].lower() if st["kw"] in ("Given", "When", "Then") else last
        want.append("step_typed_%s" % last)
    for dry in (True, False):
        bound = []

        class Binding(object):
            def match(self, match):
                bound.append(getattr(getattr(match, "func", None), "__name__", None))

            def __getattr__(self, name):
                if name.startswith("__"):
                    raise AttributeError(name)
                return lambda *a, **k: None
        obs = lab.run(program, args=["--dry-run"] if dry else [], formatters=lambda config, st: [Binding()])
        case = {"kind": "bindings-in-a-run", "steps": [[st["kw"], st["text"]] for st in steps], "background": bool(bg), "dry_run": dry}
        mon.case(("bindings", tuple(kws), n, bool(bg), dry), True)
        mon.seen("binding_observed_in", "dry_run" if dry else "normal_run")
        wrong_type = [c for c in obs.calls if c[0] == "<definition of another step type>"]
        mon.check("run.every_step_bound_to_the_definition_of_its_type", obs.escaped is None and bound == want and not wrong_type,
                  lambda: dict(case=case, bound=bound, want=want, escaped=repr(obs.escaped), wrong_type_calls=wrong_type[:3]))


def run(spec, mon):
    lab = Lab(mon)
    tier = spec.get("tier", "quick")
    rng = random.Random(spec["seed"])
    shard, of = spec["shard"], spec["of"]
    n = 700 if tier == "quick" else 12000
    for i in range(n):
        check_pattern(lab, mon, rng, KINDS[i % 4], sample=(i < 2 and shard == 0))
    # ---- exhaustive short histories --------------------------------------------------------------------------
    maxlen = 2 if tier == "quick" else 3
    entries = [(t, pi, slot) for t in ("given", "when", "step") for pi in range(6) for slot in ("f", "g")]
    idx = 0
    for L in range(1, maxlen + 1):
        for hist in itertools.product(entries, repeat=L):
            idx += 1
            if idx % of != shard:
                continue
            if L == 3 and (idx // of) % 6:
                continue
            run_history(lab, mon, list(hist), "exhaustive")
    mon.count("exhaustive_histories", idx if shard == 0 else 0)
    for i in range(40 if tier == "quick" else 2500):
        L = rng.randint(2, 6)
        hist = [(rng.choice(TYPES), rng.randrange(len(POOL)), rng.choice("fgh")) for _ in range(L)]
        run_history(lab, mon, hist, "random")
    for i in range(25 if tier == "quick" else 1500):
        partial_converters(lab, mon, rng)
    for i in range(10 if tier == "quick" else 400):
        cucumber_expressions(lab, mon, rng)
    module_loading(lab, mon, rng)
    for i in range(8 if tier == "quick" else 60):
        module_loading_random(lab, mon, rng)
    for i in range(6 if tier == "quick" else 200):
        bindings_in_a_run(mon, rng)


def replay(case, mon):
    print("pattern cases are self-describing (pattern, text); re-run the check with the same seed")


LEVEL_TEXT = ("Exploration with an exhaustive core: generated patterns for all four matcher kinds are registered in a fresh "
              "StepRegistry through the public API and looked up with instance texts whose raw field values are known: the "
              "recording step function must receive exactly the converted values (named by keyword, anonymous by position in "
              "text order), every reported Argument must satisfy text[start:end] == original, and literal near misses (wrong "
              "case, prefix, suffix, changed literal) must not match when an independent permissive reference regex rejects "
              "them; all ordered registration histories up to the length bound (plus random longer ones, with matcher "
              "switches) are replayed against a registry model (added / ignored / AmbiguousStep, then every lookup); "
              "load_step_modules is driven with generated step files; a wrapper on Matcher.match asserts the span invariant "
              "on every match of every workload.")
LEVEL_NOTE = "Trusted: reference regexes and the registry model in this module; plain raw values only."
TECHNIQUE = "runtime monitoring: recording step functions + reference-regex oracle + registry model over registration histories + wrapper invariant on Matcher.match"
