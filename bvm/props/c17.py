"""C17 -- rerun file lists exactly the unsuccessful scenarios; fed back it selects them."""
from __future__ import annotations

import os
import zlib
import random
import shutil
import tempfile

from . import runbase as RB
from ..ref import runmodel
from ..gen.prog import OUTCOMES
from ..gen.render import render_feature

ID = "C17"
LEVEL = "exploration"
RULE = ("two-run histories: 2-4 feature files on disk with passing, assertion-failing, erroring (exception, undefined, "
        "pending, converter error, hook error) and de-selected scenarios, plain and outline rows, inside and outside "
        "rules; run 1 with the rerun formatter writing to a file (sometimes over a stale file from an earlier run); the "
        "file's location lines are compared with the scenarios that ended failed or in an error-class status, in run "
        "order; run 2 is fed '@rerun.txt' through collect_feature_locations + parse_features and executed: selected and "
        "executed scenarios must be exactly the listed ones; a sample goes through `python -m behave` twice. "
        "Directed histories: a hook of a step-less scenario raises under a fail-fast environment; report directories that behave has to create; "
        "`behave --wip` with the rerun formatter and file named in behave.ini. "
        "A case = one two-run history; non-trivial = >=1 listed and >=1 unlisted scenario; distinct by hash of "
        "(program, args, fault).")
ASSUMPTIONS = [
    "scenarios are identified across the two runs by file:line (names are deliberately repeated in a third of the cases)",
    "comment and blank lines of the rerun file are ignored",
]
REQUIRED = {"rerun.lists_exactly_unsuccessful": {"quick": 500, "thorough": 25000},
            "rerun.second_run_selects_exactly": {"quick": 250, "thorough": 12000},
            "rerun.stale_file_removed": {"quick": 20, "thorough": 1000},
            "rerun.second_run_executes_exactly": {"quick": 250, "thorough": 12000},
            "rerun.lists_what_the_reference_model_says_failed": {"quick": 150, "thorough": 8000},
            "rerun.scenario_whose_hook_raised_is_listed": {"quick": 40, "thorough": 2000}}
REQUIRED_SEEN = {"listed_status": ["failed", "error", "hook_error"], "feature_order": ["directory", "explicit_reversed", "explicit_one_file_twice"],
                 "fail_fast_environment": ["feature", "rule"], "nested_sub_step": ["undefined", "fail", "error"], "second_run_environment": ["autoretry_recipe", "plain"], "first_run_selection": ["name_pattern_matching_rows_only"], "program_shape": ["stepless_scenarios"], "hook_habit": ["reads_statuses"], "run_ends_by": ["user_abort_possible"], "wip_run_with_rerun_by_config": ["some_listed", "none_to_list"], "rerun_file_directory": ["exists", "1_levels_to_create", "2_levels_to_create", "3_levels_to_create"], "stepless_scenario_with_raising_hook_under_fail_fast": ["before_scenario", "after_scenario", "before_tag", "after_tag"], "rerun_loop_shape": ["input_only", "same_file_in_and_out", "same_file_in_and_out_by_config"], "raising_hook_of_listed_scenario": ["before_tag", "after_tag", "before_scenario", "before_step"]}
NSHARDS = {"quick": 16, "thorough": 16}


def plan(tier, seed):
    n = NSHARDS[tier]
    return [{"shard": i, "of": n, "seed": seed * 1000 + i} for i in range(n)]


def classify(name, w):
    if name in ("rerun.second_run_selects_exactly", "rerun.second_run_executes_exactly", "rerun.second_run_skips_all_others") \
            and isinstance(w, dict) and w.get("rerun_file") not in (None, "rerun.txt") \
            and ("No such file" in str(w.get("error")) or "FileNotFoundError" in str(w.get("error")) or "InvalidFilenameError" in str(w.get("error"))):
        return "rerun-file-in-subdirectory-cannot-be-fed-back"
    return name


def read_rerun(path):
    if not os.path.exists(path):
        return None
    with open(path, "rb") as fh:
        data = fh.read()
    try:
        text = data.decode("utf-8")
    except UnicodeDecodeError:
        return ["<not UTF-8: %r>" % data[:80]]
    return [ln.strip() for ln in text.splitlines() if ln.strip() and not ln.strip().startswith("#")]


def one_history(lab, mon, rng, case, stale, sample=False):
    from behave.formatter.rerun import RerunFormatter
    from behave.formatter.base import StreamOpener
    from behave.runner_util import collect_feature_locations, parse_features
    root = tempfile.mkdtemp(prefix="bvm-rerun-")
    cwd = os.getcwd()
    try:
        os.makedirs(os.path.join(root, "features"))
        for f in case["program"]["features"]:
            text, _ = render_feature(f)
            with open(os.path.join(root, "features", f["file"]), "w", encoding="utf-8") as fh:
                fh.write(text)
        os.chdir(root)
        rerun_file = case.get("rerun_file") or "rerun.txt"
        if os.path.dirname(rerun_file) and case.get("rerun_dir_exists", True):
            os.makedirs(os.path.dirname(rerun_file))
        if stale and rerun_file == "rerun.txt":
            with open("rerun.txt", "w") as fh:
                fh.write("# -- RERUN: stale\nfeatures/f0.feature:3\n")
        files = [os.path.join("features", f["file"]) for f in case["program"]["features"]]
        order = "directory"
        if len(files) > 1 and rng.random() < 0.5:
            # explicit file arguments in an order that differs from the sorted path order: "in run order" is observable
            files.reverse()
            order = "explicit_reversed"
            if rng.random() < 0.35 and not case.get("hook_fault") and not case.get("nested"):
                # one file named twice, another one in between (behave b.feature a.feature b.feature): it is run twice, what fails in
                # it is listed at each of its places in run order
                files = files + [files[0]]
                order = "explicit_one_file_twice"
            feats = parse_features(collect_feature_locations(files))
        else:
            feats = parse_features(collect_feature_locations(["features"]))
        mon.seen("feature_order", order)

        def formatters(config, st):
            return [RerunFormatter(StreamOpener(filename=rerun_file), config)]
        entered1 = []

        def rec1(state, context, name, elem, tag):
            if name == "before_scenario":
                entered1.append(str(elem.location))
        plugins = [rec1]
        fail_fast = case.get("fail_fast")

        def skip_rest(state, context, name, elem, tag):
            # a "fail fast per feature / rule" environment.py: skip what is left of the container once a scenario failed
            if name == "after_scenario" and elem.status.has_failed():
                target = getattr(context, "rule", None) if fail_fast == "rule" else None
                (target or context.feature).skip(reason="fail fast")
        if fail_fast:
            plugins.append(skip_rest)
            mon.seen("fail_fast_environment", fail_fast)
        if case.get("hooks_read_status"):
            # hooks that LOOK at the statuses of what is running (feature.status, rule.status, the outline's) before anything else
            def reader(state, context, name, elem, tag):
                for obj in (elem, getattr(getattr(context, "scenario", None), "parent", None), getattr(context, "rule", None), getattr(context, "feature", None)):
                    if obj is not None and hasattr(obj, "status"):
                        try:
                            _ = obj.status
                        except Exception:
                            pass
            plugins.insert(0, reader)
            mon.seen("hook_habit", "reads_statuses")
        cleanup_owner = []
        if case.get("raising_cleanup"):
            # a scenario whose steps pass but whose cleanup raises ended in an error-class status: it belongs into the report
            def bad_cleanup_plugin(state, context, name, elem, tag):
                if name == "before_scenario" and not cleanup_owner and zlib.crc32(elem.name.encode("utf-8")) % 2 == 0:
                    cleanup_owner.append(str(elem.location))

                    def bad_cleanup():
                        raise RuntimeError("injected cleanup failure")
                    context.add_cleanup(bad_cleanup)
            plugins.append(bad_cleanup_plugin)
        nested = case.get("nested") or {}
        nest_state = {"busy": False}
        reached_outer = []

        def nest_plugin(state, context, text):
            if text in nested and not nest_state["busy"]:
                nest_state["busy"] = True
                reached_outer.append(context.scenario.name)
                try:
                    context.execute_steps(u"Given %s\n" % nested[text])
                finally:
                    nest_state["busy"] = False
        obs = lab.run(case["program"], args=case["args"], features=feats, formatters=formatters,
                      hook_fault=case.get("hook_fault"), hook_plugins=plugins, step_plugins=[nest_plugin] if nested else [])
        W = lambda **kw: RB.witness(case, **kw)
        if obs.escaped is not None:
            mon.check("run.no_exception_escapes", False, lambda: W(escaped=repr(obs.escaped)))
            return
        want = []
        status_of = {}
        for f in feats:
            for s in f.walk_scenarios():
                st = s.status.name
                status_of[s.name] = st
                if st == "failed" or st in RB.ERROR_CLASS:
                    want.append((str(s.location), s.name, st))
        lines = read_rerun(rerun_file)
        n_all = len(status_of)
        mon.case((RB.strip_case(case), stale), bool(want) and len(want) < n_all)
        got = lines or []
        mon.check("rerun.lists_exactly_unsuccessful", got == [w[0] for w in want],
                  lambda: W(got=got, want=[list(w) for w in want], file_exists=lines is not None))
        # ---- every listed location is the line where a scenario (or an examples row) really starts, and no location twice ----
        texts_on_disk = {}
        for entry in got:
            fpath, _sep, lno = entry.rpartition(":")
            try:
                if fpath not in texts_on_disk:
                    with open(fpath, encoding="utf-8") as fh:
                        texts_on_disk[fpath] = fh.read().split("\n")
                line_text = texts_on_disk[fpath][int(lno) - 1].strip()
            except Exception as ex:
                line_text = "<%r>" % (ex,)
            mon.check("rerun.location_is_the_line_of_a_scenario_or_row", line_text.startswith(("|", "Scenario", "Example")),
                      lambda: W(entry=entry, text_at_that_line=line_text, listed=got))
        if order == "explicit_one_file_twice":
            return      # (a file that runs twice is listed twice; feeding such a list back is not judged here)
        mon.check("rerun.no_location_listed_twice", len(set(got)) == len(got), lambda: W(listed=got))
        # ---- independent of the statuses behave assigned: what the reference model / the harness know ----------------
        loc_name = {}
        for f in feats:
            for sc in f.walk_scenarios():
                loc_name[str(sc.location)] = sc.name
        listed_names = [loc_name.get(l) for l in got]
        unique = len(set(status_of)) == sum(1 for f in feats for _ in f.walk_scenarios())
        if unique and not (case.get("hook_fault") or case.get("fail_fast") or case.get("raising_cleanup") or case.get("nested") or case["cfg"].get("cafs")):
            # (the model runs the features in the order this run had them: explicit file order / sorted directory listing)
            by_file = {f["file"]: f for f in case["program"]["features"]}
            in_run_order = [by_file[os.path.basename(ft.filename)] for ft in feats if os.path.basename(ft.filename) in by_file]
            pred = runmodel.predict(dict(case["program"], features=in_run_order), case["cfg"])
            model_failed = sorted(n for n, bad in pred.scen_failed.items() if bad)
            mon.check("rerun.lists_what_the_reference_model_says_failed", sorted(x or "?" for x in listed_names) == model_failed,
                      lambda: W(listed=listed_names, model=model_failed, statuses=status_of))
        if unique and case.get("hook_fault") and obs.faults_fired:
            for fired, owner in zip(obs.faults_fired, obs.fault_owners):
                hname, ename = fired[1], fired[2]
                victim = ename[0] if (hname.endswith("_step") and isinstance(ename, tuple)) else owner
                if victim in status_of:
                    mon.check("rerun.scenario_whose_hook_raised_is_listed", victim in listed_names,
                              lambda: W(hook=[hname, str(ename), fired[3]], scenario=victim, listed=listed_names, its_status=status_of.get(victim)))
                    mon.seen("raising_hook_of_listed_scenario", hname)
        if nested and unique:
            # a step that runs an undefined / failing / raising sub-step with context.execute_steps() fails: its scenario is listed
            for sname in reached_outer:
                mon.check("rerun.scenario_with_failing_sub_step_is_listed", sname in listed_names,
                          lambda: W(scenario=sname, nested=nested, listed=listed_names, its_status=status_of.get(sname)))
        if cleanup_owner and obs.verdict:
            mon.check("rerun.scenario_with_failed_cleanup_is_listed", cleanup_owner[0] in got,
                      lambda: W(scenario_whose_cleanup_raised=cleanup_owner[0], listed=got,
                                its_status=[w for w in status_of.items()][:0] or None))
        for w in want:
            mon.seen("listed_status", w[2])
        if not want:
            mon.check("rerun.stale_file_removed" if stale else "rerun.no_file_without_failures", lines is None,
                      lambda: W(stale=stale, content=lines))
            return
        if not lines:
            return
        # ---- run 2: feed the file back ------------------------------------------------------------
        try:
            locations = collect_feature_locations(["@" + rerun_file])
            feats2 = parse_features(locations)
        except Exception as ex:
            mon.check("rerun.second_run_selects_exactly", False, lambda: W(error=repr(ex), file=lines, rerun_file=rerun_file))
            return
        # scenarios are identified by their location (names may repeat); the second run is judged against what
        # the FILE lists (whether the file is right is checked above)
        selected = []
        for f in feats2:
            for s in f.walk_scenarios():
                if not s.should_skip:
                    selected.append(str(s.location))
        want_locs = list(lines or [])
        mon.check("rerun.second_run_selects_exactly", sorted(selected) == sorted(want_locs),
                  lambda: W(selected=selected, want=want_locs, file=lines))
        args2 = [a for a in case["args"] if not a.startswith("--tags") and a != "--stop" and a != "--dry-run"]
        entered = []

        with_recipe = (len(want_locs) + len(selected)) % 2 == 0 and not case.get("nested")

        def rec2(state, context, name, elem, tag):
            if name == "before_feature" and with_recipe:
                # the project's environment.py uses the documented auto-retry recipe: every scenario / outline of the feature is patched
                # with behave.contrib.scenario_autoretry -- what the second run executes is still what the file lists
                from behave.contrib.scenario_autoretry import patch_scenario_with_autoretry
                from behave.model import ScenarioOutline
                for x in elem.walk_scenarios(with_outlines=True):
                    if isinstance(x, ScenarioOutline) or not isinstance(getattr(x, "parent", None), ScenarioOutline):
                        patch_scenario_with_autoretry(x, max_attempts=2)
            if name == "before_scenario" and (not entered or entered[-1] != str(elem.location)):
                entered.append(str(elem.location))
        mon.seen("second_run_environment", "autoretry_recipe" if with_recipe else "plain")
        obs2 = lab.run(case["program"], args=args2, features=feats2, hook_plugins=[rec2])
        if obs2.escaped is not None:
            mon.check("run2.no_exception_escapes", False, lambda: W(escaped=repr(obs2.escaped)))
            return
        if getattr(obs2.runner, "aborted", False):
            # (the second run was interrupted again -- outcomes are deterministic: what it got to is a prefix of what the file lists;
            #  what it never reached stays untested)
            mon.check("rerun.second_run_executes_exactly", entered == want_locs[:len(entered)] or sorted(entered) == sorted(want_locs[:len(entered)]),
                      lambda: W(entered=entered, want=want_locs, file=lines, second_run="aborted again"))
            return
        mon.check("rerun.second_run_executes_exactly", sorted(entered) == sorted(want_locs),
                  lambda: W(entered=entered, want=want_locs, file=lines))
        bad = []
        for f in feats2:
            for s in f.walk_scenarios():
                if str(s.location) not in want_locs and s.status.name != "skipped":
                    bad.append((str(s.location), s.status.name))
        mon.check("rerun.second_run_skips_all_others", not bad, lambda: W(not_skipped=bad[:5]))
        if sample:
            mon.sample({"features": RB.case_texts(case), "args": case["args"], "rerun_file": lines,
                        "unsuccessful": [list(w) for w in want], "second_run_entered": entered})
    finally:
        os.chdir(cwd)
        shutil.rmtree(root, ignore_errors=True)


def duplicate_names(case, rng):
    """Give several scenarios / outlines of a feature the same name (legal Gherkin)."""
    for f in case["program"]["features"]:
        f.pop("_text", None)
        nodes = []

        def collect(c):
            for it in c["items"]:
                if it["kind"] == "rule":
                    collect(it)
                else:
                    nodes.append(it)
        collect(f)
        for kind in ("scenario", "outline"):
            same = [n for n in nodes if n["kind"] == kind]
            if len(same) >= 2:
                picked = rng.sample(same, rng.randint(2, len(same)))
                for n in picked:
                    n["name"] = "Same %s" % kind
    case["duplicate_names"] = True


def wip_history(mon, rng, all_pass=False):
    """The documented set-up -- behave.ini names the rerun formatter and its file -- and a `behave --wip` run (no -f on the command
    line): the file lists the @wip scenarios that did not succeed, a run without any removes the stale file."""
    from ..lab.subproc import Project
    # (all_pass: a program in which every step passes -- the run has nothing to list and must remove the stale file)
    gen = {"outcomes": ["fail", "error", "undefined"], "max_features": 2, "p_nonpass": 0.0 if all_pass else 0.3, "p_wip": 0.5, "p_stepless": 0.0, "max_items": 3}
    case = RB.gen_case(rng, gen=gen, p_stop=0.0, p_dry=0.0, p_noskipped=0.0, tags=False)
    cfg = dict(case["cfg"], tags=["lit", "wip"], stop=True)
    pred = runmodel.predict(case["program"], cfg)
    if pred.aborted:
        return
    proj = Project(case["program"])
    try:
        with open(os.path.join(proj.root, "behave.ini"), "w") as fh:
            fh.write("[behave]\nformat = rerun\noutfiles = rerun.txt\n")
        with open(os.path.join(proj.root, "rerun.txt"), "w") as fh:
            fh.write("# -- RERUN: stale\nfeatures/nosuch.feature:3\n")
        r1 = proj.run(["--wip"])
        if r1.get("timeout"):
            mon.note("subprocess watchdog fired (inconclusive case)")
            return
        lines = read_rerun(os.path.join(proj.root, "rerun.txt"))
        from behave.runner_util import parse_features
        cwd = os.getcwd()
        os.chdir(proj.root)
        try:
            feats = parse_features(["features/" + f["file"] for f in case["program"]["features"]])
        finally:
            os.chdir(cwd)
        by_loc = {}
        for f in feats:
            for sc in f.walk_scenarios():
                by_loc["features/%s:%d" % (os.path.basename(f.filename), sc.line)] = sc.name
    finally:
        proj.close()
    c2 = dict(case, args=["--wip"], config_file="format = rerun / outfiles = rerun.txt")
    want = sorted(n for n, bad in pred.scen_failed.items() if bad)
    got = None if lines is None else sorted(by_loc.get(l, "?" + l) for l in lines)
    mon.case(("wip", RB.strip_case(c2)), True)
    mon.seen("wip_run_with_rerun_by_config", "some_listed" if want else "none_to_list")
    mon.check("rerun.wip_run_with_configured_rerun_file", (got or []) == want and (lines is None) == (not want),
              lambda: RB.witness(c2, listed=got, model=want, file_exists=lines is not None, rc=r1["rc"], stdout=r1["stdout"][-400:], stderr=r1["stderr"][-300:]))


def subprocess_history(mon, rng, case):
    from ..lab.subproc import Project
    envname = RB.pick_environment(rng, mon, ["plain", "latin1_console", "latin1_console", "optimized", "warnings_as_errors_for_user_code"])
    if envname == "latin1_console":
        # a feature file with a non-ASCII name, in a process whose CONSOLE encoding is not the locale's: the report is a file, read
        # back in the next run like any list file
        case["program"]["features"][0]["file"] = u"gr\u00f6\u00dfe.feature"
        case["program"]["features"][0].pop("_text", None)
        mon.seen("feature_file_name_class", "non_ascii_under_latin1_console")
    proj = Project(case["program"])
    try:
        r1 = proj.run(case["args"] + ["-f", "rerun", "-o", "rerun.txt", "-f", "plain"], environment=envname)
        if r1.get("timeout"):
            mon.note("subprocess watchdog fired (inconclusive case)")
            return
        lines = read_rerun(os.path.join(proj.root, "rerun.txt"))
        if not lines:
            mon.count("subprocess.no_failures")
            return
        args2 = [a for a in case["args"] if not a.startswith("--tags") and a != "--stop" and a != "--dry-run"]
        loop = rng.choice(["input_only", "same_file_in_and_out", "same_file_in_and_out_by_config"])
        if loop == "same_file_in_and_out":
            # the usual "rerun until green" loop: the file is the input list AND the rerun report of the same run
            extra2 = ["@rerun.txt", "-f", "rerun", "-o", "rerun.txt", "-f", "plain"]
        elif loop == "same_file_in_and_out_by_config":
            with open(os.path.join(proj.root, "behave.ini"), "w") as fh:
                fh.write("[behave]\nformat = rerun\n    plain\noutfiles = rerun.txt\n")
            extra2 = ["@rerun.txt"]
        else:
            extra2 = ["@rerun.txt", "-f", "plain"]
        mon.seen("rerun_loop_shape", loop)
        r2 = proj.run(args2 + extra2, environment=envname)
        if r2.get("timeout"):
            mon.note("subprocess watchdog fired (inconclusive case)")
            return
        if loop != "input_only":
            # outcomes are deterministic: what was listed fails again and is listed again
            lines2 = read_rerun(os.path.join(proj.root, "rerun.txt"))
            mon.check("rerun.subprocess_loop_lists_the_same_again", sorted(lines2 or []) == sorted(lines),
                      lambda: RB.witness(case, loop=loop, first=lines, second=lines2, rc=(r1["rc"], r2["rc"]), stderr=r2["stderr"][-400:]))
        # scenarios entered in run 2 == scenarios at the listed locations (by first run's events: names of failing ones)
        entered2 = [e[2] for e in r2["events"] if e[0] == "hook" and e[1] == "before_scenario"]
        # expected: parse locations back to names via the files
        from behave.runner_util import parse_features
        cwd = os.getcwd()
        os.chdir(proj.root)
        try:
            feats = parse_features(["features/" + f["file"] for f in case["program"]["features"]])
        finally:
            os.chdir(cwd)
        by_loc = {}
        for f in feats:
            for s in f.walk_scenarios():
                by_loc["features/%s:%d" % (os.path.basename(f.filename), s.line)] = s.name
        want = [by_loc.get(l) for l in lines]
        mon.case(("sub", RB.strip_case(case)), True)
        mon.check("rerun.subprocess_file_lists_scenario_locations", all(w is not None for w in want),
                  lambda: RB.witness(case, file=lines, known_locations=sorted(by_loc)[:8], process_environment=envname))
        mon.check("rerun.subprocess_second_run_executes_exactly", sorted(entered2) == sorted(x for x in want if x),
                  lambda: RB.witness(case, entered=entered2, want=want, file=lines, rc=(r1["rc"], r2["rc"]), stdout=r2["stdout"][-400:]))
    finally:
        proj.close()


def run(spec, mon):
    from ..lab.inproc import RunLab
    lab = RunLab()
    tier = spec.get("tier", "quick")
    rng = random.Random(spec["seed"])
    outs = [o for o in OUTCOMES if o not in ("ki",)]
    n = 45 if tier == "quick" else 1800
    for i in range(n):
        gen = {"outcomes": outs, "max_features": rng.choice([2, 3, 4]), "p_nonpass": rng.choice([0.0, 0.3, 0.5]),
               "p_stepless": 0.0, "max_items": 2, "max_rules": 1}
        if i % 9 == 4:
            # the user interrupts the run (KeyboardInterrupt while a step runs) / a step calls context.abort(): the interrupted
            # scenario did not succeed -- it is listed together with what failed before it
            gen.update({"outcomes": outs + ["ki", "abort"], "weights": {"ki": 2.0, "abort": 1.0}, "p_nonpass": 0.5})
            mon.seen("run_ends_by", "user_abort_possible")
        if i % 7 == 5:
            # scenarios without any step in features without background: skipped in the second run unless listed
            gen.update({"p_stepless": 0.35, "p_background": 0.0, "p_rule_background": 0.0})
            mon.seen("program_shape", "stepless_scenarios")
        if i % 12 == 0:
            gen.update({"p_outline": 0.7, "p_nonpass": 0.5, "p_empty_examples": 0.0, "outline_min_rows": 2})
        case = RB.gen_case(rng, gen=gen, p_stop=0.1, p_dry=0.0, p_noskipped=0.3, p_names=0.15)
        if i % 12 == 0:
            # run 1 selects by name, with a pattern that only the generated names of outline ROWS match (row id / Examples title)
            pat = rng.choice(["@\\d\\.2", "@1\\.1", "E2$", "E1$", "@\\d\\.[23]", "-- @"])
            case["cfg"]["names"] = [pat]
            case["cfg"]["tags"] = None
            case["args"] = [a for a in case["args"] if not a.startswith(("--name", "--tags"))] + ["--name=%s" % pat]
            mon.seen("first_run_selection", "name_pattern_matching_rows_only")
        if i % 3 == 2:
            duplicate_names(case, rng)
        if i % 4 == 1:
            obs0 = lab.run(case["program"], args=case["args"])
            ks = [k for k, h in enumerate(obs0.hooks) if h[0] in ("before_scenario", "after_scenario", "before_step", "after_step", "before_tag", "after_tag")]
            if ks:
                case = dict(case, hook_fault={"k": rng.choice(ks), "exc": rng.choice(["Exception", "AssertionError"])}, hooks_read_status=(i % 8 == 1))
        if i % 5 == 3:
            case = dict(case, fail_fast=rng.choice(["feature", "rule"]))
        if i % 6 == 1 and not case.get("hook_fault") and not case.get("fail_fast"):
            # (not together with the fail-fast environment: skip() after a cleanup failure loses the error -- known finding of C13)
            case = dict(case, raising_cleanup=True)
            mon.seen("raising_cleanup", "scenario layer")
        if i % 5 == 4 and not case.get("hook_fault"):
            cands = [t for t, oc in case["program"]["outcomes"].items() if oc == "pass" and t[0] == "k"]
            if cands:
                sub_kind = rng.choice(["undefined", "undefined", "fail", "error"])
                sub = ("u9%d sub step" if sub_kind == "undefined" else "k9%d sub step") % rng.randrange(1000, 9999)
                if sub_kind != "undefined":
                    case["program"]["outcomes"][sub] = sub_kind
                case = dict(case, nested={rng.choice(cands): sub})
                mon.seen("nested_sub_step", sub_kind)
        if i % 10 == 7:
            # "-f rerun -o reports/rerun.txt": the report in a sub-directory, fed back as @reports/rerun.txt
            place = rng.choice(["reports/rerun.txt", "reports/rerun.txt", "build/reports/rerun.txt", "build/reports/2024/rerun.txt"])
            exists = place == "reports/rerun.txt" and rng.random() < 0.5
            # (directories that do not exist yet are made by behave when it opens the report -- however many levels)
            case = dict(case, rerun_file=place, rerun_dir_exists=exists)
            mon.seen("rerun_file_place", "subdirectory")
            mon.seen("rerun_file_directory", "exists" if exists else "%d_levels_to_create" % place.count("/"))
        if i % 4 == 2:
            # a feature file whose NAME contains a '#' (issue#12.feature): in a list file only a line that STARTS with '#' is a comment
            victim = rng.choice(case["program"]["features"])
            victim["file"] = "issue#%d.feature" % (12 + i)
            mon.seen("feature_file_name_class", "contains_hash")
        one_history(lab, mon, rng, case, stale=(i % 3 == 0), sample=(i == 2 and spec["shard"] == 0))
    # ---- directed: a hook of a STEP-LESS scenario raises, a later scenario of the feature fails, and the environment's
    #      fail-fast after_scenario hook skips the rest of the feature (rule): the first one stays listed
    for i in range(12 if tier == "quick" else 300):
        gen = {"outcomes": outs, "max_features": 2, "p_nonpass": 0.6, "p_stepless": 0.5, "p_background": 0.0,
               "p_rule_background": 0.0, "p_outline": 0.1, "max_items": 4, "max_rules": 1, "p_tag": 0.6}
        case = RB.gen_case(rng, gen=gen, p_stop=0.0, p_dry=0.0, p_noskipped=0.3, tags=False)
        cands = []
        for f in case["program"]["features"]:
            for it in f["items"]:
                for sc in (it["items"] if it["kind"] == "rule" else [it]):
                    if sc["kind"] == "scenario" and not sc["steps"]:
                        cands.append(sc)
        if not cands:
            continue
        sc = rng.choice(cands)
        hooks = ["before_scenario", "after_scenario"] + (["before_tag", "after_tag"] if sc["tags"] else [])
        h = rng.choice(hooks)
        tag = rng.choice(sc["tags"]) if h.endswith("_tag") else None
        case = dict(case, hook_fault={"match": [h, None if tag else sc["name"], tag], "exc": rng.choice(["Exception", "AssertionError"])},
                    fail_fast=rng.choice(["feature", "feature", "rule"]))
        mon.seen("stepless_scenario_with_raising_hook_under_fail_fast", h)
        one_history(lab, mon, rng, case, stale=False)
    for i in range(2 if tier == "quick" else 25):
        gen = {"outcomes": outs, "max_features": 2, "p_nonpass": 0.5, "p_stepless": 0.0}
        case = RB.gen_case(rng, gen=gen, p_stop=0.0, p_dry=0.0, tags=False)
        subprocess_history(mon, rng, case)
    for i in range(2 if tier == "quick" else 20):
        wip_history(mon, rng, all_pass=(i % 4 == 1))


def replay(case, mon):
    from ..lab.inproc import RunLab
    lab = RunLab()
    one_history(lab, mon, random.Random(0), case, stale=False)


LEVEL_TEXT = ("Exploration over two-run histories: real feature files on disk, run 1 with the rerun formatter writing its "
              "file (over a stale one in a third of the cases), the listed locations compared with the scenarios that "
              "ended failed or error-class (hook errors injected) in run order; the file is fed back through "
              "collect_feature_locations/parse_features and the second run must select, enter and execute exactly the "
              "listed scenarios and report all others skipped; a sample does both runs as `python -m behave` processes.")
LEVEL_NOTE = "Trusted: unique generated scenario names; the harness's reading of the rerun file (comments/blank lines ignored)."
TECHNIQUE = "runtime monitoring: two-run history checker (report file vs model statuses, second-run selection vs report)"
