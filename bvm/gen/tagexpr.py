"""Tag-formula ASTs, an independent evaluator, v2/v1 renderers and small-scope enumerators.

AST (JSON-friendly lists):
    ["lit", name]  ["glob", pattern]  ["not", t]  ["and", t1, t2, ...]  ["or", t1, t2, ...]  ["true"]
Nothing in this file imports behave or cucumber_tag_expressions.
"""
from __future__ import annotations

import itertools

# ---------------------------------------------------------------------------
# independent glob matcher: * ? [seq] [!seq] with ranges, case-sensitive, whole string
# ---------------------------------------------------------------------------

def _parse_class(pat, i):
    """pat[i] == '['.  Returns (negated, items, next_index) or None when unterminated."""
    j = i + 1
    neg = False
    if j < len(pat) and pat[j] == "!":
        neg = True
        j += 1
    start = j
    if j < len(pat) and pat[j] == "]":
        j += 1
    while j < len(pat) and pat[j] != "]":
        j += 1
    if j >= len(pat):
        return None
    body = pat[start:j]
    items = []
    k = 0
    while k < len(body):
        if k + 2 < len(body) and body[k + 1] == "-":
            items.append((body[k], body[k + 2]))
            k += 3
        else:
            items.append((body[k], body[k]))
            k += 1
    return neg, items, j + 1


def glob_match(pat, s):
    def rec(i, j):
        while i < len(pat):
            c = pat[i]
            if c == "*":
                # collapse
                while i < len(pat) and pat[i] == "*":
                    i += 1
                if i == len(pat):
                    return True
                for k in range(j, len(s) + 1):
                    if rec(i, k):
                        return True
                return False
            if c == "?":
                if j >= len(s):
                    return False
                i += 1
                j += 1
                continue
            if c == "[":
                cls = _parse_class(pat, i)
                if cls is not None:
                    neg, items, nxt = cls
                    if j >= len(s):
                        return False
                    hit = any(lo <= s[j] <= hi for lo, hi in items)
                    if hit == neg:
                        return False
                    i = nxt
                    j += 1
                    continue
                # unterminated: literal '['
            if j >= len(s) or s[j] != c:
                return False
            i += 1
            j += 1
        return j == len(s)
    return rec(0, 0)


WILD = set("*?[")


def is_wild(text):
    return any(c in WILD for c in text)


def operand(text):
    return ["glob", text] if is_wild(text) else ["lit", text]


def evaluate(t, tags):
    k = t[0]
    if k == "lit":
        return t[1] in tags
    if k == "glob":
        return any(glob_match(t[1], x) for x in tags)
    if k == "not":
        return not evaluate(t[1], tags)
    if k == "and":
        return all(evaluate(x, tags) for x in t[1:])
    if k == "or":
        return any(evaluate(x, tags) for x in t[1:])
    if k == "true":
        return True
    raise ValueError(t)


def subsets(universe):
    for r in range(len(universe) + 1):
        for c in itertools.combinations(universe, r):
            yield c


def truth_table(t, all_subsets):
    bits = 0
    for i, s in enumerate(all_subsets):
        if evaluate(t, set(s)):
            bits |= 1 << i
    return bits


def truth_table_of(check, all_subsets):
    bits = 0
    for i, s in enumerate(all_subsets):
        if check(list(s)):
            bits |= 1 << i
    return bits


def leaves(t):
    if t[0] in ("lit", "glob"):
        return [t[1]]
    if t[0] == "true":
        return []
    out = []
    for x in t[1:]:
        out.extend(leaves(x))
    return out


def depth(t):
    if t[0] in ("lit", "glob", "true"):
        return 0
    return 1 + max(depth(x) for x in t[1:])


# ---------------------------------------------------------------------------
# v2 renderers
# ---------------------------------------------------------------------------
PREC = {"or": 1, "and": 2, "not": 3, "lit": 4, "glob": 4}


def render_v2(t, rng=None, style="min", at=False):
    """style: min (only the parentheses precedence requires) | full (every operator node
    parenthesised) | inner (every operator node except the root parenthesised) | redundant (random extra parentheses and blanks; needs rng).
    at: True / False / "mixed" -- prefix operands with '@'."""
    red = style == "redundant"

    def coin(p):
        return red and rng is not None and rng.random() < p

    def name(n):
        use_at = at if at in (True, False) else (rng.random() < 0.5)
        return ("@" if use_at else "") + n

    def gap():
        return " " * rng.choice([2, 3]) if coin(0.3) else " "

    def r(t, parent):
        k = t[0]
        if k in ("lit", "glob"):
            s = name(t[1])
            wrap = coin(0.25)
        elif k == "not":
            s = "not" + gap() + r(t[1], PREC["not"])
            wrap = style == "full" or coin(0.3) or (style == "inner" and parent > 0)
        else:
            s = (gap() + k + gap()).join(r(x, PREC[k]) for x in t[1:])
            wrap = PREC[k] < parent or style == "full" or coin(0.3) or (style == "inner" and parent > 0)
        if wrap:
            s = ("( " + s + " )") if coin(0.4) else ("(" + s + ")")
            if coin(0.15):
                s = "(" + s + ")"
        return s
    return r(t, 0)


def render_v2_list(t, rng=None, style="min", at=False):
    """List-of-terms form: a top-level conjunction given as several arguments."""
    if t[0] == "and":
        return [render_v2(x, rng, style, at) for x in t[1:]]
    return [render_v2(t, rng, style, at)]


# ---------------------------------------------------------------------------
# enumerators
# ---------------------------------------------------------------------------

def enum_trees(operands, max_leaves, max_depth, allow_not=True):
    """All trees with binary and/or, unary not (never directly nested twice), up to bounds."""
    memo = {}

    def gen(nleaves, d, top_not_ok):
        key = (nleaves, d, top_not_ok)
        if key in memo:
            return memo[key]
        out = []
        if nleaves == 1:
            for o in operands:
                out.append(operand(o))
        if d > 0:
            if allow_not and top_not_ok:
                for x in gen(nleaves, d - 1, False):
                    out.append(["not", x])
            if nleaves >= 2:
                for left in range(1, nleaves):
                    for a in gen(left, d - 1, True):
                        for b in gen(nleaves - left, d - 1, True):
                            out.append(["and", a, b])
                            out.append(["or", a, b])
        memo[key] = out
        return out

    res = []
    for n in range(1, max_leaves + 1):
        res.extend(gen(n, max_depth, True))
    return res


def random_tree(rng, operands, max_depth=4, nary=True):
    if max_depth == 0 or rng.random() < 0.25:
        return operand(rng.choice(operands))
    k = rng.choice(["not", "and", "or", "and", "or"])
    if k == "not":
        sub = random_tree(rng, operands, max_depth - 1, nary)
        return ["not", sub]
    n = rng.choice([2, 2, 2, 3, 4]) if nary else 2
    terms = []
    for _ in range(n):
        x = random_tree(rng, operands, max_depth - 1, nary)
        # keep n-ary nodes flat so that the minimal rendering denotes this very tree
        if x[0] == k:
            terms.extend(x[1:])
        else:
            terms.append(x)
    return [k] + terms


# ---------------------------------------------------------------------------
# v1 (conjunctive normal form): groups of (negated?, tag)
# ---------------------------------------------------------------------------

def cnf_to_ast(groups):
    ands = []
    for g in groups:
        ors = [(["not", ["lit", t]] if neg else ["lit", t]) for neg, t in g]
        ands.append(ors[0] if len(ors) == 1 else ["or"] + ors)
    if not ands:
        return ["true"]
    return ands[0] if len(ands) == 1 else ["and"] + ands


def render_v1_groups(groups, decor):
    """decor: function (group_index, alt_index) -> dict(neg_char, at, limit)
    Returns the argument list (one string per group)."""
    args = []
    for gi, g in enumerate(groups):
        alts = []
        for ai, (neg, tag) in enumerate(g):
            d = decor(gi, ai)
            s = ""
            if neg:
                s += d.get("neg_char", "-")
            if d.get("at"):
                s += "@"
            s += tag
            if d.get("limit") is not None:
                s += ":%d" % d["limit"]
            alts.append(s)
        args.append(",".join(alts))
    return args
