"""Gherkin renderer for abstract feature trees, with an independent line map.

Abstract tree (JSON-friendly dicts; see gen/prog.py):
  feature  {kind, tags, name, desc, background, items, lang?, kw?}
  rule     {kind, tags, name, desc, background, items, kw?}
  background {kind, name, desc, steps, kw?}
  scenario {kind, tags, name, desc, steps, kw?}
  outline  {kind, tags, name, desc, steps, examples:[{tags, name, header, rows, kw?}], kw?}
  step     {kw, text, doc?, doc_quote?, table?}       kw is the keyword text as written (e.g. "Given")

The renderer writes every element on its own line(s) and records, in `lines`, the 1-based line
number of everything it writes, keyed by the element's path (tuple of indices).  It shares no code
with behave's parser.  Layout noise (indentation, blank lines, comment lines, tag lines split over
several lines with trailing comments) is drawn from `rng` when `layout` is true.
"""
from __future__ import annotations

DEFAULT_KW = {
    "feature": "Feature", "rule": "Rule", "background": "Background", "scenario": "Scenario",
    "outline": "Scenario Outline", "examples": "Examples",
}


def esc_cell(cell):
    return cell.replace("|", "\\|")


class Renderer(object):
    def __init__(self, rng=None, layout=False, keywords=None, comment_pool=None):
        self.rng = rng
        self.layout = layout and rng is not None
        self.kw = dict(DEFAULT_KW)
        if keywords:
            self.kw.update(keywords)
        self.out = []
        self.lines = {}          # path(tuple) -> line number
        self.comment_pool = comment_pool or ["# a comment", "#", "#comment without blank", "  # indented comment",
                                             "# Scenario: not a scenario", "# @tag in comment", "# | a | b |"]

    # -- low level ----------------------------------------------------------
    def emit(self, text, key=None, indent=0):
        if self.layout:
            self.noise()
            ind = " " * self.rng.choice([0, 1, 2, 4, 7]) if self.rng.random() < 0.5 else " " * indent
            if self.rng.random() < 0.1:
                ind = "\t" + ind
        else:
            ind = " " * indent
        self.out.append(ind + text)
        if key is not None:
            self.lines[key] = len(self.out)
        return len(self.out)

    def raw(self, text):
        self.out.append(text)
        return len(self.out)

    def noise(self):
        r = self.rng
        while r.random() < 0.18:
            self.out.append("" if r.random() < 0.6 else ("   " if r.random() < 0.3 else r.choice(self.comment_pool)))

    def tags(self, tags, key, indent):
        """Returns nothing; records lines of every tag under key+('tag', i)."""
        if not tags:
            return
        r = self.rng
        if not self.layout:
            import zlib
            cut = len(tags)
            if len(tags) >= 2 and zlib.crc32(" ".join(tags).encode("utf-8")) % 3 == 0:
                cut = len(tags) // 2        # tags of one element on two lines (deterministic: no generator state is used here)
            for lo, hi in ((0, cut), (cut, len(tags))):
                if lo == hi:
                    continue
                n = self.emit(" ".join("@" + t for t in tags[lo:hi]), None, indent)
                for i in range(lo, hi):
                    self.lines[key + ("tag", i)] = n
            return
        i = 0
        while i < len(tags):
            k = r.randint(1, len(tags) - i)
            chunk = tags[i:i + k]
            sep = " " * r.choice([1, 1, 2, 3])
            text = sep.join("@" + t for t in chunk)
            if r.random() < 0.25:
                text += "  # trailing comment @nota_tag"
            n = self.emit(text, None, indent)
            for j in range(k):
                self.lines[key + ("tag", i + j)] = n
            i += k

    def desc(self, desc, key, indent):
        for i, d in enumerate(desc or []):
            self.emit(d, key + ("desc", i), indent)

    # -- elements -----------------------------------------------------------
    def step(self, st, key, indent):
        kw = st["kw"]
        sep = "" if st.get("nospace") else " "
        trail = ""
        if self.layout and self.rng.random() < 0.2:
            trail = self.rng.choice([" ", "  ", "\t", " \t"])       # invisible blanks behind the step text: not part of it
        self.emit(kw + sep + st["text"] + trail, key, indent)
        if st.get("doc") is not None:
            q = st.get("doc_quote", '"""')
            if self.layout:
                self.noise_in_step()
                ind = " " * self.rng.choice([0, 2, 6, 9])
            else:
                ind = " " * (indent + 2)
            trail = ""
            if self.layout and self.rng.random() < 0.2:
                trail = self.rng.choice([" ", "   ", "\t"])       # invisible blanks behind the opening delimiter
            n = self.raw(ind + q + trail)
            self.lines[key + ("doc",)] = n
            for ln in st["doc"].split("\n"):
                # content lines are indented at least as far as the opening quotes; relative
                # indentation inside the text is part of the text itself
                self.raw((ind + ln) if ln.strip() or ln else ln)
            cind = ind
            if self.layout and self.rng.random() < 0.3:
                # the closing delimiter does not have to be aligned with the opening one (only the opening column matters)
                cind = " " * self.rng.choice([0, 1, 4, 8, 12])
            tail = ""
            if self.layout and self.rng.random() < 0.15:
                tail = self.rng.choice(["  # end", " .", "yaml", '"'])        # text behind the closing delimiter is tolerated
            elif not self.layout:
                import zlib
                crc = zlib.crc32(st["doc"].encode("utf-8") + st["text"].encode("utf-8"))
                if crc % 4 == 0:
                    tail = ("  # end", " .", "yaml")[len(st["text"]) % 3]     # (deterministic: no generator state is used here)
                if crc % 3 == 1:
                    cind = ind + "  "       # closing delimiter indented deeper than the opening one (only the opening column matters)
            self.raw(cind + q + tail)
        if st.get("table") is not None:
            self.table(st["table"], key + ("table",), indent + 2)

    def noise_in_step(self):
        # comments / blank lines between a step and its doc-string or table are legal
        r = self.rng
        while r.random() < 0.12:
            self.out.append("" if r.random() < 0.5 else "      # comment before argument")

    def table(self, tb, key, indent):
        rows = [tb["header"]] + list(tb["rows"])
        widths = None
        if not self.layout or self.rng.random() < 0.6:
            ncol = len(tb["header"])
            widths = [max(len(esc_cell(r[c])) for r in rows) for c in range(ncol)]
        for ri, row in enumerate(rows):
            if self.layout:
                self.noise_in_step()
            elif ri >= 1 and len(rows) >= 3:
                import zlib
                if zlib.crc32(("|".join(row) + str(ri)).encode("utf-8")) % 5 == 0:
                    # a disabled row / a blank line between the rows of a table (deterministic: no generator state is used here)
                    self.out.append((" " * indent + "# | disabled | row |") if ri % 2 else "")
            cells = []
            for ci, c in enumerate(row):
                c = esc_cell(c)
                if widths:
                    c = c.ljust(widths[ci])
                elif self.layout:
                    c = " " * self.rng.choice([0, 1, 3]) + c + " " * self.rng.choice([0, 1, 2])
                cells.append(c)
            pad = " " if (widths or not self.layout) else ""
            text = "|" + "|".join(pad + c + pad for c in cells) + "|"
            ind = " " * (self.rng.choice([0, 3, 8]) if self.layout else indent)
            n = self.raw(ind + text)
            self.lines[key + ("row", ri)] = n      # row 0 = header
        return

    def steps(self, steps, key, indent):
        for i, st in enumerate(steps):
            self.step(st, key + ("step", i), indent)

    def background(self, bg, key, indent):
        name = bg.get("name", "")
        self.emit("%s:%s" % (bg.get("kw", self.kw["background"]), (" " + name) if name else ""), key, indent)
        self.desc(bg.get("desc"), key, indent + 2)
        self.steps(bg["steps"], key, indent + 2)

    def scenario(self, sc, key, indent):
        self.tags(sc.get("tags"), key, indent)
        kind = sc["kind"]
        kw = sc.get("kw", self.kw[kind])
        name = sc["name"]
        self.emit("%s:%s" % (kw, (" " + name) if name else ""), key, indent)
        self.desc(sc.get("desc"), key, indent + 2)
        self.steps(sc["steps"], key, indent + 2)
        if kind == "outline":
            for ei, ex in enumerate(sc["examples"]):
                ekey = key + ("examples", ei)
                self.tags(ex.get("tags"), ekey, indent + 2)
                ename = ex.get("name", "")
                self.emit("%s:%s" % (ex.get("kw", self.kw["examples"]), (" " + ename) if ename else ""), ekey, indent + 2)
                if ex.get("header") is not None:
                    self.table({"header": ex["header"], "rows": ex["rows"]}, ekey + ("table",), indent + 4)

    def container_items(self, c, key, indent):
        if c.get("background") is not None:
            self.background(c["background"], key + ("background",), indent)
        for i, it in enumerate(c["items"]):
            ikey = key + ("item", i)
            if it["kind"] == "rule":
                self.tags(it.get("tags"), ikey, indent)
                self.emit("%s:%s" % (it.get("kw", self.kw["rule"]), (" " + it["name"]) if it["name"] else ""), ikey, indent)
                self.desc(it.get("desc"), ikey, indent + 2)
                self.container_items(it, ikey, indent + 2)
            else:
                self.scenario(it, ikey, indent)

    def feature(self, f, language_header=None):
        if language_header:
            self.raw("# language: %s" % language_header)
        key = ()
        self.tags(f.get("tags"), key, 0)
        self.emit("%s:%s" % (f.get("kw", self.kw["feature"]), (" " + f["name"]) if f["name"] else ""), key, 0)
        self.desc(f.get("desc"), key, 2)
        self.container_items(f, key, 2)
        if self.layout:
            self.noise()
        return "\n".join(self.out) + ("\n" if not self.layout or self.rng.random() < 0.8 else "")


def render_feature(f, rng=None, layout=False, keywords=None, language_header=None):
    r = Renderer(rng, layout, keywords)
    text = r.feature(f, language_header)
    return text, r.lines


def render_fragment(kind, node, rng=None, layout=False, keywords=None):
    """kind: 'steps' (node = list of steps) | 'scenario' (scenario/outline node) | 'rule' (rule node) | 'tags' (list)."""
    r = Renderer(rng, layout, keywords)
    if kind == "steps":
        r.steps(node, (), 0)
    elif kind == "scenario":
        r.scenario(node, (), 0)
    elif kind == "rule":
        r.tags(node.get("tags"), (), 0)
        r.emit("%s:%s" % (node.get("kw", r.kw["rule"]), (" " + node["name"]) if node["name"] else ""), (), 0)
        r.desc(node.get("desc"), (), 2)
        r.container_items(node, (), 2)
    elif kind == "tags":
        r.tags(node, (), 0)
    return "\n".join(r.out) + "\n", r.lines
