"""Random well-formed Gherkin documents as abstract trees (for the parser properties C04/C05/C06/C10).

Keywords are taken from behave.i18n.languages -- data, not logic.  The generator never emits a line
whose reading is ambiguous (see DESIGN C04): description lines start with a neutral prefix, cells have
no leading/trailing blanks and no trailing backslash, doc-string lines have no trailing blanks and
never start with the terminator, names have no leading/trailing blanks.
"""
from __future__ import annotations

WORDS = ["alpha", "beta", "Gamma", "ÄÖÜ", "ñandú", "日本", "x1", "a:b", "c#d", "e@f", "g|h", "\"q\"", "'s'", "(p)", "100%",
         "given", "and", "then", "feature:", "-", "*star", "<lt", "gt>", "&amp;", "\\n", "tab\there", "Ω",
         # characters that text normalisation would change: NO-BREAK SPACE inside a word, decomposed accents, OHM SIGN
         "1\u00a0000,50\u00a0€", "Cafe\u0301", "\u2126hm", "a\u0308b"]
TAGWORDS = ["a", "b", "wip", "x.y", "k=v", "slow:3", "ÄÖ", "t-1", "@at", "use.with_os=linux", "p(1)", "q;r", "<x>", "bug#42", "i#"]
STEP_TYPES = ("given", "when", "then", "and", "but")


class DocGen(object):
    def __init__(self, rng, lang="en", keywords=None, **opts):
        self.rng = rng
        self.lang = lang
        self.kws = keywords          # i18n.languages[lang]
        self.o = dict(max_rules=2, max_items=3, max_steps=4, max_examples=3, max_rows=3, p_desc=0.4, p_doc=0.25,
                      p_table=0.25, p_tags=0.5, p_background=0.5, p_outline=0.4, p_empty_name=0.1, force_alias=None,
                      allow_shadowed=True)
        self.o.update(opts)
        self.n = 0

    # -- pieces ---------------------------------------------------------------
    def uid(self):
        self.n += 1
        return self.n

    def words(self, k=None):
        r = self.rng
        k = k or r.randint(1, 4)
        return " ".join(r.choice(WORDS) for _ in range(k))

    def name(self, prefix):
        if self.rng.random() < self.o["p_empty_name"]:
            return ""
        return "%s%d %s" % (prefix, self.uid(), self.words())

    def tags(self):
        r = self.rng
        if r.random() >= self.o["p_tags"]:
            return []
        return [r.choice(TAGWORDS) + (str(self.uid()) if r.random() < 0.5 else "") for _ in range(r.randint(1, 4))]

    def desc(self, container=False):
        r = self.rng
        if r.random() >= self.o["p_desc"]:
            return []
        lines = ["%s %s" % (r.choice(["%%", "::", "=>", "~"]), self.words()) for _ in range(r.randint(1, 3))]
        if container and r.random() < 0.4:
            # prose below a Feature / Rule header may begin with any word -- also with a step keyword of the language or a
            # markdown bullet (there are no steps at that level that it could be taken for)
            kind = r.choice(["given", "when", "then", "and", "but"])
            lines.insert(r.randrange(len(lines) + 1), "%s%s" % (r.choice(self.kws[kind]), self.words()))
        return lines

    def kw(self, kind):
        al = self.kws[kind]
        f = self.o.get("force_alias")
        if f and f[0] == kind:
            return f[1]
        return self.rng.choice(al)

    def table(self, ncols=None):
        r = self.rng
        ncols = ncols or r.randint(1, 3)
        cell = lambda: r.choice(["", "x", "a|b", "|", "ü", "1 2", "<c>", "c:d", "\"", "#no comment", "@t",
                                 # a backslash in front of anything but a pipe is an ordinary character (paths, regular expressions)
                                 "C:\\data\\x", "INV-\\d+\\.pdf", "a\\nb"])
        header = ["h%d%s" % (i, r.choice(["", " x", "|y"])) for i in range(ncols)]
        rows = [[cell() for _ in range(ncols)] for _ in range(r.randint(0, 3))]
        if r.random() < 0.15:
            # a "nothing here" row: every cell a dash or a run of dashes (what a Markdown ruler looks like -- in Gherkin a row like any other)
            rows.insert(r.randrange(len(rows) + 1), [r.choice(["-", "--", "---", ":-:", ":--", "--:"]) for _ in range(ncols)])
        return {"header": header, "rows": rows}

    def doc(self):
        r = self.rng
        lines = []
        for _ in range(r.randint(0, 4)):
            lines.append(r.choice(["", "plain line", "  indented", "    more ÄÖ", "| not a table |", "@not a tag", "# not a comment",
                                   "Given not a step", "''x", "tail\\",
                                   # the OTHER delimiter is ordinary content (a text opened with """ may contain a line ''' and vice versa)
                                   "'''", '"""', "  '''", '""" quoted']))
        quote = r.choice(['"""', "'''"])
        # a content line must not start with the terminator
        lines = [ln for ln in lines if not ln.strip().startswith(quote)]
        return "\n".join(lines), quote

    def step(self, kind_alias):
        r = self.rng
        step_type, alias = kind_alias
        text = "s%d %s" % (self.uid(), self.words())
        if r.random() < 0.2:
            # column-aligned step text: a run of several ordinary blanks between two words is part of the text
            parts = text.split(" ")
            k = r.randrange(1, len(parts))
            text = " ".join(parts[:k]) + " " * r.randint(2, 4) + " ".join(parts[k:])
        if r.random() < 0.12:
            text += r.choice([":", "::", " ::", " std::"])      # (reST marker / C++ scope: text that ENDS with colons)
        st = {"kw": alias.rstrip(" ") if alias.endswith(" ") else alias, "alias": alias, "alias_type": step_type, "text": text,
              "nospace": not alias.endswith(" ")}
        x = r.random()
        if x < self.o["p_doc"]:
            st["doc"], st["doc_quote"] = self.doc()
            if r.random() < 0.15:
                st["table"] = self.table()      # a doc-string followed by a table behind the same step
        elif x < self.o["p_doc"] + self.o["p_table"]:
            st["table"] = self.table()
        return st

    def pick_alias(self, allowed_types):
        r = self.rng
        f = self.o.get("force_alias")
        if f and f[0] in allowed_types and r.random() < 0.5:
            return (f[0], f[1])
        t = r.choice(allowed_types)
        cands = self.kws[t]
        return (t, r.choice(cands))

    def steps(self, n, container_has_bg_steps):
        out = []
        for i in range(n):
            if i == 0 and not container_has_bg_steps:
                allowed = ["given", "when", "then"]
                alias = self.pick_alias(allowed)
                # '* ' is listed under every type; as a first step it is legal
            else:
                alias = self.pick_alias(list(STEP_TYPES))
            out.append(self.step(alias))
        return out

    def background(self, inherited_has_steps=False):
        r = self.rng
        n = r.randint(0, 3)
        # And/But as first background step: only legal when inherited steps exist -- keep it simple: never
        return {"kind": "background", "kw": self.kw("background"), "name": "" if r.random() < 0.7 else self.words(2),
                "desc": self.desc() if r.random() < 0.3 else [], "steps": self.steps(n, False)}

    def scenario(self, has_bg_steps):
        r = self.rng
        n = r.randint(0, self.o["max_steps"])
        return {"kind": "scenario", "kw": self.kw("scenario"), "tags": self.tags(), "name": self.name("S"),
                "desc": self.desc(), "steps": self.steps(n, has_bg_steps)}

    def outline(self, has_bg_steps):
        r = self.rng
        n = r.randint(0, self.o["max_steps"])
        steps = self.steps(n, has_bg_steps)
        examples = []
        for _ in range(r.randint(0, self.o["max_examples"])):
            ex = {"kw": self.kw("examples"), "tags": self.tags(), "name": "" if r.random() < 0.4 else "E%d %s" % (self.uid(), self.words(1))}
            if r.random() < 0.93:
                t = self.table()
                ex["header"], ex["rows"] = t["header"], t["rows"]
            else:
                ex["header"], ex["rows"] = None, []
            examples.append(ex)
        return {"kind": "outline", "kw": self.kw("scenario_outline"), "tags": self.tags(), "name": self.name("O"),
                "desc": self.desc(), "steps": steps, "examples": examples}

    def items(self, has_bg_steps, n=None):
        r = self.rng
        out = []
        for _ in range(n if n is not None else r.randint(0, self.o["max_items"])):
            out.append(self.outline(has_bg_steps) if r.random() < self.o["p_outline"] else self.scenario(has_bg_steps))
        return out

    def rule(self, feature_bg_steps):
        r = self.rng
        bg = self.background() if r.random() < self.o["p_background"] else None
        has = bool(bg and bg["steps"]) or feature_bg_steps
        # (a rule background WITHOUT steps still inherits the feature background steps)
        return {"kind": "rule", "kw": self.kw("rule"), "tags": self.tags(), "name": self.name("R"), "desc": self.desc(container=True),
                "background": bg, "items": self.items(has)}

    def feature(self):
        r = self.rng
        bg = self.background() if r.random() < self.o["p_background"] else None
        has = bool(bg and bg["steps"])
        items = self.items(has)
        for _ in range(r.randint(0, self.o["max_rules"])):
            items.append(self.rule(has))
        return {"kind": "feature", "kw": self.kw("feature"), "tags": self.tags(), "name": self.name("F"), "desc": self.desc(container=True),
                "background": bg, "items": items, "lang": self.lang}


def expected_step_types(feature, kws):
    """Annotates every step dict with 'exp_type' by the inheritance rule (own model, from the statement)."""
    def alias_types(alias):
        return [t for t in STEP_TYPES if alias in kws[t]]

    def run(steps, bg_last):
        last = None
        for st in steps:
            alias = st["alias"]
            types = alias_types(alias)
            if alias.strip() == "*":
                typ = last if last else "given"
                if not last:
                    last = "given"
            elif types and types[0] in ("given", "when", "then") and st["alias_type"] in ("given", "when", "then"):
                typ = st["alias_type"]
                last = typ
            else:
                if last is None:
                    last = bg_last
                typ = last
            st["exp_type"] = typ
        return last

    def bg_last_type(bg, inherited_last):
        if bg is None:
            return inherited_last
        own = run(bg["steps"], None)
        return own if bg["steps"] else inherited_last

    def container(c, inherited_last):
        last = bg_last_type(c.get("background"), inherited_last)
        for it in c["items"]:
            if it["kind"] == "rule":
                container(it, last)
            else:
                run(it["steps"], last)
    container(feature, None)
