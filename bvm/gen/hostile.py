"""Hostile alphabets for report writers (XML metacharacters, CDATA terminators, C0/C1 controls that
survive str.splitlines(), astral characters, ANSI escapes, non-ASCII)."""

XML_META = ["<", ">", "&", '"', "'", "<b>", "</testcase>", "&amp;", "&#0;", "<!--", "-->", "<![CDATA[", "]]>", "]]", "]>",
            "]]]]><![CDATA[>"]
# controls that survive splitlines(): everything in C0/C1 except \n \r \x0b \x0c \x1c \x1d \x1e \x85
C0 = [chr(c) for c in range(0x00, 0x20) if c not in (0x0a, 0x0d, 0x0b, 0x0c, 0x1c, 0x1d, 0x1e, 0x09)]
C1 = [chr(c) for c in range(0x7f, 0xa0) if c != 0x85]
ANSI = ["\x1b[31m", "\x1b[0m", "\x1b[1;32mgreen\x1b[0m", "\x1b[2K", "\x1b]0;title\x07", "]]\x1b[0m>"]
NON_ASCII = ["ä", "ß", "日本語", "Ωmega", " ", "﻿", "�", "​", "é"]
ASTRAL = ["\U0001F600", "\U00010000", "\U0010FFFD", "\U0001D11E"]
NONCHAR = ["￾", "￿", "﷐", "\U0001FFFE"]
# harmless for XML, hostile for code that builds its text with %-formatting / str.format / string templates
FORMAT_META = ["100%", "%s", "%d items", "%(name)s", "%", "{0}", "{name}", "{", "}", "$x", "\\1", "\\g<0>"]
ALL = XML_META + C0 + C1 + ANSI + NON_ASCII + ASTRAL + NONCHAR + FORMAT_META
# names inside feature files must stay one line and must not start/end with blanks
NAME_SAFE = [x for x in ALL if "\n" not in x]


def text(rng, n=None, pool=None, sep=""):
    pool = pool or ALL
    n = n if n is not None else rng.randint(1, 4)
    parts = []
    for _ in range(n):
        parts.append(rng.choice(pool))
        if rng.random() < 0.5:
            parts.append(rng.choice(["x", "ok", "1", " ", "a b"]))
    return sep.join(parts)


def name(rng):
    t = text(rng, rng.randint(1, 3), NAME_SAFE)
    t = " ".join(t.split(" "))
    return ("h" + t + "h").replace("\t", " ")
