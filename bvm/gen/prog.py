"""Random abstract programs (lists of feature trees) for the run-based properties.

Naming: every element has a unique name (feature F0, rule F0R1, scenario F0S2 / F0R1S3, outline
..O4, examples E1).  Every step text starts with a unique token:
    k<N>  a defined step           u<N>  a step without definition      b<N>  converter error
The outcome of a defined step is looked up by the recording step function by the *final* step
text (so that outline rows get independent outcomes through their placeholders).
"""
from __future__ import annotations

OUTCOMES = ["pass", "fail", "error", "pending", "undefined", "skip", "ki", "conv"]
TAGS = ["a", "b", "c", "d", "e"]


class Counter(object):
    def __init__(self):
        self.n = 0

    def next(self):
        self.n += 1
        return self.n


class ProgGen(object):
    def __init__(self, rng, **opts):
        self.rng = rng
        self.o = dict(
            max_features=2, max_rules=2, max_items=3, max_steps=3, max_examples=2, max_rows=3,
            p_background=0.4, p_rule_background=0.4, p_outline=0.3, p_tag=0.35, p_wip=0.08,
            p_nonpass=0.3, outcomes=OUTCOMES, p_async=0.15, p_param_tag=0.3, p_table=0.1, p_doc=0.1,
            p_desc=0.15, tags=TAGS, allow_empty_containers=False, p_stepless=0.05, p_bg_param=0.0,
            weights=None, p_empty_examples=0.15, outline_min_rows=0,
        )
        self.o.update(opts)
        self.ids = Counter()
        self.outcomes = {}       # final step text -> outcome
        self.flavour = {}        # final step text -> "sync" | "async"
        self.text_pool = [] if self.o.get("p_repeat_text", 0.0) > 0 else None
        # the Examples column that feeds the step texts: a heading is free text ("x", but also "service status", "step-outcome")
        self.xcol = rng.choice(self.o.get("value_columns") or ["x"])

    # -- helpers --------------------------------------------------------------
    def tags(self, extra=()):
        r, o = self.rng, self.o
        out = []
        for t in o["tags"]:
            if r.random() < o["p_tag"] / 2:
                out.append(t)
        if r.random() < o["p_wip"]:
            out.append("wip")
        out.extend(extra)
        r.shuffle(out)
        return out

    def pick_outcome(self):
        r, o = self.rng, self.o
        if r.random() >= o["p_nonpass"]:
            return "pass"
        cands = [x for x in o["outcomes"] if x != "pass"]
        if not cands:
            return "pass"
        if o["weights"]:
            w = [o["weights"].get(x, 1.0) for x in cands]
            return r.choices(cands, w)[0]
        return r.choice(cands)

    def step(self, kw, placeholder=None, row_values=None, outcome=None):
        r, o = self.rng, self.o
        n = self.ids.next()
        outcome = outcome or self.pick_outcome()
        words = r.choice(["does something", "is ready", "checks x", "value 12 ok", "löst aus"])
        texts = []
        if placeholder:
            tmpl = "%s %s <%s>" % ("%s", words, placeholder)
        else:
            tmpl = "%s " + words
        # outcome per final text; for outline templates one outcome per distinct row value
        finals = []
        if placeholder and row_values is not None:
            for v in row_values:
                oc = outcome if len(finals) == 0 else self.pick_outcome()
                finals.append((v, oc))
        else:
            finals.append((None, outcome))
        # token kind is a property of the template: undefined/conv/async apply to all rows
        tok_kind = "u" if outcome == "undefined" else ("b" if outcome == "conv" else "k")
        if tok_kind == "k" and r.random() < o["p_async"] and all(oc in ("pass", "fail", "error", "pending", "skip", "undefined", "conv")
                                                               for _, oc in finals):
            tok_kind = "a"
        elif tok_kind == "k" and r.random() < o.get("p_cuke", 0.0):
            # a step whose definition is a parameterless cucumber expression (the literal final text), from a step module that
            # selects behave.cucumber_expression's matcher
            tok_kind = "c"
            if placeholder and any(ch in v for v in (row_values or []) for ch in "\\{}()/"):
                tok_kind = "k"      # (a literal text with expression metacharacters is no cucumber expression for itself)
        tok = "%s%d" % (tok_kind, n)
        text = tmpl % tok
        for v, oc in finals:
            final = text.replace("<%s>" % placeholder, v) if placeholder else text
            if tok_kind == "u":
                oc = "undefined"
            elif tok_kind == "b":
                oc = "conv"
            elif oc in ("undefined", "conv"):
                oc = "pass"
            self.outcomes[final] = oc
            self.flavour[final] = "async" if tok_kind == "a" else "sync"
        st = {"kw": kw, "text": text}
        if r.random() < o["p_table"]:
            if r.random() < 0.3:
                # two columns with the same heading are legal; cells are positional
                st["table"] = {"header": ["point", "coord", "coord"], "rows": [["A", "1", "2"], ["B", "", "9"]][: r.randint(1, 2)]}
            else:
                st["table"] = {"header": ["name", "value"], "rows": [["x", "1"], ["y|z", ""]][: r.randint(0, 2)]}
            if r.random() < 0.25:
                # behave accepts a doc-string AND a table behind one step (context.text and context.table are both set)
                st["doc"] = r.choice(["text above a table", "two\n  lines"])
        elif r.random() < o["p_doc"]:
            st["doc"] = r.choice(["one line", "two\n  lines", ""] +
                                 # a text that QUOTES Gherkin: the other delimiter and a line that reads like this very step
                                 (["as in:\n'''\n%s %s\n'''" % (kw if kw != "*" else "Given", text)] if not placeholder else []))
        return st

    def steps(self, n, placeholder=None, row_values=None, first_kw_ok=True, in_background=False):
        r = self.rng
        out = []
        last = None
        for i in range(n):
            if last is None or r.random() < 0.5:
                kw = r.choice(["Given", "When", "Then"])
                last = kw
            else:
                kw = r.choice(["And", "But", "*"])
            use_ph = placeholder if (placeholder and r.random() < 0.6) else None
            pool = getattr(self, "text_pool", None)
            if pool is not None and pool and not use_ph and kw in ("Given", "When", "Then") and r.random() < self.o.get("p_repeat_text", 0.0):
                # the text of a step of ANOTHER scenario again, possibly under another keyword (one definition serves them all here;
                # projects may also define the same text once per step type)
                out.append({"kw": kw, "text": r.choice(pool)})
                self.repeated_texts = getattr(self, "repeated_texts", 0) + 1
                continue
            out.append(self.step(kw, use_ph, row_values if use_ph else None))
        if getattr(self, "text_pool", None) is not None and not in_background:
            self.text_pool.extend(st["text"] for st in out if "<" not in st["text"] and st["text"][:1] == "k"
                                  and st["text"] not in self.text_pool)
        return out

    def desc(self):
        r = self.rng
        if r.random() < self.o["p_desc"]:
            return ["(description line %d)" % i for i in range(r.randint(1, 2))]
        return []

    def scenario(self, name):
        r, o = self.rng, self.o
        n = 0 if r.random() < o["p_stepless"] else r.randint(1, o["max_steps"])
        return {"kind": "scenario", "tags": self.tags(), "name": name, "desc": self.desc(), "steps": self.steps(n)}

    def outline(self, name):
        r, o = self.rng, self.o
        nex = r.randint(1, o["max_examples"])
        examples = []
        values = []
        # the column that feeds the parametrised tags: a heading is free text ("t", but also "first-name", "price/unit", "a+b")
        tcol = r.choice(o.get("tag_columns") or ["t"])
        for ei in range(nex):
            nrows = r.randint(0 if r.random() < o["p_empty_examples"] else 1, o["max_rows"])
            rows = []
            for ri in range(nrows):
                v = "%sv%d" % (name.lower(), self.ids.next())
                if r.random() < o.get("p_odd_cell", 0.08):
                    # cells that are legal and unusual: a Windows path (backslash + letter), format characters -- still unique
                    v = r.choice(["D:\\data\\logs\\%s", "C:\\temp\\new%s", "100%%%s", "{%s}"]) % v
                tagv = r.choice(o.get("tag_values") or o["tags"])
                rows.append([v, tagv])
                values.append(v)
            header = [self.xcol, tcol]
            if r.random() < 0.3:          # different column order in this block
                header = [tcol, self.xcol]
                rows = [[b, a] for a, b in rows]
            examples.append({"tags": self.tags(), "name": "E%d" % (ei + 1) if r.random() < 0.8 else "",
                             "header": header, "rows": rows})
        if o.get("outline_min_rows", 0) and sum(len(e["rows"]) for e in examples) < o["outline_min_rows"]:
            # at least one data row somewhere (an outline without any row is a childless element), the other Examples
            # sections may stay header-only
            e = r.choice(examples)
            v = "%sv%d" % (name.lower(), self.ids.next())
            tagv = r.choice(o.get("tag_values") or o["tags"])
            e["rows"].append([v, tagv] if e["header"] == [self.xcol, tcol] else [tagv, v])
            values.append(v)
        if values and r.random() < o.get("p_empty_cell", 0.1):
            # one row whose cell is EMPTY (an optional word): the placeholder is replaced by nothing
            k = r.randrange(len(values))
            victim = values[k]
            for e in examples:
                xi = e["header"].index(self.xcol)
                for row in e["rows"]:
                    if row[xi] == victim:
                        row[xi] = ""
            values[k] = ""
        extra = []
        if r.random() < o["p_param_tag"]:
            extra.append(r.choice(["<%s>", "p.<%s>"]) % tcol)
        if r.random() < o.get("p_reserved_tag", 0.0):
            # documented special placeholders in outline tags (rendered per row)
            extra.append(r.choice(["r<row.index>", "r<examples.index>", "q<row.id>", "n<examples.name>"]))
        if r.random() < o.get("p_unknown_param_tag", 0.15):
            # a tag whose placeholder is not a column of (all) the examples tables: dropped for those rows -- the other tags stay
            extra.append(r.choice(["u.<nosuch>", "<nosuch>.<%s>" % tcol, "req.<req>"]))
        n = r.randint(1, o["max_steps"])
        # steps: placeholders <x> make per-row final texts
        steps = self.steps(n, self.xcol, values or ["none"])
        if r.random() < o.get("p_reserved_step", 0.0):
            # a documented special placeholder in the TEXT of one outline step ("... row <row.index>"): rendered per row like a column
            cands = [st for st in steps if ("<%s>" % self.xcol) in st["text"]]
            if cands:
                st = r.choice(cands)
                old, ph = st["text"], r.choice(["row.index", "row.id", "examples.index"])
                for ei, e in enumerate(examples):
                    xi = e["header"].index(self.xcol)
                    for ri, row in enumerate(e["rows"]):
                        val = {"row.index": str(ri + 1), "row.id": "%d.%d" % (ei + 1, ri + 1), "examples.index": str(ei + 1)}[ph]
                        of = old.replace("<%s>" % self.xcol, row[xi])
                        nf = "%s no <%s>" % (of, ph)
                        nf = nf.replace("<%s>" % ph, val)
                        if of in self.outcomes:
                            self.outcomes[nf] = self.outcomes[of]
                            self.flavour[nf] = self.flavour.get(of, "sync")
                st["text"] = "%s no <%s>" % (old, ph)
                self.reserved_in_step_text = True
        return {"kind": "outline", "tags": self.tags(extra), "name": name, "desc": self.desc(),
                "steps": steps, "examples": examples}

    def background(self):
        r, o = self.rng, self.o
        n = r.randint(0 if r.random() < 0.1 else 1, 2)
        save = o["p_nonpass"]
        o["p_nonpass"] = save / 3.0
        pool, self.text_pool = getattr(self, "text_pool", None), None
        try:
            steps = self.steps(n, in_background=True)
        finally:
            o["p_nonpass"] = save
            self.text_pool = pool
        if steps and r.random() < o["p_bg_param"]:
            # a placeholder of the outlines' examples tables inside a background step: rendered per row for outline rows,
            # literal text for plain scenarios
            cands = [st for st in steps if st["text"].startswith("k") and self.outcomes.get(st["text"], "pass") == "pass"]
            if cands:
                st = r.choice(cands)
                self.outcomes.pop(st["text"], None)
                st["text"] = st["text"] + " <%s>" % self.xcol
        if steps:
            steps[0]["first_of_background"] = True
            if r.random() < o.get("p_bg_star", 0.2):
                steps[0]["kw"] = "*"        # a Background that starts with '*': a Given, whatever came before the Background
        return {"kind": "background", "name": "", "desc": [], "steps": steps}

    def items(self, prefix, allow_rules):
        r, o = self.rng, self.o
        items = []
        n = r.randint(1, o["max_items"])
        for i in range(n):
            name = "%s%s%d" % (prefix, "S", self.ids.next())
            if r.random() < o["p_outline"]:
                items.append(self.outline(name.replace("S", "O", 1) if False else prefix + "O%d" % self.ids.next()))
            else:
                items.append(self.scenario(name))
        if allow_rules:
            nr = r.randint(0, o["max_rules"])
            for j in range(nr):
                rname = "%sR%d" % (prefix, self.ids.next())
                rule = {"kind": "rule", "tags": self.tags(), "name": rname, "desc": self.desc(),
                        "background": self.background() if r.random() < o["p_rule_background"] else None,
                        "items": self.items(rname, False)}
                items.append(rule)
            rules = [it for it in items if it["kind"] == "rule"]
            if len(rules) >= 2 and r.random() < o.get("p_twin_rule_names", 0.0):
                # two rules of one feature with the SAME title, or both without a title (legal; they are two rules)
                twin = r.choice(["", rules[0]["name"]])
                rules[0]["name"] = rules[1]["name"] = twin
                self.twin_rule_names = True
            if nr and r.random() < 0.3:
                # scenarios before rules is the usual layout; sometimes only rules
                items = [it for it in items if it["kind"] == "rule"] or items
            if r.random() < o.get("p_empty_rule", 0.0):
                # a Rule that has no scenario yet (a heading and tags only) next to the others
                rname = "%sR%d" % (prefix, self.ids.next())
                items.insert(r.randrange(len(items) + 1) if all(it["kind"] == "rule" for it in items) else len(items),
                             {"kind": "rule", "tags": self.tags(), "name": rname, "desc": [], "background": None, "items": []})
        return items

    def feature(self, i):
        r, o = self.rng, self.o
        name = "F%d" % i
        return {"kind": "feature", "tags": self.tags(), "name": name, "desc": self.desc(),
                "background": self.background() if r.random() < o["p_background"] else None,
                "items": self.items(name, True), "file": "f%d.feature" % i}

    def program(self):
        r, o = self.rng, self.o
        nf = r.randint(min(o.get("min_features", 1), o["max_features"]), o["max_features"])
        feats = [self.feature(i) for i in range(nf)]
        prog = {"features": feats, "outcomes": dict(self.outcomes), "flavour": dict(self.flavour)}
        if getattr(self, "twin_rule_names", False):
            prog["twin_rule_names"] = True
        if getattr(self, "reserved_in_step_text", False):
            prog["reserved_in_step_text"] = True
        return prog


# ---------------------------------------------------------------------------
# walking helpers shared by reference models
# ---------------------------------------------------------------------------

def substitute(text, header, row, reserved=None):
    for h, v in zip(header, row):
        text = text.replace("<%s>" % h, v)
    for h, v in (reserved or {}).items():
        text = text.replace("<%s>" % h, v)
    return text


def iter_scenario_instances(feature):
    """Yields dicts describing every runnable scenario instance in document order:
       {name, own_tags, anc_tags (list of tag lists, outermost first), steps (final texts incl. backgrounds),
        container_path (names of enclosing feature/rule), outline (name or None), kind}"""
    def bg_steps(bg):
        return [s for s in (bg["steps"] if bg else [])]

    def walk(container, anc_tags, inherited_bg, path):
        own_bg = bg_steps(container.get("background"))
        bgs = inherited_bg + own_bg
        for it in container["items"]:
            if it["kind"] == "rule":
                for x in walk(it, anc_tags + [it["tags"]], bgs, path + [it["name"]]):
                    yield x
            elif it["kind"] == "scenario":
                yield {"name": it["name"], "own_tags": list(it["tags"]), "anc_tags": anc_tags, "kind": "scenario",
                       "steps": [dict(s, final=s["text"], origin="bg") for s in bgs] +
                                [dict(s, final=s["text"], origin="own") for s in it["steps"]],
                       "n_bg": len(bgs), "path": path, "outline": None, "node": it}
            else:
                for ei, ex in enumerate(it["examples"]):
                    if ex.get("header") is None:
                        continue
                    for ri, row in enumerate(ex["rows"]):
                        rid = "%d.%d" % (ei + 1, ri + 1)
                        name = "%s -- @%s %s" % (it["name"], rid, ex.get("name", ""))
                        tags = []
                        reserved = {"row.index": str(ri + 1), "examples.index": str(ei + 1), "row.id": rid, "examples.name": ex.get("name", "")}
                        for t in it["tags"]:
                            t2 = substitute(t, ex["header"], row, reserved) if ("<" in t and ">" in t) else t
                            if "<" in t2 and ">" in t2:
                                continue
                            tags.append(t2)
                        tags.extend(ex["tags"])
                        # plain (non-parametrised) outline tags are also inherited through the parent link
                        outline_plain = [t for t in it["tags"] if not ("<" in t and ">" in t)]
                        yield {"name": name, "own_tags": tags, "anc_tags": anc_tags + [outline_plain], "kind": "row",
                               "steps": [dict(s, final=substitute(s["text"], ex["header"], row), origin="bg") for s in bgs] +
                                        [dict(s, final=substitute(s["text"], ex["header"], row, reserved), origin="own") for s in it["steps"]],
                               "n_bg": len(bgs), "path": path, "outline": it["name"], "node": it, "row": (ei, ri)}

    for x in walk(feature, [feature["tags"]], [], [feature["name"]]):
        yield x
