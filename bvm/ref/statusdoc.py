"""Parses docs/appendix.status.rst (the documented status tables) -- the document is the oracle."""
from __future__ import annotations

import os
import re

from .. import core


def parse_simple_tables(text):
    """reST simple tables: border lines of '=' runs; first border, header, border, rows, border."""
    lines = text.splitlines()
    tables = []
    i = 0
    border = re.compile(r"^=+( +=+)+\s*$")
    while i < len(lines):
        if border.match(lines[i]):
            cols = [(m.start(), m.end()) for m in re.finditer(r"=+", lines[i])]
            header = lines[i + 1]
            assert border.match(lines[i + 2]), "table header border expected at line %d" % (i + 3)
            j = i + 3
            rows = []
            while j < len(lines) and not border.match(lines[j]):
                if lines[j].strip():
                    rows.append(lines[j])
                j += 1

            def cells(line):
                out = []
                for k, (a, b) in enumerate(cols):
                    end = cols[k + 1][0] if k + 1 < len(cols) else len(line)
                    out.append(line[a:end].strip().strip("`"))
                return out
            tables.append({"header": [h.rstrip("?") for h in cells(header)], "rows": [cells(r) for r in rows]})
            i = j + 1
        else:
            i += 1
    return tables


def load():
    path = os.path.join(core.REPO, "docs", "appendix.status.rst")
    with open(path, encoding="utf-8") as f:
        tables = parse_simple_tables(f.read())
    by_first = {}
    out = {"documented": [], "common": {}, "steps": {}, "inner_outer": {}}
    for t in tables:
        h = [x.lower() for x in t["header"]]
        if h[:2] == ["status", "description"]:
            out["documented"] = [r[0] for r in t["rows"]]
        elif h[0] == "status" and "failed" in h:
            for r in t["rows"]:
                out["common"][r[0]] = {"error": r[h.index("error")] == "yes", "failed": r[h.index("failed")] == "yes"}
        elif h[0] == "status" and "untested" in h:
            for r in t["rows"]:
                out["steps"][r[0]] = {k: r[h.index(k)] == "yes" for k in ("error", "untested", "pending", "undefined")}
        elif h[0].startswith("inner"):
            for r in t["rows"]:
                out["inner_outer"][r[0]] = r[1]
    return out
