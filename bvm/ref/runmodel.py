"""Sequential reference model of a (fault-free) behave run.

Written from the statements of C01/C02/C09/C12 and the user documentation; shares no code with
behave.  Input: abstract program (gen/prog.py), outcome table, run configuration.  Output: the
predicted history.  Where the statements leave a choice open the prediction is a *set*.

cfg keys: tags (formula AST or None), names (list of regex strings), stop, dry_run, cafs
"""
from __future__ import annotations

import re

from ..gen import tagexpr as T
from ..gen.prog import iter_scenario_instances

NONPASS_STATUS = {"fail": "failed", "error": "error", "conv": "error", "ki": "error", "undefined": "undefined"}


class Pred(object):
    def __init__(self):
        self.selected = {}        # scenario instance name -> bool
        self.started = {}         # name -> bool (its run() was entered)
        self.calls = []           # [(scenario name, final text)]
        self.step_status = {}     # name -> [set of admissible status names]
        self.scen_status = {}     # name -> set of admissible status names
        self.scen_failed = {}     # name -> bool
        self.verdict = set()      # admissible verdicts
        self.hooks = []           # predicted hook log (fault-free)
        self.ambiguous_hooks = False
        self.aborted = False
        self.instances = []       # instance dicts in document order
        self.container_selected = {}   # feature/rule/outline name -> any scenario inside selected
        self.container_started = {}
        self.nontrivial = {}


def eff_tags(inst):
    tags = set(inst["own_tags"])
    for a in inst["anc_tags"]:
        tags.update(t for t in a if not ("<" in t and ">" in t))
    return tags


def formula_ok(cfg, tags):
    t = cfg.get("tags")
    return True if t is None else T.evaluate(t, tags)


def name_ok(cfg, name):
    names = cfg.get("names")
    if not names:
        return True
    return re.search("|".join(names), name) is not None


def step_defined(final):
    return final[0] in "kabc"


def predict(program, cfg):
    p = Pred()
    stop = bool(cfg.get("stop"))
    dry = bool(cfg.get("dry_run"))
    user_skip = set(program.get("user_skip") or ())
    cafs = bool(cfg.get("cafs"))
    outcomes = program["outcomes"]
    state = {"halt": False, "any_failed": False, "dry_undefined": False}

    def run_instance(inst):
        name = inst["name"]
        tags = eff_tags(inst)
        sel = formula_ok(cfg, tags) and name_ok(cfg, name)
        if state.get("skip_rest") and (state["skip_rest"] in inst["path"]):
            # a step called feature.skip() / rule.skip(): "skip the remaining parts" -- nothing of them is executed any more
            p.selected[name] = False
            p.started[name] = False
            p.step_status[name] = [{"skipped"} for _ in inst["steps"]]
            p.scen_status[name] = {"skipped"}
            p.scen_failed[name] = False
            return False
        p.selected[name] = sel
        p.started[name] = True
        steps = inst["steps"]
        finals = [s["final"] for s in steps]
        wip = "wip" in tags
        if not sel:
            p.step_status[name] = [{"skipped"} for _ in finals]
            p.scen_status[name] = {"skipped"}
            p.scen_failed[name] = False
            return False
        own_tags = inst["own_tags"]
        if not dry:
            for t in own_tags:
                p.hooks.append(("before_tag", None, t))
            p.hooks.append(("before_scenario", name, None))
        failed = False
        sts = []
        if dry:
            for f in finals:
                if step_defined(f):
                    sts.append({"untested"})
                else:
                    sts.append({"undefined"})
                    state["dry_undefined"] = True
            if not finals:
                p.scen_status[name] = {"passed", "untested"}     # childless: out of scope
            elif any(not step_defined(f) for f in finals):
                p.scen_status[name] = {"untested", "error"}
            else:
                p.scen_status[name] = {"untested"}
        else:
            running = True
            skipped_by_step = False
            for f in finals:
                if running:
                    oc = outcomes.get(f, "pass") if step_defined(f) else "undefined"
                    if oc == "undefined":
                        sts.append({"undefined"})
                        failed = True
                        running = False
                        if cafs:
                            running = None       # not demanded what follows
                        continue
                    p.calls.append((name, f)) if oc != "conv" else None
                    p.hooks.append(("before_step", (name, f), None))
                    p.hooks.append(("after_step", (name, f), None))
                    if oc == "pass":
                        sts.append({"passed"})
                    elif oc == "pending":
                        if wip:
                            sts.append({"pending_warn"})
                        else:
                            sts.append({"pending"})
                            failed = True
                            running = True if cafs else False
                    elif oc in ("skip", "skip_feature", "skip_rule"):
                        sts.append({"skipped"})
                        skipped_by_step = True
                        running = False
                        if oc != "skip":
                            path = inst["path"]
                            state["skip_rest"] = path[-1] if (oc == "skip_rule" and len(path) > 1) else path[0]
                    elif oc == "abort":
                        sts.append({"passed"})
                        p.aborted = True
                    else:
                        sts.append({NONPASS_STATUS[oc]})
                        failed = True
                        running = True if (cafs and oc != "ki") else False
                        if oc == "ki":
                            p.aborted = True
                            if cafs:
                                running = None
                elif running is None:
                    sts.append({"passed", "failed", "error", "pending", "pending_warn", "undefined", "skipped", "?"})
                else:
                    if skipped_by_step and not failed:
                        sts.append({"skipped"})
                    else:
                        sts.append({"skipped"} if step_defined(f) else {"undefined"})
            # scenario status
            flat = [next(iter(s)) if len(s) == 1 else "?" for s in sts]
            if "?" in flat:
                p.scen_status[name] = {"failed", "error"}
            else:
                has_err = any(x in ("error", "undefined", "pending") for x in flat)
                has_fail = any(x == "failed" for x in flat)
                if has_err and has_fail:
                    p.scen_status[name] = {"failed", "error"}
                elif has_err:
                    p.scen_status[name] = {"error"}
                elif has_fail:
                    p.scen_status[name] = {"failed"}
                elif flat and all(x == "skipped" for x in flat):
                    p.scen_status[name] = {"skipped"}
                elif "skipped" in flat:
                    # some steps passed, then a step skipped the scenario
                    p.scen_status[name] = {"skipped"}
                else:
                    p.scen_status[name] = {"passed"}
        p.step_status[name] = sts
        p.scen_failed[name] = failed
        if not dry:
            p.hooks.append(("after_scenario", name, None))
            for t in own_tags:
                p.hooks.append(("after_tag", None, t))
        return failed

    def never_started(inst):
        name = inst["name"]
        tags = eff_tags(inst)
        p.selected[name] = formula_ok(cfg, tags) and name_ok(cfg, name)
        p.started[name] = False
        finals = [s["final"] for s in inst["steps"]]
        p.step_status[name] = [{"untested"} for _ in finals]
        p.scen_status[name] = {"untested"} if finals else {"passed", "untested", "skipped"}
        p.scen_failed[name] = False

    def container_should_run(node, anc_tags, insts_inside):
        own = set(node["tags"])
        for a in anc_tags:
            own.update(a)
        own = set(t for t in own if not ("<" in t and ">" in t))
        own_match = formula_ok(cfg, own)
        child = any(formula_ok(cfg, eff_tags(i)) for i in insts_inside)
        # the statement only demands hooks for executed elements and none for skipped ones;
        # a container whose own tags satisfy the expression although no scenario in it is selected is open
        if own_match and not any(formula_ok(cfg, eff_tags(i)) and name_ok(cfg, i["name"]) for i in insts_inside):
            p.ambiguous_hooks = True
        if child and not any(formula_ok(cfg, eff_tags(i)) and name_ok(cfg, i["name"]) for i in insts_inside):
            p.ambiguous_hooks = True       # selected by tags, de-selected by name: container hooks open
        # an outline (template) whose own plain tags + ancestors satisfy the expression although none of its rows
        # does (the examples tags de-select them): same open question one level down
        outline_match = False
        seen = set()
        for i in insts_inside:
            if i.get("outline") and id(i["node"]) not in seen:
                seen.add(id(i["node"]))
                tpl = set(t for t in i["node"]["tags"] if not ("<" in t and ">" in t))
                for a in i["anc_tags"]:
                    tpl.update(t for t in a if not ("<" in t and ">" in t))
                if formula_ok(cfg, tpl):
                    outline_match = True
        if outline_match and not (own_match or child):
            p.ambiguous_hooks = True
        return own_match or child or outline_match

    for feature in program["features"]:
        insts = list(iter_scenario_instances(feature))
        p.instances.extend(insts)
        if state["halt"]:
            for i in insts:
                never_started(i)
            p.container_started[feature["name"]] = False
            continue
        p.container_started[feature["name"]] = True
        # group instances by item
        by_node = {}
        for i in insts:
            by_node.setdefault(id(i["node"]), []).append(i)

        def run_container(node, anc_tags, kind):
            inside = [i for i in insts if node["name"] in i["path"]]
            hooks_on = (not dry) and container_should_run(node, anc_tags, inside)
            if hooks_on:
                for t in node["tags"]:
                    p.hooks.append(("before_tag", None, t))
                p.hooks.append(("before_" + kind, node["name"], None))
            if hooks_on and node["name"] in user_skip:
                # user code calls feature.skip() / rule.skip() in the before-hook: everything inside is reported skipped, nothing
                # inside is called, the after-hooks of the container still run
                for i in inside:
                    nm = i["name"]
                    p.selected[nm] = False
                    p.started[nm] = False
                    p.step_status[nm] = [{"skipped"} for _ in i["steps"]]
                    p.scen_status[nm] = {"skipped"}
                    p.scen_failed[nm] = False
                p.hooks.append(("after_" + kind, node["name"], None))
                for t in node["tags"]:
                    p.hooks.append(("after_tag", None, t))
                return False
            failed_any = False
            broke = False
            for it in node["items"]:
                if broke:
                    if it["kind"] == "rule":
                        for i in [x for x in insts if it["name"] in x["path"]]:
                            never_started(i)
                    else:
                        for i in by_node.get(id(it), []):
                            never_started(i)
                    continue
                if it["kind"] == "rule":
                    f = run_container(it, anc_tags + [node["tags"]], "rule")
                    if f:
                        failed_any = True
                        if stop or p.aborted:
                            broke = True
                    continue
                rows = by_node.get(id(it), [])
                if cfg.get("names") and not any(name_ok(cfg, i["name"]) for i in rows) and \
                        not (it["kind"] == "scenario" and name_ok(cfg, it["name"])):
                    # de-selected by name as a whole: marked skipped without running
                    for i in rows:
                        nm = i["name"]
                        p.selected[nm] = False
                        p.started[nm] = False
                        p.step_status[nm] = [{"skipped"} for _ in i["steps"]]
                        p.scen_status[nm] = {"skipped"}
                        p.scen_failed[nm] = False
                    continue
                item_failed = False
                row_broke = False
                for i in rows:
                    if row_broke:
                        never_started(i)
                        continue
                    if p.aborted:
                        # aborted without failure (context.abort()): scenario entered, steps left untested
                        never_started(i)
                        p.started[i["name"]] = True
                        continue
                    f = run_instance(i)
                    if f:
                        item_failed = True
                        state["any_failed"] = True
                        if stop or p.aborted:
                            row_broke = True
                if item_failed:
                    failed_any = True
                    if stop or p.aborted:
                        broke = True
            if hooks_on:
                p.hooks.append(("after_" + kind, node["name"], None))
                for t in node["tags"]:
                    p.hooks.append(("after_tag", None, t))
            return failed_any

        f = run_container(feature, [], "feature")
        if (f and stop) or p.aborted:
            state["halt"] = True

    if not dry:
        p.hooks.insert(0, ("before_all", None, None))
        p.hooks.append(("after_all", None, None))
    else:
        p.hooks = []
    if state["any_failed"] or p.aborted:
        p.verdict = {True}
    elif dry and state["dry_undefined"]:
        # a dry-run executes nothing, but it looks every step of every selected scenario up: an undefined step found there is
        # "a selected scenario runs into a step that is undefined" (the fourth disjunct of the verdict expression exists for it)
        p.verdict = {True}
    else:
        p.verdict = {False}
    return p
