"""Reference model of behave's Context: a stack of scopes (dicts) with ordered cleanup lists.

Written from the statement of C13 and the user documentation (docs: 'context layers', fixtures).
"""
from __future__ import annotations

MISSING = object()


class CtxModel(object):
    def __init__(self):
        self.frames = [{"attrs": {}, "cleanups": [], "layer": "testrun"}]     # frames[-1] is the innermost scope

    @property
    def depth(self):
        return len(self.frames)

    def push(self, layer=None):
        self.frames.append({"attrs": {}, "cleanups": [], "layer": layer})

    def pop(self):
        """Returns (expected cleanup execution order [ids], raises?)."""
        fr = self.frames.pop()
        order = [c for c in reversed(fr["cleanups"])]
        return order

    def root_cleanups(self):
        order = [c for c in reversed(self.frames[0]["cleanups"])]
        self.frames[0]["cleanups"] = []
        return order

    def get(self, name):
        for fr in reversed(self.frames):
            if name in fr["attrs"]:
                return fr["attrs"][name]
        return MISSING

    def contains(self, name):
        return self.get(name) is not MISSING

    def set(self, name, value):
        self.frames[-1]["attrs"][name] = value

    def set_root(self, name, value):
        self.frames[0]["attrs"][name] = value

    def delete(self, name):
        """True when deletable (set in the innermost scope), False -> AttributeError expected."""
        if name in self.frames[-1]["attrs"]:
            del self.frames[-1]["attrs"][name]
            return True
        return False

    def add_cleanup(self, cid, layer=None, unique=False):
        """Returns False when the layer does not exist (LookupError expected)."""
        if layer is None:
            target = self.frames[-1]
        else:
            target = next((fr for fr in reversed(self.frames) if fr["layer"] == layer), None)
            if target is None:
                return False
        if unique and cid in target["cleanups"]:
            return True         # the very same plain callable registered twice for ONE scope runs once (documented)
        target["cleanups"].append(cid)
        return True

    def visible(self):
        out = {}
        for fr in self.frames:
            out.update(fr["attrs"])
        return out
