#!/venv/bin/python
"""Sensitivity self-test: apply one property-breaking textual patch at a time to a scratch copy
of /repo (outside /repo and /verif), run the property's check against the copy
(BVM_REPO=<copy>) and expect exit 1 with a VIOLATION line.  Never touches /repo.

usage: selftest/mutants.py [--props C07,C08] [--ids m1,m2] [--tier quick] [--jobs N] [--suite]
  --suite   also run the repository's own test-suite on the mutant (is the mutant test-silent?)
"""
from __future__ import annotations

import argparse
import json
import os
import shutil
import subprocess
import sys
import tempfile
import time
from concurrent.futures import ThreadPoolExecutor

HERE = os.path.dirname(os.path.abspath(__file__))
VERIF = os.path.dirname(HERE)
sys.path.insert(0, HERE)
from mutant_catalogue import MUTANTS  # noqa: E402


def make_copy(m):
    root = tempfile.mkdtemp(prefix="bvm-mut-")
    for name in ("behave", "docs", "tests", "pytest.ini", "conftest.py", "behave.ini", "setup.cfg", "pyproject.toml",
                 "behave4cmd0"):
        src = os.path.join(os.environ.get("BVM_MUT_SRC", "/repo"), name)
        if not os.path.exists(src):
            continue
        if name in ("tests", "behave4cmd0") and not m.get("_suite"):
            continue
        dst = os.path.join(root, name)
        if os.path.isdir(src):
            shutil.copytree(src, dst, ignore=shutil.ignore_patterns("__pycache__", "_build"))
        else:
            shutil.copy(src, dst)
    edits = m["edits"] if "edits" in m else [m]
    for e in edits:
        path = os.path.join(root, e["file"])
        with open(path) as f:
            s = f.read()
        if s.count(e["old"]) < 1:
            shutil.rmtree(root)
            raise LookupError("mutant %s: pattern not found in %s: %r" % (m["id"], e["file"], e["old"]))
        s = s.replace(e["old"], e["new"], e.get("count", 1))
        with open(path, "w") as f:
            f.write(s)
    return root


def run_one(m, tier, suite, seed):
    m = dict(m, _suite=suite)
    out = {"id": m["id"], "props": m["props"], "results": {}}
    try:
        root = make_copy(m)
    except LookupError as ex:       # the source moved on: report as not caught (the catalogue must be kept current)
        for pid in m["props"]:
            out["results"][pid] = {"rc": -1, "violations": 0, "secs": 0.0, "slugs": [], "tail": ["STALE: %s" % ex]}
        return out
    try:
        env = dict(os.environ, BVM_REPO=root, VERIF_JOBS=str(m.get("jobs", 4)), VERIF_SEED=str(seed))
        if suite:
            p = subprocess.run(["/venv/bin/python", "-m", "pytest", "-q", "-p", "no:cacheprovider",
                                "--timeout=900", "tests"], cwd=root, capture_output=True, text=True,
                               env=dict(os.environ, PYTHONPATH=root))
            tail = p.stdout.strip().splitlines()[-1:] if p.stdout else []
            line = tail[0] if tail else "rc=%d" % p.returncode
            out["suite"] = "silent (1655 passed, the 13 known failures)" if ("1655 passed" in line and "13 failed" in line) else line.strip("= ")
        for pid in m["props"]:
            t0 = time.time()
            p = subprocess.run([os.path.join(VERIF, "check"), pid, "--tier", tier, "--no-evidence"],
                               capture_output=True, text=True, env=env, timeout=3600)
            viol = [l for l in p.stdout.splitlines() if l.startswith("VIOLATION")]
            slugs = [l.strip() for l in p.stdout.splitlines() if l.startswith("  slug=")]
            out["results"][pid] = {"rc": p.returncode, "violations": len(viol), "secs": round(time.time() - t0, 1),
                                   "slugs": [s[:160] for s in slugs[:3]],
                                   "tail": p.stdout.strip().splitlines()[-1:] + p.stderr.strip().splitlines()[-2:]}
    finally:
        shutil.rmtree(root, ignore_errors=True)
    return out


def main():
    ap = argparse.ArgumentParser()
    ap.add_argument("--props")
    ap.add_argument("--ids")
    ap.add_argument("--tier", default="quick")
    ap.add_argument("--jobs", type=int, default=4)
    ap.add_argument("--suite", action="store_true")
    ap.add_argument("--seed", type=int, default=0)
    ap.add_argument("--out", help="write a JSON summary (id, props, caught, slugs, suite line) here")
    args = ap.parse_args()
    sel = MUTANTS
    if args.props:
        want = set(args.props.split(","))
        sel = [dict(m, props=[p for p in m["props"] if p in want]) for m in sel if want & set(m["props"])]
    if args.ids:
        want = set(args.ids.split(","))
        sel = [m for m in sel if m["id"] in want]
    caught = missed = 0
    summary = []
    with ThreadPoolExecutor(args.jobs) as ex:
        for res in ex.map(lambda m: run_one(m, args.tier, args.suite, args.seed), sel):
            for pid, r in res["results"].items():
                ok = r["rc"] == 1 and r["violations"] > 0
                caught += ok
                summary.append({"id": res["id"], "property": pid, "caught": bool(ok), "tier": args.tier, "seed": args.seed,
                                "slugs": [x.split(" ")[0].replace("slug=", "") for x in r["slugs"]], "suite": res.get("suite")})
                missed += (not ok)
                print("%-7s %-44s %s rc=%d %5.1fs %s %s" % (pid, res["id"], "CAUGHT" if ok else "MISSED", r["rc"],
                                                             r["secs"], res.get("suite", ""),
                                                             (r["slugs"][:1] if ok else r["tail"])))
                sys.stdout.flush()
    print("caught=%d missed=%d" % (caught, missed))
    if args.out:
        with open(args.out, "w") as f:
            json.dump({"source": "selftest/mutants.py", "caught": caught, "missed": missed, "mutants": summary}, f, indent=1)
    return 1 if missed else 0


if __name__ == "__main__":
    sys.exit(main())
