"""Property-breaking patches (textual, applied to a scratch copy only)."""

MUTANTS = []


def M(id, props, file, old, new, **kw):
    MUTANTS.append(dict(id=id, props=props if isinstance(props, list) else [props], file=file, old=old, new=new, **kw))


TE = "behave/tag_expression/"
# ---- C07 -------------------------------------------------------------------
M("c07.matcher-case-insensitive", "C07", TE + "model.py", "if fnmatchcase(value, self.pattern):",
  "if fnmatchcase(value.lower(), self.pattern.lower()):")
M("c07.to_string-strips-parens", "C07", TE + "model.py", 'text = text.replace("( ", "(").replace(" )", ")")',
  'text = text.replace("( ", "").replace(" )", "")')
M("c07.list-joined-with-or", "C07", TE + "builder.py", 'text = " and ".join(terms)', 'text = " or ".join(terms)')
M("c07.list-terms-unparenthesised", "C07", TE + "builder.py", 'terms = ["({0})".format(term) for term in sequence]',
  'terms = ["{0}".format(term) for term in sequence]')
M("c07.operand-always-literal", "C07", TE + "parser.py", "if Matcher.contains_wildcards(text):", "if False:")
M("c07.at-not-removed", "C07", TE + "builder.py", 'text = text.replace("@", "")', 'text = text.replace("@@", "")')
M("c07.config-raw-substitution", "C07", "behave/configuration.py",
  'placeholder_value = "{0}".format(config_tag_expression)',
  'placeholder_value = config_tags if isinstance(config_tags, six.string_types) else " ".join(config_tags)')
# (a variant printing "not a" without parentheses is semantically equivalent -- not a property break)
