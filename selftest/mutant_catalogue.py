"""Property-breaking patches (textual, applied to a scratch copy only)."""

MUTANTS = []


def M(id, props, file, old, new, **kw):
    MUTANTS.append(dict(id=id, props=props if isinstance(props, list) else [props], file=file, old=old, new=new, **kw))


TE = "behave/tag_expression/"
# ---- C07 -------------------------------------------------------------------
M("c07.matcher-case-insensitive", "C07", TE + "model.py", "if fnmatchcase(value, self.pattern):",
  "if fnmatchcase(value.lower(), self.pattern.lower()):")
M("c07.to_string-strips-parens", "C07", TE + "model.py", 'text = text.replace("( ", "(").replace(" )", ")")',
  'text = text.replace("( ", "").replace(" )", "")')
M("c07.list-joined-with-or", "C07", TE + "builder.py", 'text = " and ".join(terms)', 'text = " or ".join(terms)')
M("c07.list-terms-unparenthesised", "C07", TE + "builder.py", 'terms = ["({0})".format(term) for term in sequence]',
  'terms = ["{0}".format(term) for term in sequence]')
M("c07.operand-always-literal", "C07", TE + "parser.py", "if Matcher.contains_wildcards(text):", "if False:")
M("c07.at-not-removed", "C07", TE + "builder.py", 'text = text.replace("@", "")', 'text = text.replace("@@", "")')
M("c07.config-raw-substitution", "C07", "behave/configuration.py",
  'placeholder_value = "{0}".format(config_tag_expression)',
  'placeholder_value = config_tags if isinstance(config_tags, six.string_types) else " ".join(config_tags)')
# (a variant printing "not a" without parentheses is semantically equivalent -- not a property break)

# ---- C08 -------------------------------------------------------------------
M("c08.tilde-not-normalised", "C08", TE + "v1.py", "elif tag.startswith('~'):\n            tag = '-' + tag[1:]",
  "elif tag.startswith('~~'):\n            tag = '-' + tag[1:]")
M("c08.any-all-swapped", "C08", TE + "v1.py", "return all(any(test_tag(xtag) for xtag in ors)  for ors in self.ands)",
  "return any(all(test_tag(xtag) for xtag in ors)  for ors in self.ands)")
M("c08.autodetect-two-words-v2", "C08", TE + "builder.py", "elif contains_v1_keywords or len(words) > 1:",
  "elif contains_v1_keywords or len(words) > 2:")
M("c08.mixed-error-removed", "C08", TE + "builder.py", "if contains_v1_prefixes and contains_v2_keywords:",
  "if False and contains_v1_prefixes and contains_v2_keywords:")
M("c08.neg-at-prefix-dropped", "C08", TE + "v1.py", "elif tag.startswith('-@') or tag.startswith('~@'):\n            tag = '-' + tag[2:]",
  "elif tag.startswith('-@'):\n            tag = '-' + tag[2:]")
M("c08.limit-kept-in-tag", "C08", TE + "v1.py", "tag_with_negation = tag.pop(0)", "tag_with_negation = ':'.join(tag) if negated else tag[0]; tag.pop(0)")
M("c08.prefix-check-first-word-only", "C08", TE + "builder.py",
  "v1_tags = [tag for word in words for tag in word.split(\",\")]", "v1_tags = words[:1]")
M("c08.v1-string-not-split", "C08", TE + "builder.py", "tag_expression_parts = tag_expression_parts.split()",
  "tag_expression_parts = [tag_expression_parts]")

# ---- C01 -------------------------------------------------------------------
# Equivalent for the demanded behaviour (not kept): dropping `hook_failures > 0` (every hook failure also marks an element
# or aborts), not counting a KeyboardInterrupt caught in the feature loop (the run is aborted anyway).
RUN = "behave/runner.py"
MOD = "behave/model.py"
M("c01.verdict-ignores-cleanup-failures", ["C01"], RUN, "                  or cleanups_failed)", "                  )")
M("c01.outline-run-returns-false", ["C01"], MOD, 'self.clear_status()  # -- ENFORCE: compute_status() after run.\n        return failed_count > 0',
  'self.clear_status()  # -- ENFORCE: compute_status() after run.\n        return False')
M("c01.container-ignores-failing-item", ["C01"], MOD, "                failed = run_item.run(runner)\n                if failed:\n                    failed_count += 1",
  "                failed = run_item.run(runner)\n                if failed and not isinstance(run_item, Rule):\n                    failed_count += 1")
M("c01.main-exit-zero-on-hook-only", ["C01"], "behave/__main__.py", "    return_code = 0\n    if failed:\n        return_code = 1",
  "    return_code = 0\n    if failed and not (runner and runner.hook_failures and not runner.aborted):\n        return_code = 1")
M("c01.verdict-ignores-undefined-steps", ["C01"], RUN, "                  or (len(self.undefined_steps) > undefined_steps_initial_size)\n", "")
M("c01.verdict-ignores-aborted", ["C01"], RUN, "failed = ((failed_count > 0) or self.aborted or", "failed = ((failed_count > 0) or")
M("c01.scenario-cleanup-error-not-failed", ["C01"], MOD, "            self.set_status(Status.error)\n            failed = True\n\n        # -- CAPTURED-OUTPUT:",
  "            self.set_status(Status.error)\n\n        # -- CAPTURED-OUTPUT:")
M("c01.pending-step-keeps-going", ["C01", "C02"], MOD, "                self.status = Status.pending\n                if dry_run_mode:",
  "                self.status = Status.pending_warn\n                if dry_run_mode:")

# ---- C02 -------------------------------------------------------------------
M("c02.own-steps-before-background", "C02", MOD, "return itertools.chain(self.background_steps, self.steps)",
  "return itertools.chain(self.steps, self.background_steps)")
M("c02.background-drops-inherited", "C02", MOD, "return itertools.chain(self.inherited_steps, self.steps)\n        return iter(self.steps)",
  "return iter(self.steps)\n        return iter(self.steps)")
M("c02.assertion-mapped-to-error", "C02", MOD, "            except AssertionError as e:\n                self.status = Status.failed",
  "            except AssertionError as e:\n                self.status = Status.error")
M("c02.keep-running-after-failure", "C02", MOD, "                        run_steps = (self.continue_after_failed_step and\n                                     step.has_failed())",
  "                        run_steps = step.status is Status.failed")
M("c02.dry-run-calls-steps", "C02", MOD, "        run_steps = run_scenario and not runner.config.dry_run\n        dry_run_scenario",
  "        run_steps = run_scenario\n        dry_run_scenario")
M("c02.wip-inverted", "C02", MOD, "                elif wip_mode:\n                    self.status = Status.pending_warn",
  "                elif not wip_mode:\n                    self.status = Status.pending_warn")
M("c02.step-reset-dropped", "C02", MOD, "        self.reset()\n        dry_run_mode = runner.config.dry_run",
  "        self.hook_failed = False\n        dry_run_mode = runner.config.dry_run")
M("c02.remaining-undefined-not-detected", "C02", MOD, "                    if not found_step_match:\n                        step.status = Status.undefined",
  "                    if not found_step_match and dry_run_scenario:\n                        step.status = Status.undefined")
M("c02.skip-step-counts-as-passed", "C02", MOD, "                if self.status == Status.untested:\n                    # -- NOTE: Executed step may have skipped scenario and itself.",
  "                if self.status in (Status.untested, Status.skipped):\n                    # -- NOTE: Executed step may have skipped scenario and itself.")
M("c02.wip-from-own-tags-only", "C02", MOD, 'if current_scenario and "wip" in current_scenario.effective_tags:',
  'if current_scenario and "wip" in current_scenario.tags:')

# ---- C03 -------------------------------------------------------------------
MC = "behave/model_core.py"
M("c03.pending-not-error", "C03", MC, "return self in (Status.error, Status.hook_error, Status.cleanup_error,\n                        Status.undefined, Status.pending)",
  "return self in (Status.error, Status.hook_error, Status.cleanup_error,\n                        Status.undefined)")
M("c03.hook_error-not-final", "C03", MC, "                        Status.hook_error,\n                        # -- USED FOR: STEP is not found/registered",
  "                        # -- USED FOR: STEP is not found/registered")
M("c03.container-skipped-init-false", "C03", MOD, "        skipped = True\n        passed_count = 0", "        skipped = False\n        passed_count = 0")
M("c03.container-untested-branch-removed", "C03", MOD, "                if untested_status is None:\n                    untested_status = Status.untested",
  "                if False:\n                    untested_status = Status.untested")
M("c03.scenario-final-clear-status-removed", "C03", MOD, "        self.clear_status()  # -- ENFORCE: compute_status() after run.\n        if not run_scenario and not self.steps:",
  "        if not run_scenario and not self.steps:")
M("c03.outline-untested-case-removed", "C03", MOD, "        if untested_count > 0 or (not self._scenarios and", "        if False and (not self._scenarios and")
M("c03.outer-status-hook_error-kept", "C03", MC, "        assert isinstance(status, Status)\n        if status.is_error():\n            return Status.error\n        elif status.is_failure():\n            return Status.failed\n        elif status is Status.pending_warn:",
  "        assert isinstance(status, Status)\n        if status is Status.error:\n            return Status.error\n        elif status.is_failure():\n            return Status.failed\n        elif status is Status.pending_warn:")
M("c03.container-clear-status-after-run-removed", "C03", MOD, "        self.clear_status()  # -- ENFORCE: compute_status() after run.\n        if not self.run_items and not should_run_entity:",
  "        if not self.run_items and not should_run_entity:")
M("c03.xpassed-also-failure", "C03", MC, "        return self is Status.failed\n", "        return self in (Status.failed, Status.xpassed)\n")

# ---- C09 -------------------------------------------------------------------
M("c09.effective-tags-no-parent", "C09", MC, "        if self.parent:\n            # -- INHERIT TAGS: From parent(s), recursively\n            inherited_tags = self.parent.effective_tags\n            tags.update(inherited_tags)\n        return tags\n\n    def should_run_with_tags",
  "        return tags\n\n    def should_run_with_tags")
M("c09.row-parent-none", "C09", MOD, "                            parent=scenario_template,\n", "                            parent=None,\n")
M("c09.scenario-uses-own-tags", "C09", MC, "        return tag_expression.check(self.effective_tags)\n\n    @property\n    def status",
  "        return tag_expression.check(self.tags)\n\n    @property\n    def status")
M("c09.unselected-steps-left-untested", "C09", MOD, "                    #   * Step skipped remaining scenario.\n                    step.status = Status.skipped",
  "                    #   * Step skipped remaining scenario.\n                    pass")
M("c09.hooks-for-skipped-scenario", "C09", MOD, "        hooks_called = False\n        if not runner.config.dry_run and run_scenario:\n            hooks_called = True",
  "        hooks_called = False\n        if not runner.config.dry_run:\n            hooks_called = True")
M("c09.examples-tags-not-added", "C09", MOD, "        row_tags.extend(example.tags)\n", "")
M("c09.outline-effective-tags-keep-param", "C09", MOD, "        tags = set([tag for tag in self.tags\n                    if not ScenarioOutlineBuilder.is_parametrized_tag(tag)])\n        if self.parent:\n            # -- INHERIT TAGS: From parent(s), recursively\n            inherited_tags = self.parent.effective_tags\n            tags.update(inherited_tags)",
  "        tags = set([tag for tag in self.tags\n                    if not ScenarioOutlineBuilder.is_parametrized_tag(tag)])")
M("c09.rule-ignores-feature-tags", "C09", MOD, "        feature = self\n        rule.parent = feature\n        rule.feature = feature",
  "        feature = self\n        rule.feature = feature")

# ---- C12 -------------------------------------------------------------------
# (guarding the container after-hooks by should_run_entity instead of hooks_called is equivalent unless a hook skips the element)
M("c12.scenario-after-tag-loop-removed", "C12", MOD, '            runner.run_hook("after_scenario", runner.context, self)\n            for tag in self.tags:\n                runner.run_hook("after_tag", runner.context, tag)',
  '            runner.run_hook("after_scenario", runner.context, self)')
M("c12.skip-scenario-untested-ignored", "C12", MOD, "        if not skip_scenario_untested:\n            for step in self.all_steps:", "        if True:\n            for step in self.all_steps:")
M("c12.tag-hook-errors-reraised", "C12", RUN, '                self.hook_failures += 1\n                if "tag" in name:', '                self.hook_failures += 1\n                if "tag" in name and "before" in name and isinstance(e, AssertionError):\n                    raise\n                if "tag" in name:')
M("c12.hooks-run-in-dry-run", "C12", RUN, "        if not self.config.dry_run and (name in self.hooks):", "        if (name in self.hooks):")
M("c12.after-step-skipped-on-step-error", "C12", MOD, '        runner.run_hook("after_step", runner.context, self)\n        if self.hook_failed:',
  '        if self.status is not Status.error:\n            runner.run_hook("after_step", runner.context, self)\n        if self.hook_failed:')
M("c12.feature-hook-error-not-set", "C12", MOD, "            if self.hook_failed:\n                # MAYBE BETTER: self.set_status(Status.error)\n                self.set_status(Status.hook_error)",
  "            if self.hook_failed and entity_name == 'rule':\n                # MAYBE BETTER: self.set_status(Status.error)\n                self.set_status(Status.hook_error)")
M("c12.before-feature-failure-runs-body", "C12", MOD, "            skip_entity_untested = self.hook_failed or runner.aborted\n            should_run_entity = self.should_run()",
  "            skip_entity_untested = runner.aborted\n            should_run_entity = self.should_run()")
M("c12.after-all-not-called-after-abort", "C12", RUN, '        self.run_hook("after_all", self.context)\n        try:', '        if not self.aborted:\n            self.run_hook("after_all", self.context)\n        try:')
M("c12.before-tags-after-before-hook", "C12", MOD, '            for tag in self.tags:\n                runner.run_hook("before_tag", runner.context, tag)\n            runner.run_hook("before_scenario", runner.context, self)',
  '            runner.run_hook("before_scenario", runner.context, self)\n            for tag in self.tags:\n                runner.run_hook("before_tag", runner.context, tag)')
M("c12.rule-tag-hook-blames-feature", "C12", RUN, '                    if statement is None:\n                        statement = getattr(context, "rule", None)\n', "")

# ---- C14 -------------------------------------------------------------------
SUMR = "behave/reporter/summary.py"
M("c14.outline-rows-not-counted", "C14", SUMR, "        for scenario in scenario_outline.scenarios:\n            self.process_scenario(scenario)",
  "        for scenario in scenario_outline.scenarios[:1]:\n            self.process_scenario(scenario)")
M("c14.steps-without-background", "C14", SUMR, "        for step in scenario:\n            self.step_summary[step.status.name] += 1",
  "        for step in scenario.steps:\n            self.step_summary[step.status.name] += 1")
M("c14.collector-skipped-steps-not-counted", "C14", "behave/summary.py", "        self.summary_counts.steps.increment(step.status)\n",
  "        if step.status is not Status.skipped:\n            self.summary_counts.steps.increment(step.status)\n")
M("c14.reporter-feature-only-for-run", "C14", RUN, "            # -- ALWAYS: Report run/not-run feature to reporters.\n            # REQUIRED-FOR: Summary to keep track of untested features.\n            for reporter in self.config.reporters:\n                reporter.feature(feature)",
  "            # -- ALWAYS: Report run/not-run feature to reporters.\n            # REQUIRED-FOR: Summary to keep track of untested features.\n            for reporter in self.config.reporters:\n                if run_feature or feature.status.is_final():\n                    reporter.feature(feature)")
M("c14.rules-counted-as-scenarios", "C14", SUMR, "        self.rule_summary[rule.status.name] += 1", "        self.scenario_summary[rule.status.name] += 1")
M("c14.errored-list-only-error", "C14", SUMR, "        elif scenario.status.is_error():\n            self.errored_scenarios.append(scenario)",
  "        elif scenario.status == Status.error:\n            self.errored_scenarios.append(scenario)")
# (computing the v2/v3 total from the shown parts is equivalent: omitted parts are zero)
M("c14.v1B-lookup-by-enum-only", "C14", SUMR, "        counts_total = select_status_count(status_counts, Status.passed, 0)", "        counts_total = status_counts.get(Status.passed, 0)")
M("c14.rule-line-dropped", "C14", SUMR, "        has_rules = (self.rule_summary[\"all\"] > 0)", "        has_rules = (self.rule_summary[\"all\"] > 1)")

# ---- C15 -------------------------------------------------------------------
JS = "behave/formatter/json.py"
M("c15.result-before-match", "C15", MOD, "        if not quiet:\n            for formatter in runner.formatters:\n                formatter.match(match)\n\n        if capture:",
  "        if not quiet:\n            for formatter in runner.formatters:\n                formatter.result(self)\n                formatter.match(match)\n\n        if capture:")
M("c15.eof-not-sent-for-failing-feature", "C15", MOD, "        if should_run_entity or runner.config.show_skipped:\n            callback_name = \"{0}_finished\".format(entity_name)",
  "        if (should_run_entity or runner.config.show_skipped) and not (failed_count and entity_name == \"feature\"):\n            callback_name = \"{0}_finished\".format(entity_name)")
M("c15.json-step-index-not-reset", "C15", JS, "        if scenario.description:\n            element[\"description\"] = scenario.description\n        self._step_index = 0",
  "        if scenario.description:\n            element[\"description\"] = scenario.description")
M("c15.json-status-from-feature", "C15", JS, "            status_name = self.current_scenario.status.name\n", "            status_name = self.current_feature.status.name\n")
M("c15.plain-pops-from-end", "C15", "behave/formatter/plain.py", "        step = self.steps.pop(0)\n", "        step = self.steps.pop()\n")
M("c15.json-rule-background-keeps-scenario", "C15", JS, "        self.finish_current_scenario()\n        self.current_scenario = None\n        element = self.add_feature_element({\n            \"type\": \"background\"",
  "        element = self.add_feature_element({\n            \"type\": \"background\"")
M("c15.close-twice", "C15", RUN, "        for formatter in self.formatters:\n            formatter.close()", "        for formatter in self.formatters:\n            formatter.close()\n            if self.aborted:\n                formatter.close()")
M("c15.progress2-hook-error-as-E", "C15", "behave/formatter/progress.py", '        Status.hook_error: "H",', '        Status.hook_error: "E",')
M("c15.json-table-rows-transposed", "C15", JS, '            "rows": [list(row) for row in table.rows]', '            "rows": [list(row)[::-1] for row in table.rows]')
M("c15.dry-run-undefined-no-events", "C15", MOD, "                        if dry_run_scenario:\n                            # -- EMULATE: Step.run() protocol for undefined step.", "                        if False:\n                            # -- EMULATE: Step.run() protocol for undefined step.")
M("c15.steps-announced-after-first-step", "C15", MOD, "        if run_scenario or runner.config.show_skipped:\n            for step in self:\n                for formatter in runner.formatters:\n                    formatter.step(step)",
  "        if run_scenario or runner.config.show_skipped:\n            for step in list(self)[:1]:\n                for formatter in runner.formatters:\n                    formatter.step(step)")
M("c15.jsonparser-duplicates-background", "C15", "behave/json_parser.py", "                                  background_steps=[])", "                                  )")

# ---- C16 -------------------------------------------------------------------
JU = "behave/reporter/junit.py"
M("c16.cdata-terminator-not-escaped", "C16", JU, "    text = text.replace(u']]>', u']]&gt;')\n", "")
M("c16.invalid-chars-not-escaped-in-cdata", "C16", JU, "    text = text.replace(u']]>', u']]&gt;')\n    return _escape_invalid_xml_chars(text)", "    text = text.replace(u']]>', u']]&gt;')\n    return text")
M("c16.failed-counter-not-incremented", "C16", JU, "            # -- NOTE: Scenario may fail due to ...\n            report.counts_failed += 1", "            # -- NOTE: Scenario may fail due to ...\n            pass")
M("c16.tests-counted-unconditionally", "C16", JU, "        if scenario.status != Status.skipped or self.show_skipped:\n            # -- NOTE: Count only", "        if True:\n            # -- NOTE: Count only")
M("c16.outline-rows-skipped", "C16", JU, "        for scenario in scenario_outline:\n            assert isinstance(scenario, Scenario)\n            self._process_scenario(scenario, report)",
  "        for scenario in list(scenario_outline)[:1]:\n            assert isinstance(scenario, Scenario)\n            self._process_scenario(scenario, report)")
M("c16.attr-not-escaped", "C16", JU, '        case.set(u"name", escape_attribute(scenario.name or ""))', '        case.set(u"name", scenario.name or "")')
M("c16.hook-error-as-failure", "C16", JU, "        if scenario.status.is_error():\n", "        if scenario.status is Status.error:\n")
M("c16.status-attr-from-feature", "C16", JU, '        case.set(u"status", scenario.status.name)', '        case.set(u"status", feature.status.name)')
M("c16.skipped-counter-when-hidden", "C16", JU, "        elif scenario.status in skipped_statuses and self.show_skipped:\n            report.counts_skipped += 1",
  "        elif scenario.status in skipped_statuses:\n            report.counts_skipped += 1")
M("c16.cleanup-error-crash", "C16", JU, '(scenario.error_message or "").strip()', 'scenario.error_message.strip()')

# ---- C17 -------------------------------------------------------------------
RR = "behave/formatter/rerun.py"
RU = "behave/runner_util.py"
M("c17.stale-file-not-removed", "C17", RR, "        elif stream_name and os.path.exists(stream_name):\n", "        elif False:\n")
M("c17.feature-locations-instead-of-scenarios", "C17", RR, '            self.stream.write(u"%s\\n" % scenario.location)', '            self.stream.write(u"%s\\n" % scenario.feature.location)')
M("c17.rows-not-listed", "C17", RR, "            for scenario in self.current_feature.walk_scenarios():\n                if scenario.status.has_failed():",
  "            for scenario in self.current_feature.scenarios:\n                if scenario.status.has_failed():")
M("c17.listparser-comments-not-skipped", "C17", RU, "            if not filename or filename.startswith('#'):\n", "            if not filename:\n")
M("c17.only-failed-status", "C17", RR, "                if scenario.status.has_failed():", "                if scenario.status == Status.failed:")
M("c17.only-failed-features", "C17", RR, "self.current_feature.status.has_failed():", "self.current_feature.status == Status.failed:")
# (not resetting current_feature in eof() is equivalent: formatter.feature() and formatter.eof() are gated by the same condition in
#  ScenarioContainer.run, so every eof() is preceded by the feature() that overwrites the attribute -- removed, it was never a break)
M("c17.location-collector-first-line-only", "C17", RU, "        for line in selected_lines:\n            more_scenarios = line_database.select_scenarios_by_line(line)\n            selected_scenarios.update(more_scenarios)",
  "        for line in selected_lines[:1]:\n            more_scenarios = line_database.select_scenarios_by_line(line)\n            selected_scenarios.update(more_scenarios)")

# ---- C18 -------------------------------------------------------------------
CAP = "behave/capture.py"
M("c18.stop-capture-noop-for-stderr", "C18", CAP, "            if self.old_stderr:\n                sys.stderr = self.old_stderr\n                self.old_stderr = None\n            assert sys.stderr is not self.stderr_capture",
  "            if self.old_stderr and False:\n                sys.stderr = self.old_stderr\n                self.old_stderr = None")
M("c18.setup-capture-reuses-buffers", "C18", CAP, "        if self.config.stdout_capture:\n            self.stdout_capture = StringIO()\n            context.stdout_capture = self.stdout_capture",
  "        if self.config.stdout_capture:\n            self.stdout_capture = self.stdout_capture or StringIO()\n            context.stdout_capture = self.stdout_capture")
M("c18.stop-capture-only-when-passed", "C18", MOD, "        if capture:\n            runner.stop_capture()\n\n        # flesh out the failure with details",
  "        if capture and self.status is Status.passed:\n            runner.stop_capture()\n\n        # flesh out the failure with details")
M("c18.teardown-capture-removed", "C18", MOD, "        runner.teardown_capture()\n        return failed", "        return failed")
M("c18.log-level-not-restored", "C18", "behave/log_capture.py", "            root_logger.setLevel(self.old_level)\n            self.old_level = None", "            self.old_level = None")
M("c18.capture-started-after-before-step-hook", "C18", MOD, "        if capture:\n            runner.start_capture()\n\n        skip_step_untested = False\n        runner.run_hook(\"before_step\", runner.context, self)",
  "        skip_step_untested = False\n        runner.run_hook(\"before_step\", runner.context, self)\n        if capture:\n            runner.start_capture()\n")
M("c18.report-from-previous-buffers", "C18", MOD, "                self.captured = runner.capture_controller.captured\n                error2 = self.captured.make_report()",
  "                error2 = self.captured.make_report()\n                self.captured = runner.capture_controller.captured")
M("c18.ki-in-hook-not-restored", "C18", RUN, "                    self.stop_capture()\n                    self.teardown_capture()\n                    failed_count += 1", "                    failed_count += 1")
M("c18.stderr-capture-follows-stdout-switch", "C18", CAP, "        if self.config.stderr_capture:\n            # -- REPLACE ONLY: In non-capturing mode.\n            if not self.old_stderr:", "        if self.config.stdout_capture:\n            # -- REPLACE ONLY: In non-capturing mode.\n            if not self.old_stderr:")

# ---- C04 -------------------------------------------------------------------
PAR = "behave/parser.py"
M("c04.last-step-type-not-updated", "C04", PAR, "                else:\n                    self.last_step_type = step_type\n", "                else:\n                    if step_type != \"when\":\n                        self.last_step_type = step_type\n")
M("c04.table-line-off-by-one", "C04", PAR, "            self.table = model.Table(headings, line=self.line)", "            self.table = model.Table(headings, line=self.line + 1)")
M("c04.docstring-leading-from-stripped", "C04", PAR, "            self.multiline_leading = line.index(stripped[0])", "            self.multiline_leading = 0")
M("c04.examples-tags-not-reset", "C04", PAR, "        self.statement.examples.append(self.examples)\n\n        # -- RESET STATE:\n        self.tags = []", "        self.statement.examples.append(self.examples)\n")
M("c04.rule-description-to-feature", "C04", PAR, "        self.rule.description.append(line)", "        self.feature.description.append(line)")
M("c04.escaped-pipe-not-unescaped", "C04", PAR, 'cells = [cell.replace("\\\\|", "|").strip()', 'cells = [cell.strip()')
M("c04.row-line-from-table", "C04", PAR, "            self.table.add_row(cells, self.line)", "            self.table.add_row(cells)")
M("c04.tag-line-of-statement", "C04", PAR, "                tags.append(model.Tag(word[1:], self.line))", "                tags.append(model.Tag(word[1:], self.line + 1))")
M("c04.star-never-inherits", "C04", PAR, '                if kw.startswith("*") and self.last_step_type:', '                if kw.startswith("*") and False:')
M("c04.keyword-first-match", "C04", PAR, "                if 2 * len(kw) + int(line.startswith(kw)) != best_match_size:", "                if False:")
M("c04.background-and-does-not-inherit", "C04", PAR, "            this_background_steps = (this_background.steps or\n                                     this_background.inherited_steps)", "            this_background_steps = this_background.steps")
M("c04.docstring-lines-lstripped", "C04", PAR, "        text_line = line[self.multiline_leading:].rstrip()", "        text_line = line[self.multiline_leading:].strip()")
M("c04.language-header-ignored-after-blank", "C04", PAR, "            if line.lstrip().lower().startswith(\"language:\"):", "            if self.line == 1 and line.lstrip().lower().startswith(\"language:\"):")

# ---- C05 -------------------------------------------------------------------
M("c05.and-without-predecessor-accepted", "C05", PAR, "                        if not self.last_step_type:\n                            msg = u\"{step_type}-STEP REQUIRES: An previous Given/When/Then step.\"\n                            raise ParserError(msg.format(step_type=step_type.upper()),\n                                              self.line, self.filename)",
  "                        if not self.last_step_type:\n                            self.last_step_type = \"given\"")
M("c05.malformed-table-line-minus-one", "C05", PAR, "                raise ParserError(u\"Malformed table\", self.line, self.filename)", "                raise ParserError(u\"Malformed table\", self.line - 1, self.filename)")
M("c05.examples-check-removed", "C05", PAR, "        if not isinstance(self.statement, model.ScenarioOutline):\n            message = u\"Examples must only appear inside scenario outline\"\n            raise ParserError(message, self.line, self.filename, line)",
  "        if not hasattr(self.statement, \"examples\"):\n            self.statement.examples = []")
M("c05.text-after-steps-ignored", "C05", PAR, "            self.state = State.TABLE\n            return self.action_table(line)\n\n        return False", "            self.state = State.TABLE\n            return self.action_table(line)\n\n        return True")
M("c05.bad-tag-silently-dropped", "C05", PAR, "                # -- BAD-TAG: Abort here.\n                message = u\"tag: %s (line: %s)\" % (word, line)\n                raise ParserError(message, self.line, self.filename)", "                continue")
M("c05.unknown-language-keyerror", "C05", PAR, "                if language not in i18n.languages:\n                    raise ParserError(u\"Unknown language: %s\" % language,\n                                      self.line, self.filename, line)\n", "")
# (removing the explicit second-Background check is equivalent: after a Background with steps the parser is in state STEPS, where a Background line is rejected anyway)
M("c05.error-line-is-zero-based", "C05", PAR, "            raise ParserError(msg, self.line, self.filename,\n                              line_text=line, reason=reason)", "            raise ParserError(msg, self.line - 1, self.filename,\n                              line_text=line, reason=reason)")
M("c05.table-not-reset-on-reuse", "C05", PAR, "        self.lines = []\n        self.table = None\n        self.examples = None\n\n    def _parse_loop", "        self.lines = []\n        self.examples = None\n\n    def _parse_loop")
M("c05.docstring-before-step-accepted", "C05", PAR, "            if not self.statement.steps:\n                raise ParserError(\"Multi-line text before any step\",\n                                  self.line, self.filename)", "            if not self.statement.steps:\n                return True")

# ---- C06 -------------------------------------------------------------------
M("c06.step-for-row-without-deepcopy", "C06", MOD, "        new_step = copy.deepcopy(outline_step)", "        new_step = copy.copy(outline_step)")
M("c06.plain-outline-tags-normalized", ["C06", "C09"], MOD,
  "                tag = Tag.make_name(tag, unescape=True)\n            tags.append(tag)\n",
  "                tag = Tag.make_name(tag, unescape=True)\n            tags.append(Tag.make_name(tag, unescape=True))\n")
M("c06.examples-tags-not-added", "C06", MOD, "        row_tags.extend(example.tags)\n", "")
M("c06.scenario-line-from-examples", "C06", MOD, "        scenario_line = row.line\n", "        scenario_line = example.line\n")
M("c06.table-headings-not-substituted", "C06", MOD, "                for i, cell in enumerate(new_step.table.headings):\n                    new_step.table.headings[i] = cell.replace(placeholder, value)\n", "")
M("c06.modified-flag-never-rebuilt", "C06", MOD, "        needs_rebuild_scenarios = self._is_any_example_table_modified()", "        needs_rebuild_scenarios = not self._scenarios")
M("c06.docstring-not-substituted", "C06", MOD, "        if new_step.text:\n            new_step.text = cls.render_template(new_step.text, row)", "        if False:\n            new_step.text = cls.render_template(new_step.text, row)")
M("c06.row-id-zero-based", "C06", MOD, "                row.id = \"%d.%d\" % (example.index, row.index)", "                row.id = \"%d.%d\" % (example.index, row_index)")
M("c06.examples-name-not-rendered", "C06", MOD, "        examples_name = self.render_template(example.name, row, params)", "        examples_name = example.name")
M("c06.empty-cell-not-substituted", "C06", MOD, "                placeholder = u\"<%s>\" % name\n                text = text.replace(placeholder, value)", "                placeholder = u\"<%s>\" % name\n                if value:\n                    text = text.replace(placeholder, value)")
M("c06.only-first-examples-block", "C06", MOD, "        for example_index, example in enumerate(scenario_outline.examples):\n            example.index = example_index+1",
  "        for example_index, example in enumerate(scenario_outline.examples[:2]):\n            example.index = example_index+1")
M("c06.remove-column-keeps-cells", "C06", MOD, "        for row in self.rows:\n            assert column_index < len(row.cells)\n            del row.cells[column_index]", "        for row in self.rows[:1]:\n            assert column_index < len(row.cells)\n            del row.cells[column_index]")

# ---- C10 -------------------------------------------------------------------
M("c10.bisect-off-by-one", "C10", RU, "            pos = bisect(self._line_numbers, line) - 1\n            pos = max(0, pos)\n            run_item = self._line_entities[pos]", "            pos = bisect(self._line_numbers, line)\n            pos = min(len(self._line_entities) - 1, max(0, pos))\n            run_item = self._line_entities[pos]")
# (dropping the (0, feature) entry is equivalent: a miss below the first entry falls back to the first entry, the feature)
M("c10.rows-not-in-line-data", "C10", RU, "        elif isinstance(entity, ScenarioOutline):\n            run_items = entity.scenarios\n\n        line_data.append", "        elif isinstance(entity, ScenarioOutline):\n            run_items = []\n\n        line_data.append")
M("c10.setup-teardown-exemption-removed", "C10", RU, "            if \"setup\" in scenario.tags or \"teardown\" in scenario.tags:\n                continue", "            if \"setup\" in scenario.tags:\n                continue")
M("c10.second-location-of-same-file-dropped", "C10", RU, "        if location.filename == scenario_collector.filename:\n            scenario_collector.add_location(location)\n            continue", "        if location.filename == scenario_collector.filename:\n            continue")
M("c10.use-all-not-reset-between-files", "C10", RU, "        self.feature = None\n        self.filename = None\n        self.use_all_scenarios = False\n        self.scenario_lines = set()\n        self.all_scenarios = set()\n        self.selected_scenarios = set()\n\n    def add_location",
  "        self.feature = None\n        self.filename = None\n        self.scenario_lines = set()\n        self.all_scenarios = set()\n        self.selected_scenarios = set()\n\n    def add_location")
M("c10.rule-selects-only-direct-scenarios", "C10", RU, "        elif isinstance(run_item, Rule):\n            scenarios = list(run_item.walk_scenarios())", "        elif isinstance(run_item, Rule):\n            scenarios = list(run_item.scenarios)")
M("c10.name-select-uses-match", "C10", MOD, "        return not config.name or config.name_re.search(self.name)", "        return not config.name or config.name_re.match(self.name)")
# (a non-greedy filename group in the location regex is equivalent: the line group is anchored at the end)
M("c10.listfile-relative-to-cwd", "C10", RU, "        here = os.path.dirname(filename) or \".\"", "        here = \".\"")
M("c10.outline-name-select-first-row-only", "C10", MOD, "        for scenario in self.scenarios:     # -- REQUIRE: BUILD-SCENARIOS\n            if scenario.should_run_with_name_select(config):\n                return True\n        # -- NOTHING SELECTED:\n        return False",
  "        for scenario in self.scenarios[:1]:     # -- REQUIRE: BUILD-SCENARIOS\n            if scenario.should_run_with_name_select(config):\n                return True\n        # -- NOTHING SELECTED:\n        return False")

# ---- C11 -------------------------------------------------------------------
MAT = "behave/matchers.py"
SR = "behave/step_registry.py"
M("c11.parse-case-insensitive", "C11", MAT, "    CASE_SENSITIVE = True", "    CASE_SENSITIVE = False")
M("c11.args-not-sorted", "C11", MAT, "        args.sort(key=lambda x: x.start)\n", "")
M("c11.named-args-passed-positionally", "C11", MAT, "            if arg.name is not None:\n                kwargs[arg.name] = arg.value\n            else:\n                args.append(arg.value)", "            args.append(arg.value)")
M("c11.re-not-anchored-at-end", "C11", MAT, '        expression = r"^%s$" % pattern', '        expression = r"^%s" % pattern')
M("c11.generic-list-searched-first", "C11", SR, "            candidates = list(candidates)\n            candidates += more_steps\n\n        for step_definition in candidates:\n            result = step_definition.match(step.name)",
  "            candidates = list(more_steps) + list(candidates)\n\n        for step_definition in candidates:\n            result = step_definition.match(step.name)")
M("c11.candidates-reversed", "C11", SR, "        for step_definition in candidates:\n            result = step_definition.match(step.name)", "        for step_definition in reversed(list(candidates)):\n            result = step_definition.match(step.name)")
M("c11.ambiguity-only-identical", "C11", SR, "            if existing.matches(step_text):", "            if existing.pattern == step_text:")
M("c11.span-end-off-by-one", "C11", MAT, "            args.append(Argument(start, end, step_text[start:end], value, name))", "            args.append(Argument(start, end + 1, step_text[start:end], value, name))")
M("c11.find-match-leaks-generic-into-type-list", "C11", SR, "            candidates = list(candidates)\n            candidates += more_steps\n\n        for step_definition in candidates:\n            result = step_definition.match(step.name)",
  "            candidates += more_steps\n\n        for step_definition in candidates:\n            result = step_definition.match(step.name)")
M("c11.default-matcher-not-reset-after-module", "C11", RU, "                    exec_file(os.path.join(path, name), step_module_globals)\n                use_default_step_matcher()", "                    exec_file(os.path.join(path, name), step_module_globals)")
M("c11.regex-missing-group-dropped", "C11", MAT, "        for index, group in enumerate(matched.groups()):\n            index += 1\n            name = group_index.get(index, None)", "        for index, group in enumerate(matched.groups()):\n            index += 1\n            if matched.start(index) < 0:\n                continue\n            name = group_index.get(index, None)")
M("c11.same-definition-check-uses-raw-text", "C11", SR, "            if self.same_step_definition(existing, new_step_matcher.pattern,\n                                         step_location):", "            if self.same_step_definition(existing, step_text, step_location):")

# ---- C13 -------------------------------------------------------------------
M("c13.cleanups-not-reversed", "C13", RUN, "        for cleanup_func in reversed(cleanup_funcs):", "        for cleanup_func in list(cleanup_funcs):")
M("c13.pop-without-finally", "C13", RUN, "        try:\n            self._do_cleanups()\n        finally:\n            # -- ENSURE: Layer is removed even if cleanup-errors occur.\n            self._stack.pop(0)",
  "        self._do_cleanups()\n        self._stack.pop(0)")
M("c13.getattr-searches-two-frames", "C13", RUN, "        for frame in self._stack:\n            if attr in frame:\n                return frame[attr]\n        msg = \"'{0}' object has no attribute '{1}'\"",
  "        for frame in self._stack[:2]:\n            if attr in frame:\n                return frame[attr]\n        msg = \"'{0}' object has no attribute '{1}'\"")
M("c13.delattr-from-any-frame", "C13", RUN, "        frame = self._stack[0]\n        if attr in frame:\n            del frame[attr]", "        frame = next((f for f in self._stack if attr in f), self._stack[0])\n        if attr in frame:\n            del frame[attr]")
M("c13.add-cleanup-layer-ignored", "C13", RUN, "        if layer_name:\n            current_frame = self._select_stack_frame_by_layer(layer_name)", "        if layer_name:\n            self._select_stack_frame_by_layer(layer_name)")
M("c13.fixture-cleanup-registered-after-setup", "C13", "behave/fixture.py", "        context.add_cleanup(cleanup_fixture)\n        setup_result = next(func_it) # SETUP-FIXTURE PART (may raise error)",
  "        setup_result = next(func_it) # SETUP-FIXTURE PART (may raise error)\n        context.add_cleanup(cleanup_fixture)")
M("c13.execute-steps-restore-removed", "C13", RUN, "            self.table = original_table\n            self.text = original_text", "            pass")
M("c13.cleanup-stops-at-first-error", "C13", RUN, "                cleanup_errors.append(sys.exc_info())\n                on_cleanup_error(context, cleanup_func, e)", "                cleanup_errors.append(sys.exc_info())\n                on_cleanup_error(context, cleanup_func, e)\n                break")
M("c13.contains-only-current-frame", "C13", RUN, "        for frame in self._stack:\n            if attr in frame:\n                return True\n        return False", "        return attr in self._stack[0] or attr in self._root")
M("c13.scenario-cleanup-error-not-error-status", "C13", MOD, "        except Exception:               # pylint: disable=broad-except\n            self.set_status(Status.error)\n            failed = True", "        except Exception:               # pylint: disable=broad-except\n            failed = True")
M("c13.mode-not-restored-on-error", "C13", RUN, "    try:\n        context._mode = mode\n        yield\n    finally:\n        # -- RESTORE: Initial current_mode\n        #    Even if an AssertionError/Exception is raised.\n        context._mode = current_mode",
  "    context._mode = mode\n    yield\n    context._mode = current_mode")
M("c13.use-or-assign-overwrites", "C13", RUN, "        if name not in self:\n            # -- CASE: New, missing param -- Assign parameter-value.\n            setattr(self, name, value)\n            return value", "        if True:\n            setattr(self, name, value)\n            return value")
M("c13.testrun-cleanups-not-run", "C13", RUN, "            self.context._do_cleanups()   # Without dropping the last context layer.", "            pass")

# ---- C20 -------------------------------------------------------------------
CFG = "behave/configuration.py"
UD = "behave/userdata.py"
M("c20.defaults-set-after-parse", "C20", CFG, "        parser.set_defaults(**self.defaults)\n        args = parser.parse_args(command_args)", "        args = parser.parse_args(command_args)\n        for _k, _v in self.defaults.items():\n            setattr(args, _k, _v)")
M("c20.no-capture-wrong-dest", "C20", CFG, '    (("--no-capture",),\n     dict(dest="stdout_capture", action="store_false",', '    (("--no-capture",),\n     dict(dest="stderr_capture", action="store_false",')
M("c20.config-paths-not-joined", "C20", CFG, "                os.path.normpath(os.path.join(config_dir, p))\n                for p in paths", "                os.path.normpath(p)\n                for p in paths")
M("c20.userdata-defines-before-file", "C20", CFG, "        if self.userdata_defines:\n            # -- ENSURE: Cmd-line overrides configuration file parameters.\n            self.userdata.update(self.userdata_defines)",
  "        if self.userdata_defines:\n            _file = dict(self.userdata)\n            self.userdata.update(self.userdata_defines)\n            self.userdata.update(_file)")
M("c20.unquote-before-strip", "C20", UD, "        value = unqote(value.strip())", "        value = unqote(value).strip()")
M("c20.getbool-default-ignored", "C20", UD, "        if value is Unknown:\n            return default", "        if value is Unknown:\n            return default if valuetype is not bool else False")
M("c20.home-file-wins-over-cwd", "C20", CFG, "    for path in reversed(paths):\n        for filename in reversed((", "    for path in paths:\n        for filename in reversed((")
M("c20.ini-append-order-reversed", "C20", CFG, "            this_config[param_name] = [value_type(part.strip()) for part in value_parts]", "            this_config[param_name] = [value_type(part.strip()) for part in reversed(value_parts)]")
M("c20.toml-bool-always-true", "C20", CFG, "            this_config[param_name] = bool(raw_value)", "            this_config[param_name] = True")
M("c20.bare-define-empty", "C20", UD, "        name = text\n        value = \"true\"", "        name = text\n        value = \"\"")
M("c20.junit-does-not-force-capture", "C20", CFG, "            self.stdout_capture = True\n            self.stderr_capture = True\n            self.log_capture = True\n            self.reporters.append(JUnitReporter(self))", "            self.reporters.append(JUnitReporter(self))")
M("c20.behaverc-before-behave-ini", "C20", CFG, '            "behave.ini", ".behaverc", "setup.cfg", "tox.ini", "pyproject.toml"', '            ".behaverc", "behave.ini", "setup.cfg", "tox.ini", "pyproject.toml"')
M("c20.toml-tags-not-renamed", "C20", CFG, "            this_config[param_name] = raw_value\n        elif action not in CONFIGFILE_EXCLUDED_ACTIONS:\n            raise ValueError", "            this_config[dest] = raw_value\n        elif action not in CONFIGFILE_EXCLUDED_ACTIONS:\n            raise ValueError")

M("c19.version-object-string-not-converted", "C19", "behave/active_tag/python.py", "    def __init__(self, value, compare_func=None):\n        if isinstance(value, six.string_types):\n            value = self.to_version_tuple(value)",
  "    def __int__(self, value, compare_func=None):\n        if isinstance(value, six.string_types):\n            value = self.to_version_tuple(value)")
M("c19.version-tuple-two-parts-only", "C19", "behave/active_tag/python.py", 'return tuple([int(x) for x in version.split(".")])', 'return tuple([int(x) for x in version.split(".")[:2]])')
M("c04.bom-not-skipped", "C04", "behave/parser.py", 'data = f.read().decode("utf-8-sig")', 'data = f.read().decode("utf8")')
M("c20.bare-color-last-argument", "C20", "behave/configuration.py",
  "            if has_next_arg and os.path.exists(command_args[color_arg_pos + 1]):",
  "            if os.path.exists(command_args[color_arg_pos + 1]):")
M("c15.pretty-prefix-not-counted", "C15", "behave/formatter/pretty.py",
  "        line_length = len(prefix) + len(step.keyword) + 1\n", "        line_length = 5 + len(step.keyword)\n")
M("c15.pretty-step-lines-off-by-one", "C15", "behave/formatter/pretty.py",
  "self.step_lines = int((line_length - 1) / self.display_width)", "self.step_lines = int(line_length / self.display_width)")
# ---- round 11: the monitors added with the fix b1d5b0a and the u/v changes ----------------------------------------------
M("c17.skip-of-stepless-scenario-forgets-hook-error", ["C17", "C12"], MOD,
  "        if scenario_without_steps and not self.hook_failed:\n            self.set_status(Status.skipped)",
  "        if scenario_without_steps:\n            self.set_status(Status.skipped)")
M("c12.tag-hook-owner-after-cleanup-error", ["C12", "C13"], RUN,
  "        try:\n            self._do_cleanups()\n        finally:\n            # -- ENSURE: Layer is removed even if cleanup-errors occur.\n            self._stack.pop(0)",
  "        self._do_cleanups()\n        self._stack.pop(0)")
M("c13.getattr-falls-back-to-userdata", "C13", RUN,
  "        msg = \"'{0}' object has no attribute '{1}'\"",
  "        _ud = getattr(self.__dict__.get('_config'), 'userdata', None)\n        if isinstance(_ud, dict) and attr in _ud:\n            return _ud[attr]\n        msg = \"'{0}' object has no attribute '{1}'\"")
M("c19.value-object-equal-text-shortcut", "C19", "behave/tag_matcher.py",
  "        return bool(self.compare(self.value, tag_value))",
  "        if self.value == tag_value:\n            return True\n        return bool(self.compare(self.value, tag_value))")
M("c06.outline-iter-uses-cache", "C06", MOD,
  "    def __iter__(self):\n        return iter(self.scenarios)", "    def __iter__(self):\n        return iter(self._scenarios)")
M("c07.caret-class-negated", "C07", TE + "model.py",
  "        self.pattern = pattern\n", "        self.pattern = pattern.replace(\"[^\", \"[!\")\n")
M("c09.bare-star-matches-untagged", "C09", TE + "model.py",
  "    def evaluate(self, values):\n        for value in values:\n            # -- REQUIRE: case-sensitive matching\n            if fnmatchcase(value, self.pattern):",
  "    def evaluate(self, values):\n        if self.pattern == \"*\":\n            return True\n        for value in values:\n            # -- REQUIRE: case-sensitive matching\n            if fnmatchcase(value, self.pattern):")
M("c03.equal-rule-not-added", "C03", MOD,
  "        self.rules.append(rule)\n        self.run_items.append(rule)", "        self.rules.append(rule)\n        if rule not in self.run_items:\n            self.run_items.append(rule)")
M("c17.ensure-dir-one-level", "C17", "behave/formatter/base.py", "os.makedirs(directory)", "os.mkdir(directory)")
M("c20.behave-stage-over-file", "C20", CFG, "        if stage is None:\n            # -- USE ENVIRONMENT-VARIABLE, if stage is undefined.",
  "        if stage is None or stage == self.defaults.get(\"stage\"):\n            # -- USE ENVIRONMENT-VARIABLE, if stage is undefined.")
# ---- rounds 12 / 13 ----------------------------------------------------------------------------------------------------------
M("c20.exclude-ignored-when-include-given", ["C20"], CFG,
  "        if self.include_re and self.include_re.search(filename) is None:\n            return True\n        if self.exclude_re",
  "        if self.include_re:\n            return self.include_re.search(filename) is None\n        if self.exclude_re")
M("c20.color-never-coloured-on-a-terminal", ["C20"], CFG,
  "        if self.color in COLOR_OFF_VALUES:\n            return False\n", "        if self.color == COLOR_DEFAULT_OFF:\n            return False\n")
M("c08.old-style-str-separators-swapped", ["C08"], TE + "v1.py",
  "            and_parts.append(u\",\".join(or_terms))\n        return u\" \".join(and_parts)",
  "            and_parts.append(u\" \".join(or_terms))\n        return u\",\".join(and_parts)")
M("c05.examples-outside-outline-line-of-first-tag", ["C05"], "behave/parser.py",
  "            message = u\"Examples must only appear inside scenario outline\"\n            raise ParserError(message, self.line, self.filename, line)",
  "            message = u\"Examples must only appear inside scenario outline\"\n            raise ParserError(message, self.tags[0].line if self.tags else self.line, self.filename, line)")
M("c10.feature-locations-lose-their-line-with-include", ["C10"], RUN,
  "    def feature_locations(self):\n        return collect_feature_locations(self.config.paths)",
  "    def feature_locations(self):\n        locations = collect_feature_locations(self.config.paths)\n        if self.config.include_re or self.config.exclude_re:\n            from behave.model_core import FileLocation as _FL\n            locations = [_FL(loc.filename) for loc in locations]\n        return locations")
M("c19.composite-setup-skips-uncached-categories", ["C19"], "behave/tag_matcher.py",
  "    for category in list(active_tag_values.keys()):", "    for category in [c for c in data.keys() if c in active_tag_values]:")
ATM = "behave/tag_matcher.py"
M("c19.negative-tags-anded", "C19", ATM, "        tag_expression2 = any(negative_tags_matched)    #< LOGICAL-OR expression",
  "        tag_expression2 = bool(negative_tags_matched) and all(negative_tags_matched)")
M("c19.positive-tags-anded", "C19", ATM, "        tag_expression1 = any(positive_tags_matched)    #< LOGICAL-OR expression",
  "        tag_expression1 = all(positive_tags_matched)")
M("c19.unknown-category-never-ignored", "C19", ATM, "        if current_value is Unknown and self.ignore_unknown_categories:",
  "        if current_value is Unknown and not self.ignore_unknown_categories:")
M("c19.composite-matcher-needs-all-members", "C19", ATM,
  "        for tag_matcher in self.tag_matchers:\n            if tag_matcher.should_exclude_with(tags):\n                return True\n        # -- OTHERWISE:\n        return False",
  "        return bool(self.tag_matchers) and all(m.should_exclude_with(tags) for m in self.tag_matchers)")
M("c19.composite-provider-last-member-wins", "C19", ATM,
  "                # -- FOUND CATEGORY:\n                self.data[category] = value\n                break",
  "                # -- FOUND CATEGORY:\n                self.data[category] = value")
M("c19.groups-keep-only-last-tag-of-a-category", "C19", ATM,
  "                if category_tag_pairs is None:\n                    category_tag_pairs = category_tag_groups[category] = []",
  "                if True:\n                    category_tag_pairs = category_tag_groups[category] = []")
